abbrev Iv := Int × Int

def overlaps (a b : Iv) : Bool := !(a.2 < b.1 || a.1 > b.2)
def ilen (a b : Iv) : Int := max 0 (min a.2 b.2 - max a.1 b.1 + 1)

def sweep : List Iv → List Iv → Int
  | [], _ => 0
  | _ :: _, [] => 0
  | a :: as, b :: bs =>
    if overlaps a b then
      if b.2 < a.2 then ilen a b + sweep (a :: as) bs else ilen a b + sweep as (b :: bs)
    else if b.2 < a.1 then sweep (a :: as) bs else sweep as (b :: bs)
termination_by l1 l2 => l1.length + l2.length

def rowSum (a : Iv) (l : List Iv) : Int := (l.map (ilen a)).sum
def inter (l1 l2 : List Iv) : Int := (l1.map (fun a => rowSum a l2)).sum
def colSum (l : List Iv) (b : Iv) : Int := (l.map (fun a => ilen a b)).sum

def WFl (l : List Iv) : Prop := ∀ r ∈ l, r.1 ≤ r.2
/-- sorted and pairwise disjoint -/
def SD : List Iv → Prop
  | [] => True
  | [_] => True
  | a :: b :: t => a.2 < b.1 ∧ SD (b :: t)

theorem SD_tail {a : Iv} {l : List Iv} (h : SD (a :: l)) : SD l := by
  cases l with
  | nil => trivial
  | cons b t => exact h.2

theorem SD_all_right {a : Iv} {l : List Iv} (h : SD (a :: l)) (hw : WFl (a :: l)) :
    ∀ r ∈ l, a.2 < r.1 := by
  induction l generalizing a with
  | nil => intro r hr; cases hr
  | cons b t ih =>
    intro r hr
    have hb : a.2 < b.1 := h.1
    cases hr with
    | head => exact hb
    | tail _ hr' =>
      have hwb : b.1 ≤ b.2 := hw b (by simp)
      have := ih (a := b) h.2 (fun r hr => hw r (by simp at hr ⊢; right; exact hr)) r hr'
      omega

theorem inter_cons_cons (a b : Iv) (as bs : List Iv) :
    inter (a :: as) (b :: bs) = ilen a b + rowSum a bs + colSum as b + inter as bs := by
  simp only [inter, rowSum, colSum, List.map_cons, List.sum_cons]
  induction as with
  | nil => simp
  | cons c cs ih => simp only [List.map_cons, List.sum_cons]; omega

theorem inter_cons_left (a : Iv) (as bs : List Iv) :
    inter (a :: as) bs = rowSum a bs + inter as bs := by
  simp [inter]

theorem inter_cons_right (b : Iv) (as bs : List Iv) :
    inter as (b :: bs) = colSum as b + inter as bs := by
  induction as with
  | nil => simp [inter, colSum]
  | cons c cs ih =>
    rw [inter_cons_left, inter_cons_left, ih]
    simp [rowSum, colSum]; omega

theorem inter_nil_right (as : List Iv) : inter as [] = 0 := by
  induction as with
  | nil => rfl
  | cons c cs ih => rw [inter_cons_left, ih]; simp [rowSum]

theorem rowSum_zero {a : Iv} {l : List Iv} (h : ∀ r ∈ l, ilen a r = 0) : rowSum a l = 0 := by
  induction l with
  | nil => rfl
  | cons b t ih =>
    simp only [rowSum, List.map_cons, List.sum_cons]
    have h1 := h b (by simp)
    have h2 := ih (fun r hr => h r (by simp; right; exact hr))
    simp only [rowSum] at h2
    omega

theorem colSum_zero {b : Iv} {l : List Iv} (h : ∀ r ∈ l, ilen r b = 0) : colSum l b = 0 := by
  induction l with
  | nil => rfl
  | cons a t ih =>
    simp only [colSum, List.map_cons, List.sum_cons]
    have h1 := h a (by simp)
    have h2 := ih (fun r hr => h r (by simp; right; exact hr))
    simp only [colSum] at h2
    omega

theorem sweep_eq_inter (l1 l2 : List Iv) (h1 : SD l1) (h2 : SD l2) (w1 : WFl l1) (w2 : WFl l2) :
    sweep l1 l2 = inter l1 l2 := by
  fun_induction sweep l1 l2 with
  | case1 l => simp [inter]
  | case2 a as => exact (inter_nil_right _).symm
  | case3 a as b bs hov hlt ih =>
    -- overlap, b ends first: everything in `as` is right of b
    have hr := SD_all_right h1 w1
    have hcz : colSum as b = 0 := colSum_zero (fun r hr' => by
      have := hr r hr'; have := w1 r (by simp; right; exact hr'); simp only [ilen]; omega)
    rw [ih h1 (SD_tail h2) w1 (fun r hr => w2 r (by simp; right; exact hr))]
    rw [inter_cons_cons, inter_cons_left]; omega
  | case4 a as b bs hov hlt ih =>
    have hr := SD_all_right h2 w2
    have hrz : rowSum a bs = 0 := rowSum_zero (fun r hr' => by
      have := hr r hr'; have := w2 r (by simp; right; exact hr'); simp only [ilen]; omega)
    rw [ih (SD_tail h1) h2 (fun r hr => w1 r (by simp; right; exact hr)) w2]
    rw [inter_cons_cons, inter_cons_right]; omega
  | case5 a as b bs hov hlt ih =>
    -- no overlap, b left of a
    have hr := SD_all_right h1 w1
    have hab : ilen a b = 0 := by simp only [ilen]; omega
    have hcz : colSum as b = 0 := colSum_zero (fun r hr' => by
      have := hr r hr'; have := w1 a (by simp); simp only [ilen]; omega)
    rw [ih h1 (SD_tail h2) w1 (fun r hr => w2 r (by simp; right; exact hr))]
    rw [inter_cons_cons, inter_cons_left]; omega
  | case6 a as b bs hov hlt ih =>
    have hr := SD_all_right h2 w2
    have hov' : a.2 < b.1 := by
      simp [overlaps] at hov
      have := w1 a (by simp); have := w2 b (by simp); omega
    have hab : ilen a b = 0 := by simp only [ilen]; omega
    have hrz : rowSum a bs = 0 := rowSum_zero (fun r hr' => by
      have := hr r hr'; have := w2 b (by simp); simp only [ilen]; omega)
    rw [ih (SD_tail h1) h2 (fun r hr => w1 r (by simp; right; exact hr)) w2]
    rw [inter_cons_cons, inter_cons_right]; omega

#print axioms sweep_eq_inter
