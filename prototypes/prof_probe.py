import itertools, sys
from functools import partial
from src.long_read_profiles import OverlappingFeaturesProfileConstructor
from src.common import equal_ranges, contains, overlaps, overlaps_at_least, junctions_from_blocks

def ivs(U):
    return [(a,b) for a in range(1,U+1) for b in range(a,U+1)]

def sorted_disjoint_lists(U, maxn, mingap=1):
    # disjoint sorted lists with gap >= mingap
    all_iv = ivs(U)
    res=[[]]
    def rec(cur, start):
        for (a,b) in all_iv:
            if a >= start:
                nxt = cur+[(a,b)]
                res.append(nxt)
                if len(nxt) < maxn:
                    rec(nxt, b+1+mingap)
    rec([],1)
    return res

def spec_gene_profile(K, R, M, delta, absence):
    # candidate declarative spec
    n=len(K); prof=[0]*n
    cmpf=lambda r,k: equal_ranges(r,k,delta)
    md=lambda r,k: abs(r[0]-k[0])+abs(r[1]-k[1])
    for i,k in enumerate(K):
        present=False; loser=False
        for r in R:
            if cmpf(r,k):
                best=min(md(r,k2) for k2 in K if cmpf(r,k2))
                if md(r,k)==best: present=True
                else: loser=True
        if present: prof[i]=1
        elif loser: prof[i]=-1
        elif absence(M,k) or any(R[j][1] < k[0] and k[1] < R[j+1][0] for j in range(len(R)-1)): prof[i]=-1
    return prof

def run(U, delta, kind):
    bad=0; total=0
    Ks=[sorted(set(c)) for n in range(1,3) for c in itertools.combinations(ivs(U), n)]
    Rs=[R for R in sorted_disjoint_lists(U, 3, mingap=GAP(delta)) if all(r[1]-r[0]+1>=delta+1 for r in R)]
    for K in Ks:
        if any(k[1]-k[0]+1 < delta+1 for k in K): continue
        for R in Rs:
            if not R: continue
            if kind=="exon":
                M=(R[0][1]+delta, R[-1][0]-delta); absence=contains
            else:
                M=(R[0][0]-1, R[-1][1]+1); absence=contains  # pretend introns inside read
            c=OverlappingFeaturesProfileConstructor(K,(1,U),comparator=partial(equal_ranges,delta=delta),absence_condition=absence,delta=delta)
            got=c.construct_profile_for_features(R, M).gene_profile
            exp=spec_gene_profile(K,R,M,delta,absence)
            total+=1
            if got!=exp:
                bad+=1
                if bad<=8: print(kind,"delta",delta,"K",K,"R",R,"M",M,"got",got,"exp",exp)
    print(kind,"delta",delta,"total",total,"bad",bad)
import sys
GAP=lambda d: int(sys.argv[1])*d
for d in (1,2):
    run(9,d,"exon"); run(9,d,"intron")
