abbrev Bytes := List Nat   -- each < 256 (kept as Nat in the sketch)

def toBE : Nat → Nat → Bytes
  | 0, _ => []
  | k + 1, n => toBE k (n / 256) ++ [n % 256]

def fromBE (bs : Bytes) : Nat := bs.foldl (fun acc b => acc * 256 + b) 0

theorem toBE_length (k n : Nat) : (toBE k n).length = k := by
  induction k generalizing n with
  | zero => rfl
  | succ k ih => simp [toBE, ih]

theorem fromBE_append (a b : Bytes) : fromBE (a ++ b) = b.foldl (fun acc x => acc * 256 + x) (fromBE a) := by
  simp [fromBE, List.foldl_append]

theorem fromBE_toBE (k n : Nat) (h : n < 256 ^ k) : fromBE (toBE k n) = n := by
  induction k generalizing n with
  | zero => simp [toBE, fromBE] at *; omega
  | succ k ih =>
    have h' : n / 256 < 256 ^ k := by
      rw [Nat.pow_succ] at h
      exact Nat.div_lt_of_lt_mul (by omega)
    simp only [toBE, fromBE_append, ih _ h', List.foldl_cons, List.foldl_nil]
    omega

def readInt (k : Nat) (bs : Bytes) : Option (Nat × Bytes) :=
  if bs.length < k then none else some (fromBE (bs.take k), bs.drop k)

theorem readInt_write (k n : Nat) (rest : Bytes) (h : n < 256 ^ k) :
    readInt k (toBE k n ++ rest) = some (n, rest) := by
  have hl := toBE_length k n
  simp [readInt, List.take_append_of_le_length, List.drop_append_of_le_length, hl, fromBE_toBE k n h]

-- generic list framing
def writeList {α} (wr : α → Bytes) (xs : List α) : Bytes :=
  toBE 4 xs.length ++ (xs.map wr).flatten

def readN {α} (rd : Bytes → Option (α × Bytes)) : Nat → Bytes → Option (List α × Bytes)
  | 0, bs => some ([], bs)
  | n + 1, bs =>
    match rd bs with
    | none => none
    | some (x, bs') =>
      match readN rd n bs' with
      | none => none
      | some (xs, bs'') => some (x :: xs, bs'')

def readList {α} (rd : Bytes → Option (α × Bytes)) (bs : Bytes) : Option (List α × Bytes) :=
  match readInt 4 bs with
  | none => none
  | some (n, bs') => readN rd n bs'

theorem readN_write {α} (wr : α → Bytes) (rd : Bytes → Option (α × Bytes)) (P : α → Prop)
    (hrt : ∀ x rest, P x → rd (wr x ++ rest) = some (x, rest)) :
    ∀ (xs : List α) (rest : Bytes), (∀ x ∈ xs, P x) →
      readN rd xs.length ((xs.map wr).flatten ++ rest) = some (xs, rest) := by
  intro xs
  induction xs with
  | nil => intro rest _; simp [readN]
  | cons x xs ih =>
    intro rest hP
    simp only [List.map_cons, List.flatten_cons, List.length_cons, List.append_assoc, readN]
    rw [hrt x _ (hP x (by simp))]
    simp only []
    rw [ih rest (fun y hy => hP y (by simp; right; exact hy))]

theorem readList_write {α} (wr : α → Bytes) (rd : Bytes → Option (α × Bytes)) (P : α → Prop)
    (hrt : ∀ x rest, P x → rd (wr x ++ rest) = some (x, rest))
    (xs : List α) (rest : Bytes) (hlen : xs.length < 256 ^ 4) (hP : ∀ x ∈ xs, P x) :
    readList rd (writeList wr xs ++ rest) = some (xs, rest) := by
  simp only [readList, writeList, List.append_assoc]
  rw [readInt_write 4 _ _ hlen]
  exact readN_write wr rd P hrt xs rest hP

#print axioms readList_write
