import itertools, sys
from functools import partial
from src.long_read_profiles import NonOverlappingFeaturesProfileConstructor
from src.common import overlaps, overlaps_at_least_when_overlap
def ivs(U): return [(a,b) for a in range(1,U+1) for b in range(a,U+1)]
def sd_lists(U, maxn, mingap=0):
    all_iv=ivs(U); res=[]
    def rec(cur,start):
        for (a,b) in all_iv:
            if a>=start:
                nxt=cur+[(a,b)]; res.append(nxt)
                if len(nxt)<maxn: rec(nxt,b+1+mingap)
    rec([],1); return res
def spec(K,R,d):
    cmpf=lambda r,k: overlaps(r,k) and overlaps_at_least_when_overlap(r,k,d)
    gp=[]; 
    for k in K:
        if any(cmpf(r,k) for r in R): gp.append(1)
        elif any(R[j-1][1] < k[1] < R[j][0] for j in range(1,len(R))): gp.append(-1)
        else: gp.append(0)
    rp=[]
    for r in R:
        if any(cmpf(r,k) for k in K): rp.append(1)
        elif any(K[i-1][1] < r[1] < K[i][0] for i in range(1,len(K))): rp.append(-1)
        else: rp.append(0)
    return gp,rp
U=int(sys.argv[1]); d=int(sys.argv[2])
Ks=sd_lists(U,3,0); Rs=sd_lists(U,3,1)
bad=0;tot=0
for K in Ks:
    for R in Rs:
        c=NonOverlappingFeaturesProfileConstructor(K,comparator=partial(overlaps_at_least_when_overlap,delta=d),delta=0)
        p=c.construct_profile(R)
        e=spec(K,R,d); tot+=1
        if (p.gene_profile,p.read_profile)!=e:
            bad+=1
            if bad<=6: print("K",K,"R",R,"got",p.gene_profile,p.read_profile,"exp",e)
print("U",U,"d",d,"total",tot,"bad",bad)
