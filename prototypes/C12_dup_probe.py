"""probe: two primary alignment records of ONE read name with the same start and end, both consistent with T0,
in two BAM files; file order swapped"""
import sys, os, shutil, collections
sys.path.insert(0, "/tmp/b-C12ext/verif/harness")
import vlib
from gen import synth
from props import C12

def dataset():
    ds = synth.Dataset(seed=5)
    ds.add_chrom("chr1", 6000)
    ex = [(1000, 1200), (1500, 1700), (2000, 2300)]
    ds.add_gene("chr1", "G0", "+", [("T0", ex)])
    return ds, ex

def run(order):
    root = vlib.scratch_dir("isoverif_dupprobe_")
    try:
        ds, ex = dataset()
        d = os.path.join(root, "data")
        paths = ds.write(d)
        # A: exactly the exons; B: first intron shifted by 3 bp (same start, same end)
        A = dict(name="dup", chr="chr1", start0=999, cigar="201M299N201M299N301M", flag=0, mapq=60, tags=[], seq=None)
        B = dict(name="dup", chr="chr1", start0=999, cigar="204M296N201M299N301M", flag=0, mapq=60, tags=[], seq=None)
        other = dict(name="r2", chr="chr1", start0=999, cigar="201M299N201M299N301M", flag=0, mapq=60, tags=[], seq=None)
        recs = {"A": [A, other], "B": [B]}
        bams = [ds.write(d, bam_name="%s.bam" % k, reads=recs[k], write_ref=False)["bam"] for k in order]
        r = C12.run_one(root, "run", bams, paths["ref"], paths["gtf"], True)
        res = {}
        for k in ("read_assignments.tsv", "transcript_counts.tsv", "corrected_reads.bed"):
            if k in r["files"]:
                res[k] = [l for l in open(r["files"][k]).read().split("\n") if l and not l.startswith("#")]
        return r["rc"], res
    finally:
        shutil.rmtree(root, ignore_errors=True)

ra = run(["A", "B"])
rb = run(["B", "A"])
for k in ra[1]:
    a, b = collections.Counter(ra[1][k]), collections.Counter(rb[1][k])
    print(k, "EQUAL" if a == b else "DIFFERENT")
    if a != b:
        print("  only A,B:", list((a - b).items())[:3])
        print("  only B,A:", list((b - a).items())[:3])
print(ra[0], rb[0])
print("\n".join(ra[1].get("read_assignments.tsv", [])))
