import pysam, random
random.seed(3)
L=90000
seq="".join(random.choice("ACGT") for _ in range(L))
open("ref.fa","w").write(">chrS\n"+"\n".join(seq[i:i+60] for i in range(0,L,60))+"\n")
pysam.faidx("ref.fa")
hdr={"HD":{"VN":"1.6","SO":"coordinate"},"SQ":[{"SN":"chrS","LN":L}]}
reads=[]; n=[0]
def add(st,en,name=None):
    a=pysam.AlignedSegment(); n[0]+=1; a.query_name=name or "r%d"%n[0]; a.reference_id=0; a.reference_start=st; a.mapping_quality=60
    a.cigarstring="%dM"%(en-st); a.query_sequence=seq[st:en]; a.query_qualities=pysam.qualitystring_to_array("I"*(en-st)); a.flag=0
    reads.append(a)
for i in range(300): add(1000+i%7, 1400+i%5)
cur=1200
while cur < 34000: add(cur,cur+2000); cur+=1500
start_thick=cur
while cur < start_thick+40000:
    for k in range(120): add(cur+k%9, cur+2000+k%9)
    cur+=1000
thick_end=max(a.reference_end for a in reads); lb=(thick_end-1)//256
add(thick_end-500,(lb+1)*256+200,"TAILLONG"); add((lb+1)*256+20,(lb+1)*256+120,"SHORT")
reads.sort(key=lambda a:a.reference_start)
with pysam.AlignmentFile("reads.bam","wb",header=hdr) as out:
    for a in reads: out.write(a)
pysam.index("reads.bam"); print(len(reads))
