import os, sys, random, json, collections
sys.path.insert(0, os.path.join(os.path.dirname(os.path.abspath(__file__)), "..", "harness"))
import vlib
from props import C04 as P
from gen import novel as GN
IG, GB, GI, PF, TP = P._impl()

def tight_locus(rng):
    """small coords, short exons/introns with jitter: stress the invariants"""
    delta = rng.choice([0,1,2,3,4,6])
    n = rng.randint(2,5)
    base=[]; p=10
    for _ in range(n):
        ln = rng.randint(1,12)
        base.append((p,p+ln)); p += ln + rng.randint(2,10)
    reads=[]
    for rid in range(rng.randint(2,14)):
        k = rng.randint(1,n); st = rng.randint(0,n-k)
        intr=[(a+rng.randint(-3,3), b+rng.randint(-3,3)) for a,b in base[st:st+k]]
        if any(i[0]>i[1] for i in intr): continue
        if any(intr[i][1]+1 >= intr[i+1][0] for i in range(len(intr)-1)): continue
        ex=[(intr[0][0]-rng.randint(2,8), intr[0][0]-1)]+[(intr[i][1]+1,intr[i+1][0]-1) for i in range(len(intr)-1)]+[(intr[-1][1]+1,intr[-1][1]+rng.randint(2,9))]
        reads.append({"id":"t%d"%rid,"exons":ex,"introns":intr,"mm":rng.random()<0.05,"strand":rng.choice("+-"),"polya":rng.random()<0.5,"polyt":rng.random()<0.3,"group":"g1","mapq":60})
    known=[b for b in base if rng.random()<0.3]
    return {"delta":delta,"isoforms":[],"reads":reads,"known_introns":sorted(known),"strand":"+"}

stats=collections.Counter()
wit={}
rng=random.Random(int(sys.argv[1]) if len(sys.argv)>1 else 1)
N=int(sys.argv[2]) if len(sys.argv)>2 else 3000
for it in range(N):
    r=rng.random()
    locus = tight_locus(rng) if r<0.5 else (GN.tiny_locus(rng) if r<0.75 else GN.make_locus(rng, small=True))
    if not locus["reads"]: continue
    kw=P.graph_case_kw(rng, locus)
    if rng.random()<0.7: kw["_p"]["graph_clustering_distance"]=rng.choice([2,3,5,10])
    try:
        g,gi,reads=P.real_graph_from_kw(kw)
    except Exception as e:
        stats["exc:"+type(e).__name__]+=1; continue
    stats["graphs"]+=1
    def chk(tag, edges):
        for u,v in edges:
            if u[0]<0 or v[0]<0: continue
            stats[tag+":edges"]+=1
            if not (u[1] < v[0]):
                stats[tag+":touch_or_overlap"]+=1; wit.setdefault(tag+":touch_or_overlap",(kw,u,v))
            if not (u[1]+1 < v[0]):
                stats[tag+":noexon"]+=1
            if not (u[0] < v[0]):
                stats[tag+":start_not_incr"]+=1; wit.setdefault(tag+":start_not_incr",(kw,u,v))
            if not (u[1] < v[1]):
                stats[tag+":end_not_incr"]+=1; wit.setdefault(tag+":end_not_incr",(kw,u,v))
            if u==v:
                stats[tag+":selfloop"]+=1; wit.setdefault(tag+":selfloop",(kw,u,v))
    ac=g.after_construct
    chk("construct", [(tuple(a),tuple(b)) for a,b in ac["out"]])
    chk("final_out", [(k,v) for k,s in g.outgoing_edges.items() for v in s])
    chk("final_inc", [(v,k) for k,s in g.incoming_edges.items() for v in s])
    # out/inc mirror?
    o={(k,v) for k,s in g.outgoing_edges.items() for v in s if v[0]>=0}
    i={(v,k) for k,s in g.incoming_edges.items() for v in s if v[0]>=0}
    if o!=i: stats["mirror_broken"]+=1; wit.setdefault("mirror",(kw,sorted(o^i)))
    # terminal vertex attach: polyA pos > intron end?
    for k,s in g.outgoing_edges.items():
        for v in s:
            if v[0]<0:
                stats["term"]+=1
                if v[0] not in (-10,-11): stats["term_wrong_code"]+=1
                if not v[1] > k[1]: stats["term_not_after"]+=1; wit.setdefault("term_not_after",(kw,k,v))
    for k,s in g.incoming_edges.items():
        for v in s:
            if v[0]<0:
                stats["start"]+=1
                if v[0] not in (-20,-21): stats["start_wrong_code"]+=1
                if not v[1] < k[0]: stats["start_not_before"]+=1; wit.setdefault("start_not_before",(kw,k,v))
    # paths
    params=P.graph_params(kw["_p"]); params.requires_polya_for_construction=False
    pp=GB.IntronPathProcessor(params,g); st=GB.IntronPathStorage(params,pp)
    try: st.fill(reads)
    except Exception as e: stats["fill_exc:"+type(e).__name__]+=1; continue
    for p in st.fl_paths:
        stats["fl"]+=1
        ip=p[1:-1]
        bad=any(not(ip[i][1]<ip[i+1][0]) for i in range(len(ip)-1))
        if bad: stats["fl_nonmono"]+=1; wit.setdefault("fl_nonmono",(kw,p))
        if any(not(ip[i][0]<ip[i+1][0]) for i in range(len(ip)-1)): stats["fl_start_not_incr"]+=1; wit.setdefault("fl_start_not_incr",(kw,p))
        # edges of path in graph?
        for i in range(len(ip)-1):
            if ip[i+1] not in g.outgoing_edges.get(ip[i],()): stats["fl_step_not_edge"]+=1; wit.setdefault("fl_step_not_edge",(kw,p,ip[i],ip[i+1]))
        if p[-1] not in g.outgoing_edges.get(ip[-1],()): stats["fl_term_not_edge"]+=1
        if p[0] not in g.incoming_edges.get(ip[0],()): stats["fl_start_not_edge"]+=1
        if not (p[0][1] < ip[0][0]): stats["fl_startpos_not_before"]+=1
        if not (p[-1][1] > ip[-1][1]): stats["fl_endpos_not_after"]+=1
for k in sorted(stats): print(k, stats[k])
for k,v in wit.items():
    kw=v[0]
    print("WIT",k, v[1:], "delta",kw["delta"],"p",kw["_p"], "reads",[ (r["introns"],r["mm"]) for r in kw["reads"]], "known", kw["known"])
