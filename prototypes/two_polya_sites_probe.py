import pysam, random, re
random.seed(4)
L=20000
seq=[random.choice("ACGT") for _ in range(L)]
# exons (1-based closed): E1 1001-1300, E2 2001-2300, E3 3001-3400 (short end) or 3001-3900 (long end)
introns=[(1301,2000),(2301,3000)]
for a,b in introns:
    seq[a-1:a+1]=list("GT"); seq[b-2:b]=list("AG")
# avoid genomic A-runs after ends
seq="".join(seq)
open("ref.fa","w").write(">chrS\n"+"\n".join(seq[i:i+60] for i in range(0,L,60))+"\n")
pysam.faidx("ref.fa")
hdr={"HD":{"VN":"1.6","SO":"coordinate"},"SQ":[{"SN":"chrS","LN":L}]}
reads=[]
def add(name,start0,cigar,flag=0):
    a=pysam.AlignedSegment(); a.query_name=name; a.reference_id=0; a.reference_start=start0; a.mapping_quality=60
    a.cigarstring=cigar; pos=start0; s=""
    for n,op in re.findall(r"(\d+)([MIDNS=X])",cigar):
        n=int(n)
        if op=="M": s+=seq[pos:pos+n]; pos+=n
        elif op in "DN": pos+=n
        elif op=="S": s+="A"*n
    a.query_sequence=s; a.query_qualities=pysam.qualitystring_to_array("I"*len(s)); a.flag=flag
    reads.append(a)
for i in range(6):
    add("short%d"%i, 1000+i, "%dM700N300M700N400M30S"%(300-i))     # ends at 3400
for i in range(6):
    add("long%d"%i, 1000+i, "%dM700N300M700N900M30S"%(300-i))      # ends at 3900
reads.sort(key=lambda a:a.reference_start)
with pysam.AlignmentFile("reads.bam","wb",header=hdr) as out:
    for a in reads: out.write(a)
pysam.index("reads.bam")
