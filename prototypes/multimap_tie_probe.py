import pysam, random, re
random.seed(2)
L=30000
seq="".join(random.choice("ACGT") for _ in range(L))
open("ref.fa","w").write(">chrS\n"+"\n".join(seq[i:i+60] for i in range(0,L,60))+"\n")
pysam.faidx("ref.fa")
gtf=[]
def g(feat,s,e,attrs): gtf.append("chrS\tsyn\t%s\t%d\t%d\t.\t+\t.\t%s"%(feat,s,e,attrs))
def gene(gid,tid,exons):
    g("gene",exons[0][0],exons[-1][1],'gene_id "%s";'%gid)
    g("transcript",exons[0][0],exons[-1][1],'gene_id "%s"; transcript_id "%s";'%(gid,tid))
    for s,e in exons: g("exon",s,e,'gene_id "%s"; transcript_id "%s";'%(gid,tid))
gene("G1","T1",[(1001,1300),(2001,2300),(3001,3300)])
gene("G2","T2",[(10001,10300),(11001,11300),(12001,12300)])
gene("G3","T3",[(20001,20300),(21001,21300),(22001,22300)])
open("ann.gtf","w").write("\n".join(gtf)+"\n")
hdr={"HD":{"VN":"1.6","SO":"coordinate"},"SQ":[{"SN":"chrS","LN":L}]}
reads=[]
def add(name,start0,cigar,flag=0,mapq=60):
    a=pysam.AlignedSegment(); a.query_name=name; a.reference_id=0; a.reference_start=start0; a.mapping_quality=mapq
    a.cigarstring=cigar; pos=start0; s=""
    for n,op in re.findall(r"(\d+)([MIDNS=X])",cigar):
        n=int(n)
        if op=="M": s+=seq[pos:pos+n]; pos+=n
        elif op in "DN": pos+=n
        elif op in "IS": s+="C"*n
    a.query_sequence=s; a.query_qualities=pysam.qualitystring_to_array("I"*len(s)); a.flag=flag
    reads.append(a)
# primary: inconsistent with T1 (skips exon 2 -> exon skipping)
add("mm", 1050, "250M1700N250M", flag=0)
# secondaries: exact matches of T2 and T3 chains
add("mm", 10050, "250M700N300M700N250M", flag=256)
add("mm", 20050, "250M700N300M700N250M", flag=256)
# a normal unique read for each gene
add("u1", 1050, "250M700N300M700N250M")
add("u2", 10050, "250M700N300M700N250M")
reads.sort(key=lambda a:a.reference_start)
with pysam.AlignmentFile("reads.bam","wb",header=hdr) as out:
    for a in reads: out.write(a)
pysam.index("reads.bam")
