#!/bin/bash
k=$1
cd /tmp/crash
export HOME=/tmp/crash/home_$k; mkdir -p $HOME
echo 0 > cnt_$k
CNT_FILE=/tmp/crash/cnt_$k CRASH_AT=$k setsid /venv/bin/python wrap.py --output /tmp/crash/out_$k --threads 2 --bam data/chr9.4M.ont.sim.polya.bam --reference data/chr9.4M.fa.gz --genedb data/chr9.4M.gtf.gz --complete_genedb --data_type nanopore -p T --no_gzip > crash_$k.log 2>&1
rc1=$?
/venv/bin/python /repo/isoquant.py --resume --output /tmp/crash/out_$k > resume_$k.log 2>&1
rc2=$?
verdict=EQUAL
if [ $rc2 -ne 0 ]; then verdict="FAIL(rc=$rc2)"; else
for f in $(cd out_clean/T && ls -p | grep -v /); do
  if [ ! -f out_$k/T/$f ]; then verdict="DIFF(missing $f)"; break; fi
  if ! diff -q <(grep -v "^# Command line\|^# T IsoQuant" out_clean/T/$f) <(grep -v "^# Command line\|^# T IsoQuant" out_$k/T/$f) >/dev/null; then verdict="DIFF($f)"; break; fi
done
extra=$(comm -13 <(cd out_clean/T && ls -p | grep -v / | sort) <(cd out_$k/T && ls -p | grep -v / | sort) | tr '\n' ' ')
[ -n "$extra" ] && verdict="$verdict EXTRA($extra)"
fi
echo "$k crash_rc=$rc1 $verdict"
