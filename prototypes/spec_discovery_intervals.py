import itertools, sys
from src.common import *
from src.gene_info import GeneInfo
def ivs(U): return [(a,b) for a in range(1,U+1) for b in range(a,U+1)]
def sd_lists(U, maxn, mingap=0):
    all_iv=ivs(U); res=[[]]
    def rec(cur,start):
        for (a,b) in all_iv:
            if a>=start:
                nxt=cur+[(a,b)]; res.append(nxt)
                if len(nxt)<maxn: rec(nxt,b+1+mingap)
    rec([],1); return res
def pos(l): return set(p for a,b in l for p in range(a,b+1))
U=7
L0=sd_lists(U,3,0)   # disjoint, may touch
L=[l for l in L0 if l]
# jaccard, coverage, merge
bad={"jac":0,"cov":0,"merge_cov":0,"merge_sorted":0,"extra":0}
ex={}
for l1 in L:
    for l2 in L:
        p1,p2=pos(l1),pos(l2)
        try:
            j=jaccard_similarity(l1,l2)
            if abs(j-len(p1&p2)/len(p1|p2))>1e-12:
                bad["jac"]+=1; ex.setdefault("jac",(l1,l2,j,len(p1&p2)/len(p1|p2)))
        except AssertionError as e:
            bad["jac"]+=1; ex.setdefault("jac_assert",(l1,l2))
        c=read_coverage_fraction(l1,l2)
        if abs(c-len(p1&p2)/len(p1))>1e-12: bad["cov"]+=1; ex.setdefault("cov",(l1,l2,c))
        try:
            m=merge_ranges(l1,l2)
            if pos(m)!=p1|p2: bad["merge_cov"]+=1; ex.setdefault("merge_cov",(l1,l2,m))
            if m!=sorted(m) or any(m[i][1]>=m[i+1][0] for i in range(len(m)-1)): bad["merge_sorted"]+=1; ex.setdefault("merge_sorted",(l1,l2,m))
        except AssertionError:
            bad["merge_cov"]+=1; ex.setdefault("merge_assert",(l1,l2))
print("pairs",len(L)**2,bad); 
for k,v in ex.items(): print(" ",k,v)
# sum to/from point, truncate, bin search
b2={"to":0,"from":0,"bs":0,"bsr":0,"trunc":0}; ex2={}
for l in L:
    p=pos(l)
    for x in range(0,U+2):
        if sum_intervals_to_point(l,x)!=len([q for q in p if q<x]): b2["to"]+=1; ex2.setdefault("to",(l,x,sum_intervals_to_point(l,x)))
        if sum_intervals_from_point(l,x)!=len([q for q in p if q>x]): b2["from"]+=1; ex2.setdefault("from",(l,x,sum_intervals_from_point(l,x)))
        try:
            r=interval_bin_search(l,x)
            exp=-1 if (x>l[-1][1] or x<l[0][0]) else max(i for i in range(len(l)) if l[i][0]<=x)
            if r!=exp: b2["bs"]+=1; ex2.setdefault("bs",(l,x,r,exp))
            r=interval_bin_search_rev(l,x)
            exp=-1 if (x>l[-1][1] or x<l[0][0]) else min(i for i in range(len(l)) if l[i][1]>=x)
            if r!=exp: b2["bsr"]+=1; ex2.setdefault("bsr",(l,x,r,exp))
        except Exception as e:
            b2["bs"]+=1; ex2.setdefault("bs_exc",(l,x,repr(e)))
print(b2)
for k,v in ex2.items(): print(" ",k,v)
# split_exons on arbitrary (overlapping) exon sets
b3=0; ex3=None; n=0
for k in range(1,4):
    for c in itertools.combinations(ivs(6),k):
        exons=sorted(c); n+=1
        blocks=GeneInfo.split_exons(exons)
        ok = pos(blocks)==pos(exons) and blocks==sorted(blocks) and all(blocks[i][1]<blocks[i+1][0] for i in range(len(blocks)-1)) \
             and all((pos([b])<=pos([e])) or not (pos([b])&pos([e])) for b in blocks for e in exons)
        # maximality: adjacent blocks must differ in membership
        if ok:
            memb=lambda b: frozenset(i for i,e in enumerate(exons) if pos([b])<=pos([e]))
            for i in range(len(blocks)-1):
                if blocks[i][1]+1==blocks[i+1][0] and memb(blocks[i])==memb(blocks[i+1]): ok=False
        if not ok:
            b3+=1; ex3=ex3 or (exons,blocks)
print("split_exons sets",n,"bad",b3,ex3)
