import itertools
from src.common import get_read_blocks
M,I,D,N,S,H,P,EQ,X = 0,1,2,3,4,5,6,7,8
REF={M,EQ,X,D,N}; ALN={M,EQ,X}
def spec(s, ops):
    exons=[]; off=0; seg=[]; segoff=0
    def flush():
        if any(k in ALN for k,_ in seg):
            rl=sum(l for k,l in seg if k in REF)
            # reference consumed inside the segment before the first M/I/D op (H, P consume none)
            exons.append((s+1+segoff, s+segoff+rl))
    for k,l in ops:
        if k in (N,S):
            flush(); seg=[]
            if k==N: off+=l
            segoff=off
        else:
            if not seg: segoff=off
            seg.append((k,l))
            if k in REF: off+=l
    flush()
    return exons
kinds=[M,I,D,N,S,H,EQ]
bad=0; tot=0; ex=None
for n in range(1,6):
    for ks in itertools.product(kinds, repeat=n):
        for ls in itertools.product((1,2), repeat=n):
            ops=list(zip(ks,ls)); tot+=1
            got=get_read_blocks(10, ops)[0]
            exp=spec(10, ops)
            if got!=exp:
                bad+=1; ex=ex or (ops,got,exp)
print("cigars",tot,"bad",bad,ex)
