import itertools, copy
from src.multimap_resolver import MultimapResolver, MultimapResolvingStrategy
from src.isoform_assignment import ReadAssignmentType as T, BasicReadAssignment
def mk(i, chr, st, typ, mm, iso, pen=0.0, region=None):
    a=BasicReadAssignment.__new__(BasicReadAssignment)
    a.assignment_id=i; a.read_id="r"; a.chr_id=chr; a.start=st; a.end=st+40; a.genomic_region=region or (st-5,st+60)
    a.multimapper=mm; a.polyA_found=False; a.assignment_type=typ; a.gene_assignment_type=typ; a.penalty_score=pen
    a.isoforms=list(iso); a.genes=["g"+x for x in iso]; return a
types=[T.unique,T.unique_minor_difference,T.ambiguous,T.inconsistent,T.inconsistent_non_intronic,T.inconsistent_ambiguous,T.noninformative,T.intergenic]
# candidate records: (chr,start) from small set, type, multimapper flag, isoforms
cands=[]
for (chr,st) in [("c1",10),("c2",10),("c1",100)]:
    for typ in types:
        for mm in (False,True):
            isos = [[]] if typ in (T.noninformative,T.intergenic) else ([["A"],["B"]] if typ not in (T.ambiguous,T.inconsistent_ambiguous) else [["A","B"]])
            for iso in isos:
                cands.append((chr,st,typ,mm,tuple(iso)))
print("candidates",len(cands))
res=MultimapResolver(MultimapResolvingStrategy.take_best)
def run(recs):
    objs=[mk(i,*r[:2],r[2],r[3],r[4]) for i,r in enumerate(recs)]
    out=res.resolve(objs)
    # canonical: multiset of (record key, final type, final gene type, mm) for non-suspended; key excludes id
    kept=sorted(set((o.chr_id,o.start) for o in out if o.assignment_type!=T.suspended))
    return kept
import random
random.seed(7)
dep=0; tot=0; classes={}
for n in (2,3):
    combos=list(itertools.combinations_with_replacement(range(len(cands)),n))
    random.shuffle(combos)
    for combo in combos[:60000]:
        recs=[cands[i] for i in combo]
        outs=set()
        for perm in set(itertools.permutations(recs)):
            outs.add(tuple(run(list(perm))))
        tot+=1
        if len(outs)>1:
            dep+=1
            key=tuple(sorted(set(r[2].name for r in recs)))
            classes.setdefault(key,recs)
print("multisets",tot,"order-dependent",dep)
for k,v in list(classes.items())[:12]: print(k, [(r[0],r[1],r[2].name,r[3],r[4]) for r in v])
