# throwaway crash-injection wrapper: counts FS mutations (open for write/append, gzip.open write, os.remove)
import builtins, gzip, os, sys, runpy, io
K = int(os.environ.get("CRASH_AT", "-1"))
LOG = os.environ.get("MUT_LOG")
root_pid = os.getpid()
cnt_file = os.environ["CNT_FILE"]
def bump(kind, path):
    # global counter shared across processes via file with lock
    import fcntl
    with builtins_open(cnt_file, "r+") as f:
        fcntl.flock(f, fcntl.LOCK_EX)
        n = int(f.read() or "0") + 1
        f.seek(0); f.truncate(); f.write(str(n)); f.flush()
        if LOG:
            with builtins_open(LOG, "a") as lg: lg.write("%d\t%s\t%s\n" % (n, kind, path))
        if n == K:
            os.killpg(os.getpgid(0), 9)
builtins_open = builtins.open
def my_open(file, mode="r", *a, **kw):
    if isinstance(file, (str, bytes, os.PathLike)) and any(c in mode for c in "wa+x") and "/out" in str(file):
        bump("open:" + mode, str(file))
    return builtins_open(file, mode, *a, **kw)
builtins.open = my_open
io.open = my_open
gz_open = gzip.open
def my_gz(file, mode="rb", *a, **kw):
    if any(c in mode for c in "wa") and "/out" in str(file): bump("gzip:" + mode, str(file))
    return gz_open(file, mode, *a, **kw)
gzip.open = my_gz
os_remove = os.remove
def my_rm(p, *a, **kw):
    if "/out" in str(p): bump("remove", str(p))
    return os_remove(p, *a, **kw)
os.remove = my_rm
sys.argv = ["/repo/isoquant.py"] + sys.argv[1:]
sys.path.insert(0, "/repo")
runpy.run_path("/repo/isoquant.py", run_name="__main__")
