import pysam, random
random.seed(1)
L=60000
seq="".join(random.choice("ACGT") for _ in range(L))
open("ref.fa","w").write(">chrS\n"+"\n".join(seq[i:i+60] for i in range(0,L,60))+"\n")
pysam.faidx("ref.fa")
# annotation: one gene with 2 isoforms
gtf=[]
def g(feat,s,e,attrs): gtf.append("chrS\tsyn\t%s\t%d\t%d\t.\t+\t.\t%s"%(feat,s,e,attrs))
g("gene",1000,41000,'gene_id "G1";')
g("transcript",1000,41000,'gene_id "G1"; transcript_id "T1";')
for s,e in [(1000,1500),(2000,2600),(39000,41000)]: g("exon",s,e,'gene_id "G1"; transcript_id "T1";')
open("ann.gtf","w").write("\n".join(gtf)+"\n")
hdr={"HD":{"VN":"1.6","SO":"coordinate"},"SQ":[{"SN":"chrS","LN":L}]}
reads=[]
def add(name,start0,cigar):
    a=pysam.AlignedSegment(); a.query_name=name; a.reference_id=0; a.reference_start=start0; a.mapping_quality=60
    a.cigarstring=cigar; qlen=sum(int(x) for x in __import__("re").findall(r"(\d+)[MIS=X]",cigar))
    # read sequence = reference along M blocks
    import re
    pos=start0; s=""
    for n,op in re.findall(r"(\d+)([MIDNS=X])",cigar):
        n=int(n)
        if op=="M": s+=seq[pos:pos+n]; pos+=n
        elif op in "DN": pos+=n
        elif op in "IS": s+="A"*n
    a.query_sequence=s; a.query_qualities=pysam.qualitystring_to_array("I"*len(s)); a.flag=0
    reads.append(a)
for i in range(1100):
    add("pile%d"%i, 1000+i%5, "400M")
add("bridge", 1100, "400M500N500M36400N1000M")   # 1100..1500, 2000..2500, 38900..39900
for i in range(30):
    add("late%d"%i, 39000+i, "900M")
add("tailA", 39900, "200M")     # ends 40100
add("tailB", 40050, "40M")      # short read in last bin
reads.sort(key=lambda a:a.reference_start)
with pysam.AlignmentFile("reads.bam","wb",header=hdr) as out:
    for a in reads: out.write(a)
pysam.index("reads.bam")
print(len(reads))
