#!/venv/bin/python
"""Confirm a seeded change and file it under /verif/seeded/<id>/.

usage: seedtool.py <src_dir> <seed_id> <property> [--checks C01,C02]  [--tier quick]

<src_dir> holds patch.diff, demo.py|demo.sh, meta.json as written by an independent sub-agent.
Steps (all in a scratch worktree of /repo outside /repo and /verif, removed afterwards):
  1. demo on clean HEAD must exit 0;  2. apply patch; demo must exit non-zero;
  3. pinned suite with the patch: exactly the baseline failures;
then the registered check(s) are run against /repo with the patch applied (git apply ... ; git checkout -- .).
"""
import json
import os
import shutil
import subprocess
import sys
import tempfile

VERIF = os.path.dirname(os.path.dirname(os.path.abspath(__file__)))
PY = "/venv/bin/python"


def sh(cmd, **kw):
    return subprocess.run(cmd, capture_output=True, text=True, **kw)


def main():
    src, sid, prop = sys.argv[1:4]
    checks = [prop]
    tier = "quick"
    verif = VERIF
    via_wt = False
    for i, a in enumerate(sys.argv):
        if a == "--checks":
            checks = sys.argv[i + 1].split(",")
        if a == "--tier":
            tier = sys.argv[i + 1]
        if a == "--verif":          # run the checks of another framework copy (a builder's working copy)
            verif = sys.argv[i + 1]
        if a == "--via-worktree":   # run the checks with VERIF_REPO=<patched scratch worktree> instead of patching /repo
            via_wt = True
    patch = os.path.join(src, "patch.diff")
    demo = os.path.join(src, "demo.py") if os.path.exists(os.path.join(src, "demo.py")) else os.path.join(src, "demo.sh")
    runner = [PY] if demo.endswith(".py") else ["bash"]
    wt = tempfile.mkdtemp(prefix="seedconfirm_")
    os.rmdir(wt)
    res = {"ran": []}
    try:
        assert sh(["git", "-C", "/repo", "worktree", "add", "--detach", wt, "HEAD"]).returncode == 0
        r = sh(runner + [demo, wt], timeout=3000)
        res["demo_clean_rc"] = r.returncode
        res["ran"].append("demo on clean worktree of /repo HEAD: rc=%d" % r.returncode)
        a = sh(["git", "-C", wt, "apply", patch])
        res["patch_applies"] = a.returncode == 0
        if a.returncode != 0:
            res["apply_error"] = a.stderr[-500:]
        else:
            r = sh(runner + [demo, wt], timeout=3000)
            res["demo_patched_rc"] = r.returncode
            res["demo_patched_tail"] = (r.stdout + r.stderr)[-600:]
            res["ran"].append("demo with patch: rc=%d" % r.returncode)
            t = sh([PY, "-m", "pytest", "-q", "-p", "no:cacheprovider", "--timeout=900"], cwd=wt, timeout=3000)
            tail = t.stdout.strip().split("\n")[-1]
            res["pytest_tail"] = tail
            res["ran"].append("pinned suite with patch: %s" % tail)
            if via_wt and res.get("demo_clean_rc") == 0 and res.get("demo_patched_rc", 0) != 0 and "386 passed" in tail:
                res["detected_by"] = {}
                for c in checks:
                    r = sh([PY, os.path.join(verif, "harness", "vcheck.py"), "--property", c, "--tier", tier], cwd=verif,
                           timeout=6000, env=dict(os.environ, VERIF_REPO=wt))
                    lines = [l for l in r.stdout.split("\n") if l.startswith("VIOLATION") or l.startswith("first failing")]
                    res["detected_by"][c] = {"rc": r.returncode, "lines": [l[:400] for l in lines]}
                    res["ran"].append("vcheck %s --tier %s with VERIF_REPO=<scratch worktree with the patch>: rc=%d" % (c, tier, r.returncode))
    finally:
        sh(["git", "-C", "/repo", "worktree", "remove", "--force", wt])
        shutil.rmtree(wt, ignore_errors=True)
    confirmed = res.get("demo_clean_rc") == 0 and res.get("patch_applies") and res.get("demo_patched_rc", 0) != 0 \
        and "386 passed" in res.get("pytest_tail", "")
    res["confirmed"] = bool(confirmed)
    det = res.get("detected_by", {})
    if confirmed and not via_wt:
        st = sh(["git", "-C", "/repo", "status", "--porcelain"]).stdout.strip()
        if st:
            print("refusing: /repo has uncommitted changes:\n" + st)
            sys.exit(2)
        try:
            assert sh(["git", "-C", "/repo", "apply", patch]).returncode == 0
            for c in checks:
                r = sh([PY, os.path.join(VERIF, "harness", "vcheck.py"), "--property", c, "--tier", tier], cwd=VERIF, timeout=6000)
                lines = [l for l in r.stdout.split("\n") if l.startswith("VIOLATION") or l.startswith("first failing")]
                det[c] = {"rc": r.returncode, "lines": [l[:400] for l in lines]}
                res["ran"].append("vcheck %s --tier %s with patch applied to /repo: rc=%d" % (c, tier, r.returncode))
        finally:
            sh(["git", "-C", "/repo", "checkout", "--", "."])
    res["detected_by"] = det
    try:
        meta = json.load(open(os.path.join(src, "meta.json")))
    except Exception:
        meta = {}
    out = os.path.join(VERIF, "seeded", sid)
    if confirmed:
        os.makedirs(out, exist_ok=True)
        shutil.copy(patch, os.path.join(out, "patch.diff"))
        shutil.copy(demo, os.path.join(out, os.path.basename(demo)))
        m = {"id": sid, "breaks_property": prop, "summary": meta.get("summary"), "needs_to_manifest": meta.get("needs"),
             "files_touched": meta.get("files_touched"), "source": "independent sub-agent given only the property text and a scratch worktree",
             "what_i_ran": res["ran"], "demo_clean_rc": res.get("demo_clean_rc"), "demo_patched_rc": res.get("demo_patched_rc"),
             "pytest_with_patch": res.get("pytest_tail"), "detected_by": det}
        with open(os.path.join(out, "meta.json"), "w") as f:
            json.dump(m, f, indent=1)
    print(json.dumps(res, indent=1))


if __name__ == "__main__":
    main()
