#!/bin/bash
# merge_copy.sh <tag> : merge the work of builder copy /tmp/b-<tag>/verif (a clone-like copy of /verif with its own .git) into /verif by a real git merge
set -e
T=$1
C=/tmp/b-$T/verif
cd $C
git checkout -q -- evidence 2>/dev/null || true
git checkout -q -- MANIFEST.json 2>/dev/null || true
git add -A -- . ":!seeded"
git -c user.name=builder -c user.email=builder@example.invalid commit -qm "builder $T" || true
cd /verif
git pull --no-edit --no-rebase $C main 2>&1 | tail -15
