#!/bin/bash
# run_all.sh <tier> [parallelism] : every registered check once (used for background health runs from a snapshot)
TIER=${1:-quick}; PAR=${2:-3}
cd "$(dirname "$0")/.." || exit 2
(cd lean && /venv/bin/python ../harness/translate.py && lake build IsoVerif isodriver) > run_all_build.log 2>&1 || { echo "build failed"; tail -20 run_all_build.log; exit 2; }
for i in 01 02 03 04 05 06 07 08 09 10 11 12 13 14 15 16 17 18 19 20; do echo C$i; done | \
  xargs -P "$PAR" -I{} sh -c "/usr/bin/time -f '{} %e s' /venv/bin/python harness/vcheck.py --property {} --tier $TIER > run_all_{}.log 2>&1; echo \"{} exit=\$?\"; tail -3 run_all_{}.log | cut -c1-300"
