#!/bin/bash
# merge_builder.sh Cxx : copy the new files of a builder copy (/tmp/b-Cxx/verif) into /verif and list shared files that differ
P=$1
SRC=/tmp/b-$P/verif
cd /verif
echo "== new files copied"
rsync -a --ignore-existing --exclude .lake --exclude .git --exclude __pycache__ --exclude replays --exclude evidence --exclude 'lean/IsoVerif/Gen' --out-format='%n' $SRC/ /verif/ | grep -v '/$'
echo "== existing files that differ (merge by hand)"
diff -rq --exclude .lake --exclude .git --exclude __pycache__ --exclude replays --exclude evidence --exclude Gen $SRC /verif 2>/dev/null | grep -v "^Only in /verif" | grep -v "Only in $SRC/lean/.lake"
