#!/venv/bin/python
"""Entry point of every registered check:  vcheck.py --property Cxx --tier quick|thorough [--replay file]

Steps (DESIGN.md §3, §8):
  1. translate      regenerate lean/IsoVerif/Gen/*.lean from the current /repo
  2. lake build     the property's theorem modules + the line-protocol driver (flock-serialised)
  3. hygiene+audit  no sorry/axiom/native_decide...; `#print axioms` of every property theorem
  4. correspondence model (driver) vs real implementation on generated inputs
  5. oracle         the property itself evaluated on the real code (failing-input search)
  6. evidence, verdict

exit 0: property held on everything explored (KNOWN-FINDING lines for listed findings)
exit 1: `VIOLATION property=<id> replay=<path>` (concrete failing input on the real code) or
        `VIOLATION property=<id> replay=<path> no-failing-input-found` (proof / tie broken, search found nothing)
exit 2: infrastructure failure (time-out, toolchain missing)
"""
import argparse
import importlib
import json
import os
import sys
import time
import traceback

sys.path.insert(0, os.path.dirname(os.path.abspath(__file__)))
import warnings
warnings.filterwarnings("ignore", category=SyntaxWarning)
import vlib  # noqa: E402


class StageTimeout(BaseException):
    """raised by the watchdog inside a stage (BaseException: a blanket `except Exception` of a harness module or of the
    real code must not swallow it)"""


def _stage_limit(tier):
    # generous: the slowest quick stage takes ~3 min on a loaded machine, the slowest thorough stage ~25 min
    env = os.environ.get("VERIF_STAGE_LIMIT_S")
    if env:
        return int(env)
    return 1200 if tier == "quick" else 7200


class _Watchdog:
    """SIGUSR1 from a timer thread (SIGALRM / ITIMER_REAL belong to the inner time-outs of props/C04.py and props/C05.py)"""

    def __init__(self, seconds, stage):
        self.seconds, self.stage = seconds, stage

    def _fire(self, signum, frame):
        raise StageTimeout("stage %s exceeded %d s (runaway loop in the code under test or in the harness)" % (self.stage, self.seconds))

    def __enter__(self):
        import signal
        import threading
        self.prev = signal.signal(signal.SIGUSR1, self._fire)
        main_id = threading.main_thread().ident
        self.timer = threading.Timer(self.seconds, lambda: signal.pthread_kill(main_id, signal.SIGUSR1))
        self.timer.daemon = True
        self.timer.start()

    def __exit__(self, *a):
        import signal
        self.timer.cancel()
        signal.signal(signal.SIGUSR1, self.prev)
        return False


def main():
    ap = argparse.ArgumentParser()
    ap.add_argument("--property", required=True)
    ap.add_argument("--tier", default=os.environ.get("VERIF_TIER", "quick"), choices=["quick", "thorough"])
    ap.add_argument("--replay")
    ap.add_argument("--no-build", action="store_true", help="skip translate+build (development only)")
    args = ap.parse_args()
    prop = args.property
    seed = int(os.environ.get("VERIF_SEED", "20260926"))
    os.environ[vlib.GUARD] = "1"
    vlib.repo_on_path()
    t0 = time.time()
    mod = importlib.import_module("props." + prop)
    ctx = vlib.Ctx(prop, args.tier, seed)

    if args.replay:
        with open(args.replay) as f:
            payload = json.load(f)
        still = 0
        for fl in payload.get("failures", []):
            r = mod.replay(ctx, fl)
            print("replay %s: %s" % (fl.get("kind"), "STILL FAILS" if r else "passes"))
            still += 1 if r else 0
        if not payload.get("failures"):
            print("replay file names broken obligations only: %s" % payload.get("broken"))
        sys.exit(1 if still else 0)

    broken = []          # names of theorems / correspondence ops that no longer check
    build_log_tail = ""
    # 1. translate
    rep = {"ok": True, "errors": {}, "changed": []}
    if not args.no_build:
        rep = vlib.run_translate()
        for g, e in rep.get("errors", {}).items():
            if g in getattr(mod, "GEN_DEPS", []) or g == "translator":
                broken.append("translator:%s: %s" % (g, e))
    # 2. build
    driver_ok = True
    th_failed = []
    if not args.no_build:
        ok, log = vlib.lake_build(mod.TARGETS)
        if ok is None:
            print("INFRA: " + log)
            sys.exit(2)
        if not ok:
            build_log_tail = log[-3000:]
            th_failed = vlib.failed_theorems(log, mod.PROPS)
            if not th_failed:
                th_failed = ["build:" + ",".join(mod.TARGETS)]
            broken += ["theorem:" + t for t in th_failed]
        okd, logd = vlib.lake_build(["isodriver"])
        if okd is None:
            print("INFRA: " + logd)
            sys.exit(2)
        if not okd:
            driver_ok = False
            broken.append("driver-build")
            build_log_tail += logd[-2000:]
    ctx.driver = vlib.Driver()
    if not ctx.driver.available():
        driver_ok = False
        if "driver-build" not in broken:
            broken.append("driver-missing")
    # 3. hygiene + audit
    hyg = vlib.hygiene()
    for h in hyg:
        broken.append("hygiene:" + h)
    aud = vlib.audit(mod.PROPS)
    obligations = len(aud)
    discharged = sum(1 for v in aud.values() if v["ok"])
    for n, v in aud.items():
        if not v["ok"] and ("theorem:" + n) not in broken:
            broken.append("theorem:%s (axioms=%s)" % (n, v["axioms"]))
    # 3b. thorough: independent re-check of the compiled theorem modules
    leanchecker = None
    if args.tier == "thorough" and not th_failed:
        import subprocess
        try:
            r = subprocess.run(["lake", "env", "leanchecker"] + list(mod.TARGETS), cwd=vlib.LEAN, capture_output=True,
                               text=True, timeout=3000)
            leanchecker = {"rc": r.returncode, "tail": (r.stdout + r.stderr)[-500:]}
            if r.returncode != 0:
                broken.append("leanchecker")
        except subprocess.TimeoutExpired:
            leanchecker = {"rc": None, "tail": "timeout"}
    # 3c. translator self-check: generated tables vs the live Python objects (only the tables this property uses)
    gen_selfcheck = {}
    if driver_ok:
        try:
            import gencheck
            gen_selfcheck = gencheck.run(ctx.driver)
            for table, msgs in gen_selfcheck.items():
                if table in getattr(mod, "GEN_DEPS", []):
                    broken.append("translator-selfcheck:%s: %s" % (table, msgs[0]))
        except Exception:
            gen_selfcheck = {"error": [traceback.format_exc()[-800:]]}
    # 4. correspondence (under a watchdog: a change that makes the REAL code loop without end - e.g. a reader that takes a
    #    garbage length for a list - must end as a broken obligation with the oracle still run, not as a hung check)
    corr_error = None
    if driver_ok:
        try:
            with _Watchdog(_stage_limit(args.tier), "correspondence"):
                mod.correspondence(ctx)
        except StageTimeout as ex:
            corr_error = "%s\n%s" % (ex, traceback.format_exc()[-2500:])
            broken.append("correspondence-timeout")
        except Exception:
            corr_error = traceback.format_exc()[-3000:]
            broken.append("correspondence-crashed")
    for d in ctx.disagreements[:50]:
        tag = "correspondence:%s" % d["op"]
        if tag not in broken:
            broken.append(tag)
    # 5. oracle (failing-input search on the real code); seeded with the disagreeing inputs
    oracle_error = None
    try:
        with _Watchdog(_stage_limit(args.tier), "oracle"):
            mod.oracle(ctx, ctx.disagreements, broken)
    except StageTimeout as ex:
        oracle_error = "%s\n%s" % (ex, traceback.format_exc()[-2500:])
        broken.append("oracle-timeout")
    except Exception:
        oracle_error = traceback.format_exc()[-3000:]
        broken.append("oracle-crashed")
    # classify failures against the committed known findings
    kf = vlib.load_known_findings()
    listed = [e for e in kf.get("findings", []) if e.get("property") == prop]
    unlisted = []
    seen_listed = {}
    for fl in ctx.failures:
        hit = None
        for e in listed:
            if mod.matches_finding(fl, e) if hasattr(mod, "matches_finding") else (fl["kind"] == e.get("kind")):
                hit = e
                break
        if hit is None:
            unlisted.append(fl)
        else:
            seen_listed.setdefault(hit["id"], fl)
    wall = time.time() - t0
    violations = len(unlisted) + (1 if (broken and not unlisted) else 0)
    doc = {
        "property_id": prop, "tier": args.tier, "seed": seed, "level": getattr(mod, "LEVEL", "proof"),
        "wall_s": round(wall, 2), "violations": violations,
        "coverage": {
            "obligations": obligations, "discharged": discharged,
            "checker_cmd": "cd /verif/lean && lake build %s && lake env lean <Audit: #print axioms of every theorem in %s>"
                           % (" ".join(mod.TARGETS), ", ".join(mod.PROPS)),
            "trusted_base": ["Lean 4.33.0 kernel", "axioms ⊆ {propext, Classical.choice, Quot.sound} (audited per theorem)",
                             "harness/translate.py", "correspondence harness + generators (harness/props/%s.py)" % prop]
                            + list(getattr(mod, "TRUSTED", [])),
            "theorems": {n: v["axioms"] for n, v in aud.items()},
            "partial_or_witness_theorems": sorted(n for n in aud if n.endswith("_partial") or n.endswith("_witness")),
            "evaluations": ctx.evaluations, "distinct_nontrivial": len(ctx.nontrivial),
            "rule": getattr(mod, "RULE", ""),
            "samples": ctx.samples or [{"note": "no correspondence cases ran"}],
            "traces_validated_against_impl": ctx.traces_validated,
            "input_distribution": dict(sorted(ctx.hist.items())),
            "disagreements": ctx.disagreements[:20],
            "oracle_failures": ctx.failures[:20],
            "known_findings_observed": sorted(seen_listed),
            "broken": broken, "translator": {"ok": rep.get("ok"), "errors": rep.get("errors"), "changed": rep.get("changed")},
            "leanchecker": leanchecker, "translator_selfcheck_mismatches": gen_selfcheck,
            "notes": ctx.notes, **ctx.extra,
        },
        "assumptions": list(getattr(mod, "ASSUMPTIONS", [])),
    }
    if corr_error:
        doc["coverage"]["correspondence_error"] = corr_error
    if oracle_error:
        doc["coverage"]["oracle_error"] = oracle_error
    vlib.write_evidence(prop, doc)
    for e in listed:
        print("KNOWN-FINDING: property=%s %s [%s]%s" % (prop, e.get("what", ""), e["id"],
                                                         "" if e["id"] in seen_listed or e.get("not_replayed_each_run") else " (not re-observed in this run)"))
    print("%s tier=%s seed=%d obligations=%d discharged=%d evaluations=%d nontrivial=%d disagreements=%d failures=%d (unlisted %d) wall=%.1fs"
          % (prop, args.tier, seed, obligations, discharged, ctx.evaluations, len(ctx.nontrivial),
             len(ctx.disagreements), len(ctx.failures), len(unlisted), wall))
    if unlisted:
        path = vlib.write_replay(prop, seed, {"property": prop, "failures": unlisted[:10], "broken": broken,
                                              "replay_cmd": "%s %s --property %s --replay <this file>" % (vlib.PY, os.path.abspath(__file__), prop)})
        print("first failing input: %s" % json.dumps(unlisted[0], default=str)[:1500])
        print("VIOLATION property=%s replay=%s" % (prop, path))
        sys.exit(1)
    if broken:
        path = vlib.write_replay(prop, seed, {"property": prop, "failures": [], "broken": broken,
                                              "build_log_tail": build_log_tail, "disagreements": ctx.disagreements[:20],
                                              "correspondence_error": corr_error, "oracle_error": oracle_error})
        print("broken obligations: %s" % broken[:10])
        print("VIOLATION property=%s replay=%s no-failing-input-found" % (prop, path))
        sys.exit(1)
    sys.exit(0)


if __name__ == "__main__":
    main()
