"""Seeded generators for the text level of property C03 (harness/props/C03text.py): transcript models with sources and
additional attributes, stub gene_infos with feature_attributes / sources, dump-call histories with recurring genes, gene
range ties and equal transcript starts, reference exon_id tables, and reference annotations with rich attribute columns
(for a real gffutils database)."""
from gen import c03gen as G

STRANDS = ["+", "+", "-", "-", "."]
SOURCES = ["IsoQuant", "IsoQuant", "HAVANA", "syn", "ENSEMBL"]
FEATURES = ["CDS", "UTR", "start_codon", "stop_codon"]
VALUES = ["True", "False", "Unspliced", "protein_coding", "lncRNA", "x", "a b", "7", ""]
DIRTY = ["a;b", 'q"r', "t\tu", " lead", "semi; colon", "%s", "%d", "50%"]


def additional(rng, tid, dirty):
    """additional_info of a model as the construction code fills it (order of insertion)"""
    a = []
    if rng.random() < 0.3:
        a.append(["similar_reference_id", "RT%d" % rng.randint(0, 5)])
        a.append(["alternatives", rng.choice(["exon_skipping:100-200", "alt_donor_site:5", "", "a,b"])])
    if rng.random() < 0.15:
        a.append(["exons", str(rng.randint(1, 9))])        # already present (e.g. second print of the object)
    if rng.random() < 0.5:
        a.append(["Canonical", rng.choice(["True", "False", "Unspliced"])])
    if dirty and rng.random() < 0.3:
        a.append([rng.choice(["note", "k y"]), rng.choice(DIRTY)])
    return a


def pairs_text(rng, dirty=False, fmt='%s "%s"; '):
    """text as set_gene_attributes would assemble it (sometimes not of that form when dirty)"""
    n = rng.choice([0, 1, 1, 2, 3])
    keys = ["gene_name", "gene_type", "tag", "transcript_name", "Canonical", "exons", "transcripts", "note"]
    t = "".join(fmt % (rng.choice(keys), rng.choice(VALUES + (DIRTY if dirty else []))) for _ in range(n))
    if dirty and rng.random() < 0.2:
        t += rng.choice(["junk", ";;", '"'])
    return t


def model(rng, tid, gids, chrs, small, dirty):
    ex = G.exon_list(rng, small)
    other = []
    if rng.random() < 0.35:
        for a, b in ex:
            if a <= b and rng.random() < 0.6:
                other.append([a, b, rng.choice(FEATURES + ["exon"])])
                if rng.random() < 0.2:
                    other.append([a, min(b, a + 2), rng.choice(FEATURES)])
    return {"chr": rng.choice(chrs), "strand": rng.choice(STRANDS), "tid": tid, "gid": rng.choice(gids),
            "source": rng.choice(SOURCES), "exons": [list(e) for e in ex], "other": other,
            "additional": additional(rng, tid, dirty)}


def exon_key(m, e):
    return m["tid"] + "_%d_%d_%s" % (e[0], e[1], m["strand"])


def history(rng, small=False, dirty=False):
    """calls on one printer + the reference exon table of its FeatureIdStorage"""
    n_calls = rng.choice([1, 1, 2, 2, 3])
    chrom = rng.choice(["c1", "chr2", "c_3.1"] + (["c\t4", 'c"5'] if dirty else []))
    gids = [rng.choice(["G%d", "novel_gene_" + chrom + "_%d", "ENSG%05d"]) % i for i in range(rng.choice([1, 2, 3, 4]))]
    if dirty and rng.random() < 0.3:
        gids.append(rng.choice(DIRTY))
    chrs = [chrom] * 14 + [chrom + "x"]
    uniform = rng.random() < 0.6
    gstrand = {g: rng.choice("+-") for g in gids}
    calls = []
    k = 0
    all_models = []
    for _ in range(n_calls):
        ms = []
        for _ in range(rng.choice([0, 1, 1, 2, 3, 4])):
            tid = rng.choice(["transcript%d." + chrom + ".nnic", "RT%d", "T%d"]) % k
            k += 1
            m = model(rng, tid, gids, chrs, small, dirty)
            if uniform:
                m["strand"] = gstrand[m["gid"]]
            if ms and rng.random() < 0.25:              # equal start / equal range as a previous model (ties)
                p = rng.choice(ms)
                if p["exons"] and m["exons"]:
                    if rng.random() < 0.5:
                        m["exons"] = [list(e) for e in p["exons"]]
                    else:
                        m["exons"][0][0] = p["exons"][0][0]
            ms.append(m)
        all_models += ms
        regions = []
        if rng.random() < 0.5:
            for g in gids:
                if rng.random() < 0.6:
                    a = rng.randint(1, 10 if small else 3000)
                    regions.append([g, a, a + rng.randint(0, 12 if small else 9000)])
        sources, fattrs = [], []
        for g in gids:
            if rng.random() < 0.4:
                sources.append([g, rng.choice(SOURCES)])
            if rng.random() < 0.4:
                fattrs.append([g, pairs_text(rng, dirty)])
        for m in ms:
            has_t = rng.random() < 0.4
            if has_t and m["tid"] not in [x[0] for x in fattrs]:
                fattrs.append([m["tid"], pairs_text(rng, dirty)])
            for e in m["exons"]:
                if rng.random() < (0.5 if has_t else 0.08):
                    key = exon_key(m, e)
                    if key not in [x[0] for x in fattrs]:
                        fattrs.append([key, pairs_text(rng, dirty)])
        calls.append({"gi": {"chr": chrom, "regions": regions, "sources": sources, "feat_attrs": fattrs}, "models": ms})
    # reference exon ids: some exons of the models, some strangers
    feats = None
    if rng.random() < 0.6:
        feats, seen = [], {}
        n = 0
        for m in all_models:
            for e in m["exons"]:
                key = (e[0], e[1], m["strand"])
                if rng.random() < 0.3 and key not in seen:
                    n += 1
                    eid = rng.choice([chrom + ".%d" % rng.randint(1, 6), "ENSE%d" % n, "E%d" % n])
                    if eid in seen.values():
                        continue
                    seen[key] = eid
                    feats.append({"start": e[0], "end": e[1], "strand": m["strand"],
                                  "attr": [eid] + (["second"] if rng.random() < 0.1 else [])})
        if rng.random() < 0.2:
            feats.append({"start": 7, "end": 9, "strand": "+", "attr": None})
    return {"chr": chrom, "genedb": feats, "calls": calls}


def designed_histories():
    """the order questions, each as a pair of storages that are permutations of one another"""
    def m(tid, gid, exons, strand="+", other=(), add=()):
        return {"chr": "c1", "strand": strand, "tid": tid, "gid": gid, "source": "IsoQuant",
                "exons": [list(e) for e in exons], "other": [list(o) for o in other], "additional": [list(a) for a in add]}
    gi = {"chr": "c1", "regions": [], "sources": [], "feat_attrs": []}
    a, b = m("T1", "G1", [(10, 20), (30, 40)]), m("T2", "G1", [(10, 20), (50, 60)])
    c, d = m("T3", "G2", [(100, 200)]), m("T4", "G3", [(100, 200)])
    e = m("T5", "G4", [(10, 20), (30, 40)], "-", other=[(10, 20, "CDS"), (30, 35, "CDS"), (30, 32, "stop_codon")])
    f = m("T6", "G5", [(10, 20), (30, 40)], ".", other=[(10, 20, "CDS"), (10, 20, "UTR")])
    out = []
    for ms in ([a, b], [b, a], [c, d], [d, c], [e], [f], [a, c, b, d], [d, b, c, a]):
        out.append({"chr": "c1", "genedb": None, "calls": [{"gi": gi, "models": ms}]})
    out.append({"chr": "c1", "genedb": None, "calls": [{"gi": gi, "models": [a]}, {"gi": gi, "models": [b, c]}]})
    return out


# ------------------------------------------------------------------------------------------------------------------
# reference annotations with attribute columns (real gffutils database)


def rich_annotation(rng):
    """G.annotation + sources and attribute lists (order as written); attribute values may repeat a key"""
    ann = G.annotation(rng)
    for g in ann["genes"]:
        g["source"] = rng.choice(SOURCES)
        g["attrs"] = []
        for k in ["gene_name", "gene_type", "level", "transcripts", "tag", "tag"]:
            if rng.random() < 0.4:
                g["attrs"].append([k, rng.choice(["A1", "protein_coding", "2", "x y", ""])])
        for t in g["transcripts"]:
            t["source"] = rng.choice(SOURCES)
            t["attrs"] = []
            for k in ["transcript_name", "level", "exons", "Canonical", "tag", "tag", "transcript_support_level", "ID"]:
                if rng.random() < 0.35:
                    t["attrs"].append([k, rng.choice(["B2", "True", "3", "basic", "CCDS", ""])])
            t["exon_attrs"] = []
            for i, e in enumerate(t["exons"]):
                ea = []
                if rng.random() < 0.5:
                    ea.append(["exon_number", str(i + 1)])
                if rng.random() < 0.4:
                    ea.append(["exon_id", "%s.%d" % (ann["chr"], rng.randint(1, 9)) if rng.random() < 0.3
                               else "ENSE_%d_%d" % (e[0], e[1])])
                if rng.random() < 0.2:
                    ea.append(["exon_note", "n"])
                t["exon_attrs"].append(ea)
    return ann


def _attr_text(pairs):
    return "".join(' %s "%s";' % (k, v) for k, v in pairs)


def rich_annotation_gtf(ann):
    out = []
    c = ann["chr"]
    for g in ann["genes"]:
        out.append('%s\t%s\tgene\t%d\t%d\t.\t%s\t.\tgene_id "%s";%s'
                   % (c, g["source"], g["start"], g["end"], g["strand"], g["gid"], _attr_text(g["attrs"])))
        for t in g["transcripts"]:
            out.append('%s\t%s\ttranscript\t%d\t%d\t.\t%s\t.\tgene_id "%s"; transcript_id "%s";%s'
                       % (c, t["source"], t["exons"][0][0], t["exons"][-1][1], g["strand"], g["gid"], t["tid"],
                          _attr_text(t["attrs"])))
            for (a, b), ea in zip(t["exons"], t["exon_attrs"]):
                out.append('%s\t%s\texon\t%d\t%d\t.\t%s\t.\tgene_id "%s"; transcript_id "%s";%s'
                           % (c, t["source"], a, b, g["strand"], g["gid"], t["tid"], _attr_text(ea)))
            for a, b in t["cds"]:
                out.append('%s\t%s\tCDS\t%d\t%d\t.\t%s\t0\tgene_id "%s"; transcript_id "%s";'
                           % (c, t["source"], a, b, g["strand"], g["gid"], t["tid"]))
    return "\n".join(out) + "\n"
