"""Seeded generators for C02: assignment records as the counters see them, call histories, per-chromosome splits.

A record is a plain dict (JSON-able, the wire format of the driver):
  {"atype": str, "gtype": str, "m": [[gene|None, transcript|None], ...], "nce": int, "ii": [[tid, n_introns], ...]}
`to_namespace` turns it into the lightweight object the real counter reads (exactly the attributes touched by
`AssignedFeatureCounter.add_read_info` and the two extractors).
"""
from types import SimpleNamespace

TYPES = ["unique", "noninformative", "intergenic", "ambiguous", "unique_minor_difference", "inconsistent",
         "inconsistent_non_intronic", "inconsistent_ambiguous", "suspended"]
STRATEGIES = ["unique_only", "with_ambiguous", "unique_splicing_consistent", "unique_inconsistent", "all"]
LEVELS = ["gene", "transcript"]


class Annotation:
    """genes -> transcripts with intron counts (0 = mono-exonic isoform)"""

    def __init__(self, rng, n_genes, chrom="", max_tx=4, weird_ids=False):
        self.genes = {}
        self.introns = {}
        for g in range(n_genes):
            # ids that look like statistics lines: leading underscore(s) (legal gene / transcript ids)
            # ... and a leading '#': such an id sorts before letters and digits, so its row is the FIRST of its
            # per-chromosome file - the place where a header test by content would take it for a header line
            pre = rng.choice(["_", "_", "__", "__x.", "#", "#", "##", "#feature_id"]) if (weird_ids and rng.random() < 0.3) else ""
            gid = "%s%sG%03d" % (pre, chrom, g)
            txs = []
            for t in range(rng.randint(1, max_tx)):
                tid = "%s%sT%03d.%d" % (pre, chrom, g, t)
                txs.append(tid)
                self.introns[tid] = rng.choice([0, 0, 1, 2, 5])
            self.genes[gid] = txs
        self.tx_gene = {t: g for g, txs in self.genes.items() for t in txs}
        self.all_tx = sorted(self.tx_gene)
        self.all_genes = sorted(self.genes)

    def ii(self, tids):
        return [[t, self.introns[t]] for t in tids if t in self.introns]


def gene_type_of(atype, matches):
    """ReadAssignment.__init__"""
    genes = set(m[0] for m in matches)
    if atype == "ambiguous":
        return "ambiguous" if len(genes) > 1 else "unique"
    if atype == "inconsistent_ambiguous":
        return "inconsistent_ambiguous" if len(genes) > 1 else "inconsistent"
    return atype


def realistic_record(rng, ann):
    """what the assigner + multimapper resolver can produce"""
    r = rng.random()
    nce = rng.choice([1, 1, 2, 3, 6])
    if r < 0.08:
        at = rng.choice(["noninformative", "intergenic"])
        return {"atype": at, "gtype": at, "m": [], "nce": nce, "ii": []}
    if r < 0.45:
        t = rng.choice(ann.all_tx)
        at = rng.choice(["unique", "unique_minor_difference"])
        m = [[ann.tx_gene[t], t]]
    elif r < 0.65:
        k = rng.randint(2, 4)
        if rng.random() < 0.6:
            g = rng.choice(ann.all_genes)
            ts = rng.sample(ann.genes[g], min(k, len(ann.genes[g])))
        else:
            ts = rng.sample(ann.all_tx, min(k, len(ann.all_tx)))
        at = "ambiguous"
        m = [[ann.tx_gene[t], t] for t in ts]
        if len(m) == 1:
            at = "unique"
    elif r < 0.85:
        t = rng.choice(ann.all_tx)
        at = rng.choice(["inconsistent", "inconsistent_non_intronic"])
        m = [[ann.tx_gene[t], t]]
    else:
        ts = rng.sample(ann.all_tx, min(rng.randint(2, 3), len(ann.all_tx)))
        at = "inconsistent_ambiguous" if len(ts) > 1 else "inconsistent"
        m = [[ann.tx_gene[t], t] for t in ts]
    gt = gene_type_of(at, m)
    # multimapper resolver: a retained record of a multi-locus tie is re-flagged (multimap_resolver.py)
    if rng.random() < 0.06 and at not in ("noninformative", "intergenic"):
        amb = "ambiguous" if at in ("unique", "unique_minor_difference", "ambiguous") else "inconsistent_ambiguous"
        at = amb
        if rng.random() < 0.5:
            gt = amb
    return {"atype": at, "gtype": gt if gt else at, "m": m, "nce": nce, "ii": ann.ii([x[1] for x in m])}


def adversarial_record(rng, ann):
    """any type pair x any match shape (incl. None ids, missing intron entries); a record typed unique at the
    level in use keeps at most one distinct feature (`list(set)[0]` is hash-order otherwise)"""
    at = rng.choice(TYPES)
    gt = rng.choice(TYPES)
    shape = rng.randint(0, 6)
    ts = rng.sample(ann.all_tx, min(3, len(ann.all_tx)))
    if shape == 0:
        m = []
    elif shape == 1:
        m = [[ann.tx_gene[ts[0]], ts[0]]]
    elif shape == 2:
        m = [[ann.tx_gene[t], t] for t in ts[:2]]
    elif shape == 3:
        m = [[ann.tx_gene[t], t] for t in ts]
    elif shape == 4:
        m = [[ann.tx_gene[ts[0]], None]] + [[ann.tx_gene[t], t] for t in ts[1:2]]
    elif shape == 5:
        m = [[None, ts[0]]]
    else:
        m = [[ann.tx_gene[ts[0]], ts[0]], [ann.tx_gene[ts[0]], ts[0]]]
    ii = ann.ii([x[1] for x in m if x[1]])
    if rng.random() < 0.1:
        ii = ii[1:]
    return {"atype": at, "gtype": gt, "m": m, "nce": rng.choice([0, 1, 2, 4]), "ii": ii}


def hash_order_free(rec, lvl):
    """the unique branch picks `list(set)[0]`: deterministic only for <= 1 distinct feature"""
    t = rec["gtype"] if lvl == "gene" else rec["atype"]
    if t not in ("unique", "unique_minor_difference"):
        return True
    idx = 0 if lvl == "gene" else 1
    return len(set(x[idx] for x in rec["m"] if x[idx])) <= 1


def to_namespace(rec, read_id="r"):
    if rec is None:
        return None
    from src.isoform_assignment import ReadAssignmentType as T
    return SimpleNamespace(
        read_id=read_id, read_group="NA",
        assignment_type=T[rec["atype"]], gene_assignment_type=T[rec["gtype"]],
        isoform_matches=[SimpleNamespace(assigned_gene=g, assigned_transcript=t) for g, t in rec["m"]],
        corrected_exons=[(100 * i + 1, 100 * i + 50) for i in range(rec["nce"])],
        gene_info=SimpleNamespace(all_isoforms_introns={t: [(1, 2)] * n for t, n in rec["ii"]}))


def history(rng, ann, n, mode="realistic", lvl="transcript", raw=False):
    """a list of driver events"""
    ev = []
    for _ in range(n):
        r = rng.random()
        if raw and r < 0.5:
            k = rng.choice([0, 1, 1, 1, 2, 2, 3, 5])
            fs = [rng.choice(ann.all_tx) for _ in range(k)] if rng.random() < 0.2 else rng.sample(ann.all_tx, min(k, len(ann.all_tx)))
            ev.append({"k": "raw", "noid": rng.random() < 0.03, "fs": fs})
        elif raw and r < 0.55:
            ev.append({"k": "unassigned", "n": rng.randint(0, 5)})
        elif raw and r < 0.6:
            ev.append({"k": "confirm", "fs": rng.sample(ann.all_tx, min(rng.randint(0, 4), len(ann.all_tx)))})
        elif r < 0.03:
            ev.append({"k": "read", "a": None})
        elif r < 0.05:
            ev.append({"k": "unaligned", "n": rng.randint(0, 3)})
        else:
            for _try in range(20):
                rec = realistic_record(rng, ann) if mode == "realistic" else adversarial_record(rng, ann)
                if hash_order_free(rec, lvl):
                    break
            else:
                continue
            ev.append({"k": "read", "a": rec})
    return ev


def exhaustive_single_records():
    """every (atype, gtype, match shape, nce, mono?) single-record history over a 2-gene universe"""
    shapes = [
        [], [["G1", "T1"]], [["G1", "T1"], ["G1", "T2"]], [["G1", "T1"], ["G2", "T3"]],
        [["G1", None]], [[None, "T1"]], [["G1", "T1"], ["G1", "T1"]], [["G1", "T1"], ["G1", "T2"], ["G2", "T3"]],
    ]
    out = []
    for at in TYPES:
        for gt in TYPES:
            for m in shapes:
                for nce in (1, 2):
                    for n_intr in (0, 2, None):
                        ii = [] if n_intr is None else [[x[1], n_intr] for x in m if x[1]]
                        out.append({"atype": at, "gtype": gt, "m": m, "nce": nce, "ii": ii})
    return out


def forward_counts_case(rng, consistent=True):
    """transcript_read_ids / read_assignment_counts / model ids of one gene"""
    n_models = rng.randint(0, 5)
    models = ["M%d" % i for i in range(n_models)]
    reads = ["r%d" % i for i in range(rng.randint(0, 12))]
    tr = {}
    cnt = {}
    for r in reads:
        k = rng.choice([0, 1, 1, 1, 2, 3]) if models else 0
        ms = rng.sample(models, min(k, len(models)))
        cnt[r] = len(ms)
        for m in ms:
            tr.setdefault(m, []).append(r)
    # a read id with several alignment records under ONE model (two primary records with one name inside the locus):
    # save_assigned_read lists the read once per record and counts every record
    if models and reads and rng.random() < 0.35:
        for r in rng.sample(reads, min(rng.randint(1, 2), len(reads))):
            own = [m for m in tr if r in tr[m]]
            if own:
                m = rng.choice(own)
                extra = rng.randint(1, 2)
                tr[m].extend([r] * extra)
                cnt[r] += extra
    if not consistent:
        for r in rng.sample(reads, min(2, len(reads))):
            cnt[r] = rng.randint(0, 3)
        if reads and rng.random() < 0.5:
            del cnt[rng.choice(list(cnt))]
        if models and reads and rng.random() < 0.5:
            tr.setdefault(rng.choice(models), []).append(rng.choice(reads))
    # dict insertion orders as the code builds them
    order = list(tr)
    rng.shuffle(order)
    items = list(cnt.items())
    rng.shuffle(items)
    return {"tr": [[m, tr[m]] for m in order], "cnt": [[r, c] for r, c in items], "models": models}


# ------------------------------------------------------------------------------------------------
# synthetic genome / annotation / reads for the pipeline oracle

def c02_dataset(seed, tie=False, underscore=False, n_chroms=3, hash_id=False, dup=False):
    """multi-chromosome data set with every assignment class the count tables distinguish:
    unique full-length and truncated reads, reads compatible with two isoforms (ambiguous), exon-skipping /
    intron-retaining reads (inconsistent), reads with shifted ends, mono-exonic genes and unspliced reads, intergenic
    reads, unmapped reads, secondary alignments on a paralogous locus; optionally the multi-locus tie of
    prototypes/multimap_tie_probe.py (`tie`), a gene whose id starts with an underscore (`underscore`), a gene whose id
    (and transcript ids) start with '#' on the SECOND chromosome - the first row of a per-chromosome counts file that is
    not the first file of the merge (`hash_id`), and a read NAME that occurs on two primary alignment records inside one
    gene, both full matches of the same isoform with different ends (`dup`: forward_counts keys by read id)."""
    import random
    from gen import synth
    ds = synth.Dataset(seed)
    rng = random.Random(seed * 7919 + 13)
    chroms = ["chr1", "chr2", "chr10", "chrX"][:n_chroms]
    rid = [0]

    def name(tag):
        rid[0] += 1
        return "%s_%d" % (tag, rid[0])

    loci = []
    for ci, chrom in enumerate(chroms):
        ds.add_chrom(chrom, 60000)
        pos = 2000
        for gi in range(rng.randint(2, 3)):
            strand = rng.choice("+-")
            nex = rng.randint(3, 5)
            exons = []
            p = pos
            for _ in range(nex):
                ln = rng.randint(150, 350)
                exons.append((p, p + ln - 1))
                p += ln + rng.randint(400, 1200)
            gid = "G%d_%d" % (ci + 1, gi)
            if underscore and ci == 0 and gi == 0:
                gid = "_" + gid
            if hash_id and ci == 1 and gi == 0:
                gid = "#" + gid
            skip = rng.randint(1, nex - 2)
            txs = [(gid + ".a", list(exons)), (gid + ".b", exons[:skip] + exons[skip + 1:])]
            ds.add_gene(chrom, gid, strand, txs)
            loci.append((chrom, gid, strand, txs, skip))
            pos = p + 3000
        # a mono-exonic gene
        mg = "M%d" % (ci + 1)
        ds.add_gene(chrom, mg, "+", [(mg + ".m", [(pos, pos + 899)])], plant=False)
        loci.append((chrom, mg, "+", [(mg + ".m", [(pos, pos + 899)])], None))
        pos += 4000
    # reads
    for chrom, gid, strand, txs, skip in loci:
        if skip is None:
            (tid, ex), = txs
            for k in range(rng.randint(1, 4)):
                a = ex[0][0] + rng.randint(0, 100)
                b = ex[0][1] - rng.randint(0, 100)
                ds.read_from_exons(name("mono"), chrom, [(a, b)])
            continue
        ex_a, ex_b = txs[0][1], txs[1][1]
        for tid, ex in txs:
            for k in range(rng.randint(2, 5)):          # full length, jittered ends
                e = list(ex)
                e[0] = (e[0][0] + rng.randint(0, 30), e[0][1])
                e[-1] = (e[-1][0], e[-1][1] - rng.randint(0, 30))
                ds.read_from_exons(name("fl"), chrom, e)
        # small alignment errors at a splice site (within the matching tolerance): unique_minor_difference
        for k in range(rng.randint(0, 2)):
            e = [tuple(x) for x in ex_a]
            j = rng.randint(1, len(e) - 1)
            sh = rng.choice([-14, -10, 10, 14])
            e[j] = (e[j][0] + sh, e[j][1])
            if rng.random() < 0.5:
                e[j - 1] = (e[j - 1][0], e[j - 1][1] + sh)
            ds.read_from_exons(name("minor"), chrom, e)
        # truncated reads that do not cover the skipped exon region: compatible with both isoforms
        if skip >= 2:
            for k in range(rng.randint(0, 3)):
                e = list(ex_a[:skip])
                e[0] = (e[0][0] + rng.randint(0, 30), e[0][1])
                e[-1] = (e[-1][0], e[-1][1] - rng.randint(10, 60))
                ds.read_from_exons(name("amb"), chrom, e)
        # unspliced read inside the first exon (shared by both isoforms) and inside the skipped exon (isoform a only)
        for k in range(rng.randint(0, 2)):
            a, b = ex_a[0]
            ds.read_from_exons(name("unspl_shared"), chrom, [(a + 20, b - 20)])
        for k in range(rng.randint(0, 2)):
            a, b = ex_a[skip]
            ds.read_from_exons(name("unspl_a"), chrom, [(a + 10, b - 10)])
        # inconsistent: skips an exon that no isoform skips / retains an intron
        if len(ex_a) >= 4:
            other = 1 if skip != 1 else 2
            for k in range(rng.randint(0, 2)):
                e = ex_a[:other] + ex_a[other + 1:]
                ds.read_from_exons(name("inc_skip"), chrom, e)
        for k in range(rng.randint(0, 2)):
            e = [(ex_a[0][0] + 5, ex_a[1][1])] + list(ex_a[2:])
            ds.read_from_exons(name("inc_ir"), chrom, e)
        # shifted terminal ends (alternative polyA / TSS like)
        for k in range(rng.randint(0, 2)):
            e = list(ex_a)
            e[-1] = (e[-1][0], e[-1][1] + rng.randint(150, 300))
            ds.read_from_exons(name("ext"), chrom, e)
    # intergenic and unmapped reads
    for chrom in chroms:
        for k in range(rng.randint(0, 2)):
            a = 55000 + rng.randint(0, 2000)
            ds.read_from_exons(name("intergenic"), chrom, [(a, a + 400)])
    n_unmapped = rng.choice([0, 0, 2, 5])
    for k in range(n_unmapped):
        ds.add_read(name("unmapped"), None, 0, None, flag=4, seq="ACGT" * 25)
    # secondary alignment of a full-length read on another locus (primary wins: no tie)
    if len(loci) > 3:
        (c1, g1, s1, t1, k1), (c2, g2, s2, t2, k2) = loci[0], loci[-2]
        if k1 is not None and k2 is not None:
            nm = name("mm_primary_wins")
            ds.read_from_exons(nm, c1, t1[0][1])
            e = list(t2[0][1])
            e = e[:1] + e[2:] if len(e) > 3 else e
            ds.read_from_exons(nm, c2, e, flag=256)
    if dup:
        # one read name on two primary records of one gene, both full splice matches of isoform .a, ends shifted
        spl = [l for l in loci if l[4] is not None]
        for (c0, g0, s0, t0, k0) in spl[:2]:
            nm = name("dup_two_primaries")
            for sh in (11, 17):
                e = list(t0[0][1])
                e[0] = (e[0][0] + sh, e[0][1])
                e[-1] = (e[-1][0], e[-1][1] - sh + 4)
                ds.read_from_exons(nm, c0, e)
    if tie:
        # inconsistent primary + two secondaries that each match one isoform exactly, on two other loci
        spl = [l for l in loci if l[4] is not None]
        if len(spl) >= 3:
            (c0, g0, s0, t0, k0), (c1, g1, s1, t1, k1), (c2, g2, s2, t2, k2) = spl[0], spl[1], spl[2]
            nm = name("mm_tie")
            e0 = t0[0][1]
            other = 1 if k0 != 1 else 2
            prim = e0[:other] + e0[other + 1:] if len(e0) >= 4 else [(e0[0][0] + 5, e0[1][1])] + list(e0[2:])
            ds.read_from_exons(nm, c0, prim)
            ds.read_from_exons(nm, c1, t1[0][1], flag=256)
            ds.read_from_exons(nm, c2, t2[0][1], flag=256)
    ds.meta = {"n_unmapped": n_unmapped, "chroms": chroms}
    return ds


# ------------------------------------------------------------------------------------------------
# audit-2 (C02): layouts / inputs the data set above never has.  Lifted from /tmp/audit2-A/probes/C02/p1, p3, p5.

def c02_layout_dataset(seed):
    """per chromosome: (A) two SAME-strand genes sharing their first two exons (reads compatible with isoforms of both genes:
    gene-level ambiguity), reads with polyA tails, a read inconsistent with everything; (B) an ANTISENSE pair with partly
    shared exon coordinates, reads with polyA / polyT tails, reads over the shared intron on either BAM strand, an unspliced
    read in the shared exon; (C) a mono-exon gene NESTED in an exon of a spliced gene (same strand) and one in its intron
    (other strand); plus 2 unmapped reads.  Offsets / read numbers from the seed."""
    import random
    from gen import synth
    ds = synth.Dataset(seed)
    rng = random.Random(seed * 104729 + 7)
    for c in ("chr1", "chr2"):
        ds.add_chrom(c, 80000)
        b = 3000 + rng.randint(0, 400)
        e = [(b, b + 299), (b + 700, b + 999), (b + 1500, b + 1799), (b + 2400, b + 2699), (b + 3300, b + 3699)]
        ds.add_gene(c, "GA1_" + c, "+", [("GA1a_" + c, e[:4]), ("GA1b_" + c, [e[0], e[1], e[3]])])
        ds.add_gene(c, "GA2_" + c, "+", [("GA2a_" + c, [e[0], e[1], e[4]])])
        for k in range(rng.randint(3, 5)):
            ds.read_from_exons("A_sh_%s_%d" % (c, k), c, [(e[0][0] + 10 * k, e[0][1]), (e[1][0], e[1][1] - 20)])
        for k in range(rng.randint(2, 4)):
            ds.read_from_exons("A_g1_%s_%d" % (c, k), c, e[:4], polya=25 if k else 0)
            ds.read_from_exons("A_g2_%s_%d" % (c, k), c, [e[0], e[1], e[4]], polya=25 if k else 0)
        ds.read_from_exons("A_amb1_%s" % c, c, [e[0], e[1]])
        ds.read_from_exons("A_inc_%s" % c, c, [e[0], e[2], e[4]])
        b = 20000 + rng.randint(0, 400)
        p = [(b, b + 299), (b + 800, b + 1099), (b + 1700, b + 2099)]
        m = [(b + 100, b + 299), (b + 800, b + 1099), (b + 2500, b + 2899)]
        ds.add_gene(c, "GBp_" + c, "+", [("GBp.t_" + c, p)])
        ds.add_gene(c, "GBm_" + c, "-", [("GBm.t_" + c, m)])
        for k in range(3):
            ds.read_from_exons("B_p_%s_%d" % (c, k), c, p, polya=20)
            ds.read_from_exons("B_m_%s_%d" % (c, k), c, m, polyt=20)
        for k in range(3):
            ds.read_from_exons("B_sh_%s_%d" % (c, k), c, [(b + 150, b + 299), (b + 800, b + 1050)], flag=16 * (k % 2))
        ds.add_read("B_uns_%s" % c, c, b + 820, "200M")
        b = 40000 + rng.randint(0, 400)
        q = [(b, b + 1499), (b + 3000, b + 3399), (b + 5000, b + 5499)]
        ds.add_gene(c, "GC_" + c, "+", [("GC.t_" + c, q)])
        ds.add_gene(c, "GCm1_" + c, "+", [("GCm1.t_" + c, [(b + 300, b + 1100)])], plant=False)
        ds.add_gene(c, "GCm2_" + c, "-", [("GCm2.t_" + c, [(b + 1800, b + 2600)])], plant=False)
        for k in range(3):
            ds.read_from_exons("C_fl_%s_%d" % (c, k), c, q)
            ds.add_read("C_m1_%s_%d" % (c, k), c, b + 320 + k, "700M")
            ds.add_read("C_m2_%s_%d" % (c, k), c, b + 1820 + k, "700M", flag=16)
        ds.add_read("C_m1A_%s" % c, c, b + 320, "700M30S")
    for k in range(2):
        ds.add_read("unm%d" % k, None, 0, None, flag=4, seq="ACGT" * 25)
    ds.meta = {"n_unmapped": 2, "chroms": ["chr1", "chr2"]}
    return ds


ZERO_CASES = ("intergenic_only", "unmapped_only", "empty", "one_chr_empty")


def c02_zero_dataset(case):
    """runs whose tables are (nearly) all zero: only intergenic reads / only unmapped reads / an empty BAM / one chromosome
    without any read"""
    from gen import synth
    ds = synth.Dataset(1)
    ds.add_chrom("chr1", 20000)
    ds.add_chrom("chr2", 20000)
    t = [(2001, 2300), (2601, 3000)]
    ds.add_gene("chr1", "G1", "+", [("T1", t)])
    ds.add_gene("chr2", "G2", "-", [("T2", t)])
    n_unm = 0
    if case == "intergenic_only":
        for i in range(3):
            ds.add_read("ig%d" % i, "chr1", 10000 + 500 * i, "300M")
    elif case == "unmapped_only":
        for i in range(3):
            ds.add_read("u%d" % i, None, 0, None, flag=4, seq="ACGT" * 20)
        n_unm = 3
    elif case == "one_chr_empty":
        for i in range(3):
            ds.read_from_exons("r%d" % i, "chr2", t, flag=16)
    ds.meta = {"n_unmapped": n_unm, "chroms": ["chr1", "chr2"]}
    return ds


def c02_deep_dataset(seed, times=36):
    """every primary read of `c02_dataset` `times` times over, plus unspliced reads bridging neighbouring genes: each
    chromosome becomes ONE read cluster of > 1024 reads that the collector cuts at coverage valleys"""
    ds = c02_dataset(seed)
    base = [r for r in ds.reads if not r["flag"] & (4 | 256 | 2048)]
    extra = []
    for k in range(times):
        for r in base:
            q = dict(r)
            q["name"] = "%s_x%d" % (r["name"], k)
            extra.append(q)
    for c in ds.chroms:
        p = 1500
        while p < 50000:
            extra.append({"name": "br_%s_%d" % (c, p), "chr": c, "start0": p, "cigar": "2500M", "flag": 0, "mapq": 60, "tags": [],
                          "seq": None})
            p += 2300
    ds.reads += extra
    return ds
