"""Generators for C04 (novel transcript models).

In-process level: a *locus* = exon lattice, isoforms (some annotated, some not), reads derived from the isoforms
(splice-site jitter, truncation, skipped exons, multimappers, polyA flags) as plain dicts; `harness/props/C04.py`
turns them into the repo's objects.

Pipeline level: `novel_dataset` builds a synth.Dataset whose reads follow annotated *and* unannotated isoforms
(novel exon skipping, novel splice sites, entirely unannotated genes, non-canonical genes, low coverage, tips).
"""
import random

from gen import synth


# ---------------------------------------------------------------------------------------------------
# in-process loci
# ---------------------------------------------------------------------------------------------------

def exon_lattice(rng, start=1000, n=None, small=False):
    n = n or rng.randint(3, 7)
    exons = []
    p = start
    for _ in range(n):
        ln = rng.randint(8, 40) if (small and rng.random() < 0.3) else rng.randint(60, 300)
        exons.append((p, p + ln - 1))
        p += ln + (rng.randint(12, 60) if (small and rng.random() < 0.3) else rng.randint(80, 900))
    return exons


def introns_of(exons):
    return [(exons[i][1] + 1, exons[i + 1][0] - 1) for i in range(len(exons) - 1)]


def sub_isoform(rng, exons):
    """an isoform = a sub-chain of the lattice (>= 2 exons), optionally with one shifted splice site"""
    k = len(exons)
    keep = [e for e in exons if rng.random() < 0.8]
    if len(keep) < 2:
        keep = [exons[0], exons[-1]]
    keep = list(keep)
    if rng.random() < 0.3:
        i = rng.randrange(len(keep) - 1)
        sh = rng.choice([-30, -12, -5, 5, 9, 25])
        a, b = keep[i]
        if b + sh > a + 3 and b + sh < keep[i + 1][0] - 3:
            keep[i] = (a, b + sh)
    return keep


def jitter_exons(rng, exons, delta, p_site=0.15, big=False):
    ex = list(exons)
    for i in range(len(ex) - 1):
        if rng.random() < p_site:
            d = rng.randint(-delta - 2, delta + 2) if not big else rng.randint(-25, 25)
            a, b = ex[i]
            if a < b + d < ex[i + 1][0] - 2:
                ex[i] = (a, b + d)
        if rng.random() < p_site:
            d = rng.randint(-delta - 2, delta + 2) if not big else rng.randint(-25, 25)
            a, b = ex[i + 1]
            if ex[i][1] + 2 < a + d < b:
                ex[i + 1] = (a + d, b)
    return ex


def make_locus(rng, delta=None, small=False, annotated=None):
    """-> dict(delta, isoforms=[(id, strand, exons, annotated)], reads=[dict], known_introns=[...])"""
    delta = rng.choice([0, 4, 6, 12]) if delta is None else delta
    lattice = exon_lattice(rng, start=rng.choice([100, 1000, 50000]), small=small)
    strand = rng.choice("+-")
    n_iso = rng.randint(1, 4)
    isoforms = []
    seen = set()
    for k in range(n_iso):
        ex = sub_isoform(rng, lattice) if k else list(lattice)
        key = tuple(ex)
        if key in seen:
            continue
        seen.add(key)
        ann = (rng.random() < 0.5) if annotated is None else annotated
        isoforms.append(("T%d" % k, strand, ex, ann))
    reads = []
    rid = 0
    for tid, st, ex, ann in isoforms:
        n = rng.choice([1, 1, 2, 3, 5, 8, 13])
        # a common truncation point makes distinct polyA clusters for the same chain
        for _ in range(n):
            e = list(ex)
            r = rng.random()
            if r < 0.15 and len(e) > 2:
                e = e[1:]
            elif r < 0.3 and len(e) > 2:
                e = e[:-1]
            e = jitter_exons(rng, e, delta, p_site=rng.choice([0.0, 0.1, 0.3]), big=rng.random() < 0.2)
            s0 = e[0][0] + rng.randint(0, 30)
            e0 = e[-1][1] - rng.choice([0, 0, 0, rng.randint(0, 30), rng.randint(40, 55)])
            if s0 < e[0][1]:
                e[0] = (s0, e[0][1])
            if e0 > e[-1][0]:
                e[-1] = (e[-1][0], e0)
            polya = rng.random() < 0.6
            reads.append({"id": "r%d" % rid, "exons": e, "introns": introns_of(e), "mm": rng.random() < 0.08,
                          "strand": st if rng.random() < 0.9 else rng.choice("+-."),
                          "polya": polya and st == "+", "polyt": polya and st == "-",
                          "group": rng.choice(["g1", "g2"]), "mapq": rng.choice([0, 10, 30, 60, 60])})
            rid += 1
    # noise: a few single reads with random chains over the lattice region
    for _ in range(rng.choice([0, 0, 1, 3])):
        e = jitter_exons(rng, sub_isoform(rng, lattice), delta, p_site=0.5, big=True)
        reads.append({"id": "r%d" % rid, "exons": e, "introns": introns_of(e), "mm": False, "strand": strand,
                      "polya": False, "polyt": False, "group": "g1", "mapq": 60})
        rid += 1
    # monoexonic read
    if rng.random() < 0.3:
        e = [lattice[0]]
        reads.append({"id": "r%d" % rid, "exons": e, "introns": [], "mm": False, "strand": strand,
                      "polya": True, "polyt": False, "group": "g1", "mapq": 60})
    rng.shuffle(reads)
    known = sorted({i for _, _, ex, ann in isoforms if ann for i in introns_of(ex)})
    return {"delta": delta, "isoforms": isoforms, "reads": reads, "known_introns": known, "strand": strand}


def tiny_locus(rng):
    """small coordinates, many near-identical introns: exercises clustering ties and substitution chains"""
    delta = rng.choice([0, 1, 2, 3])
    base = [(10, 20), (30, 40), (50, 60), (70, 80)]
    reads = []
    for rid in range(rng.randint(1, 9)):
        k = rng.randint(1, len(base))
        st = rng.randint(0, len(base) - k)
        intr = []
        for (a, b) in base[st:st + k]:
            intr.append((a + rng.randint(-3, 3), b + rng.randint(-3, 3)))
        if any(intr[i][1] + 1 >= intr[i + 1][0] for i in range(len(intr) - 1)):
            continue
        # short terminal exons: after substitution the intron may reach the read end ("corner case" of
        # collect_terminal_positions)
        ex = [(intr[0][0] - rng.choice([1, 2, 5, 5]), intr[0][0] - 1)] + \
             [(intr[i][1] + 1, intr[i + 1][0] - 1) for i in range(len(intr) - 1)] + \
             [(intr[-1][1] + 1, intr[-1][1] + rng.choice([1, 2, 6, 6]))]
        reads.append({"id": "t%d" % rid, "exons": ex, "introns": intr, "mm": rng.random() < 0.1,
                      "strand": rng.choice("+-"), "polya": rng.random() < 0.5, "polyt": rng.random() < 0.3,
                      "group": "g1", "mapq": 60})
    known = [b for b in base if rng.random() < 0.4]
    return {"delta": delta, "isoforms": [], "reads": reads, "known_introns": sorted(known), "strand": "+"}


# ---------------------------------------------------------------------------------------------------
# pipeline datasets
# ---------------------------------------------------------------------------------------------------

def novel_dataset(seed, n_chroms=2, genes_per_chrom=4, chrom_len=60000, annotation=True, noncanonical=0.15,
                  dup_polya=False):
    """-> (Dataset, truth) ; truth['isoforms'] = [(chr, strand, exons, annotated, gene_id, tid, n_reads)]"""
    ds = synth.Dataset(seed)
    rng = ds.rng
    truth = {"isoforms": []}
    for c in range(n_chroms):
        chrom = "chr%d" % (c + 1)
        ds.add_chrom(chrom, chrom_len)
        pos = 1500
        for gi in range(genes_per_chrom):
            strand = rng.choice("+-")
            nex = rng.randint(3, 7)
            lattice = []
            p = pos
            for _ in range(nex):
                ln = rng.randint(100, 350)
                lattice.append((p, p + ln - 1))
                p += ln + rng.randint(250, 1200)
            gene_annotated = rng.random() < 0.75
            canonical = rng.random() >= noncanonical
            isoforms = [list(lattice)]
            for _ in range(rng.randint(1, 3)):
                e = list(lattice)
                r = rng.random()
                if r < 0.5 and len(e) > 3:
                    k = rng.randint(1, len(e) - 2)
                    e = e[:k] + e[k + 1:]           # exon skipping
                elif r < 0.8:
                    k = rng.randrange(len(e) - 1)
                    sh = rng.choice([-40, -25, 25, 40, 60])
                    a, b = e[k]
                    if a + 20 < b + sh < e[k + 1][0] - 50:
                        e[k] = (a, b + sh)          # alternative donor/acceptor
                else:
                    k = rng.randrange(len(e) - 1)
                    a, b = e[k]
                    mid = b + (e[k + 1][0] - b) // 2
                    if mid - 40 > b + 60 and mid + 40 < e[k + 1][0] - 60:
                        e = e[:k + 1] + [(mid - 40, mid + 40)] + e[k + 1:]   # novel cassette exon
                if e not in isoforms:
                    isoforms.append(e)
            txs = []
            for k, e in enumerate(isoforms):
                ann = gene_annotated and annotation and (k == 0 or rng.random() < 0.4)
                tid = "T%d_%d_%d" % (c + 1, gi, k)
                n = rng.choice([1, 2, 4, 6, 9, 14])
                truth["isoforms"].append((chrom, strand, e, ann, "G%d_%d" % (c + 1, gi), tid, n))
                if ann:
                    txs.append((tid, e))
                if canonical:
                    ds.plant_sites(chrom, introns_of(e), strand)
                for r in range(n):
                    ex = list(e)
                    # truncated / noisy reads
                    q = rng.random()
                    if q < 0.15 and len(ex) > 2:
                        ex = ex[1:] if strand == "+" else ex[:-1]
                    ex[0] = (ex[0][0] + rng.randint(0, 25), ex[0][1])
                    ex[-1] = (ex[-1][0], ex[-1][1] - rng.randint(0, 25))
                    if dup_polya and r % 2 == 1:
                        # a second, distant polyA cluster for the same chain
                        if strand == "+":
                            ex[-1] = (ex[-1][0], max(ex[-1][0] + 30, ex[-1][1] - 120))
                        else:
                            ex[0] = (min(ex[0][1] - 30, ex[0][0] + 120), ex[0][1])
                    if rng.random() < 0.08:
                        k2 = rng.randrange(len(ex) - 1)
                        d = rng.choice([-3, -2, 2, 3, 7])
                        a, b = ex[k2]
                        if a + 5 < b + d < ex[k2 + 1][0] - 5:
                            ex[k2] = (a, b + d)     # splice-site noise -> tips / bulges
                    full3 = (strand == "+" and ex[-1][0] == e[-1][0]) or (strand == "-" and ex[0][1] == e[0][1])
                    tail = 25 if (full3 and rng.random() < 0.85) else 0
                    ds.read_from_exons("rd_%s_%d" % (tid, r), chrom, ex, polya=tail if strand == "+" else 0,
                                       polyt=tail if strand == "-" else 0,
                                       flag=0 if strand == "+" else 16)
            if txs:
                ds.add_gene(chrom, "G%d_%d" % (c + 1, gi), strand, txs, plant=False)
            pos = p + 2500
            if pos > chrom_len - 12000:
                break
    return ds, truth


# ---------------------------------------------------------------------------------------------------
# audit-2 (C04): gene layouts and read sets the random generator above never produces.  Lifted from
# /tmp/audit2-A/probes/C04/p1_layouts_options.py, coordinates / read numbers drawn from the seed.
# ---------------------------------------------------------------------------------------------------

LAYOUT_OPTION_SETS = [
    # (name, extra command line) - options the C04 pipeline oracle never used before the audit-2 round
    ("plain", []),
    ("polya_never", ["--polya_requirement", "never"]),
    ("polya_always", ["--polya_requirement", "always"]),
    ("stranded_forward", ["--stranded", "forward"]),
    ("stranded_reverse", ["--stranded", "reverse"]),
    ("fl_delta0", ["--fl_data", "--delta", "0"]),
    ("delta20", ["--delta", "20"]),
    ("matching_loose", ["--matching_strategy", "loose", "--splice_correction_strategy", "all"]),
    ("matching_exact", ["--matching_strategy", "exact"]),
    ("no_secondary", ["--no_secondary"]),
    ("min_mapq20", ["--min_mapq", "20"]),
]


def layout_dataset(seed, n_chroms=2):
    """-> Dataset with, on every chromosome:
      A  antisense pair at the very start of the contig (first exon at base 1): a '+' gene, a '-' gene overlapping it, and a
         NOVEL '+' isoform one of whose introns is annotated only in the '-' gene (-> .nic: annotated introns of either strand)
      B  reference twins (same intron chain, different 3' ends) + a novel exon-skipping isoform of them
      C  a gene nested in an intron of a host gene of the other strand, with a novel isoform of the nested gene
      D  an unannotated locus read on BOTH BAM strands (splice sites canonical on '-')
      E  an unannotated locus supported by 3 primary alignments + SECONDARY alignments of reads whose primary is elsewhere
      G  a non-canonical unannotated locus
      F  an unannotated locus whose last exon ends at the LAST base of the contig"""
    ds = synth.Dataset(seed)
    rng = ds.rng
    n = [0]

    def reads(chrom, ex, strand, k, tails=True, flag=None, mapq=60):
        for _ in range(k):
            e = list(ex)
            j0, j1 = rng.randint(0, 20), rng.randint(0, 20)
            if strand == "+":
                j1 = 0
            else:
                j0 = 0
            e[0] = (e[0][0] + j0, e[0][1])
            e[-1] = (e[-1][0], e[-1][1] - j1)
            n[0] += 1
            f = (0 if strand == "+" else 16) if flag is None else flag
            ds.read_from_exons("q%d" % n[0], chrom, e, flag=f, mapq=mapq, polya=25 if tails and strand == "+" else 0,
                               polyt=25 if tails and strand == "-" else 0)

    def chain(b, k, lens=(250, 400), gaps=(300, 700)):
        ex = []
        for _ in range(k):
            ln = rng.randint(*lens)
            ex.append((b, b + ln - 1))
            b += ln + rng.randint(*gaps)
        return ex

    L = 90000
    for c in ["chr%d" % (i + 1) for i in range(n_chroms)]:
        ds.add_chrom(c, L)
        # A
        A = chain(1, 4)
        Am = [(A[0][0] + rng.randint(50, 120), A[0][1]), A[2], (A[3][0], A[3][1] - rng.randint(20, 100))]
        ds.add_gene(c, "GAp_" + c, "+", [("TAp_" + c, A)])
        ds.add_gene(c, "GAm_" + c, "-", [("TAm_" + c, Am)], plant=False)
        reads(c, A, "+", rng.randint(6, 9))
        reads(c, Am, "-", rng.randint(6, 9))
        reads(c, [A[0], A[2], A[3]], "+", rng.randint(7, 10))
        # B
        B = chain(12000 + rng.randint(0, 500), 4)
        B2 = B[:3] + [(B[3][0], B[3][1] + rng.randint(400, 800))]
        ds.add_gene(c, "GB_" + c, "+", [("TB1_" + c, B), ("TB2_" + c, B2)])
        reads(c, B, "+", 7)
        reads(c, B2, "+", 7)
        reads(c, [B[0], B[2], B2[3]], "+", rng.randint(6, 9))
        # C
        b = 25000 + rng.randint(0, 500)
        H = [(b, b + 300), (b + 6000, b + 6300), (b + 7000, b + 7400)]
        N = chain(b + 1000, 4, gaps=(400, 600))
        ds.add_gene(c, "GH_" + c, "+", [("TH_" + c, H)])
        ds.add_gene(c, "GN_" + c, "-", [("TN_" + c, N)])
        reads(c, H, "+", 6)
        reads(c, N, "-", 6)
        reads(c, [N[0], N[2], N[3]], "-", rng.randint(6, 9))
        # D
        D = chain(45000 + rng.randint(0, 500), 3)
        ds.plant_sites(c, introns_of(D), "-")
        reads(c, D, "-", 5)
        reads(c, D, "-", 5, flag=0, tails=False)
        # E
        Ex = chain(55000 + rng.randint(0, 500), 3)
        ds.plant_sites(c, introns_of(Ex), "+")
        reads(c, Ex, "+", 3)
        for k in range(rng.randint(4, 7)):
            ds.read_from_exons("mm%d_%s" % (k, c), c, Ex, flag=256, polya=25)
            ds.read_from_exons("mm%d_%s" % (k, c), c, [(70000 + 40 * k, 70900)], flag=0)
        # G
        Gx = chain(75000 + rng.randint(0, 500), 3)
        reads(c, Gx, "+", 8, mapq=rng.choice([60, 30, 10]))
        # F
        Fx = [(86000, 86300), (87000, 87300), (89000 - rng.randint(0, 300), L)]
        ds.plant_sites(c, introns_of(Fx), "+")
        reads(c, Fx, "+", 8, tails=False)
    return ds
