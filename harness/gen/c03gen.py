"""Seeded generators for property C03: exon lists, transcript models, dump-call histories, reference
annotations (for gffutils), end-correction cases, chromosome-name sets, and synthetic pipeline datasets with
novel isoforms and loci processed in several regions."""
from gen import synth

# ------------------------------------------------------------------------------------------------
# exon lists


def sd_exons(rng, n=None, maxc=5000, small=False):
    """sorted, disjoint, well-formed, positive"""
    n = n if n is not None else rng.choice([1, 1, 2, 2, 3, 4, 6])
    pos = rng.randint(1, 8 if small else maxc)
    l = []
    for _ in range(n):
        ln = rng.choice([1, 1, 2, 3] if small else [1, 5, 80, 150, 400])
        l.append((pos, pos + ln - 1))
        pos += ln + rng.choice([1, 1, 2] if small else [1, 50, 300, 2000])
    return l


def exon_list(rng, small=False):
    """mostly valid lists + every malformed class the gate distinguishes (and the ones it does not)"""
    r = rng.random()
    l = sd_exons(rng, small=small)
    if r < 0.60:
        return l
    if r < 0.66:                       # unsorted
        l = sd_exons(rng, n=rng.randint(2, 4), small=small)
        i = rng.randrange(len(l) - 1)
        l[i], l[i + 1] = l[i + 1], l[i]
        return l
    if r < 0.71:                       # start 0 / negative
        return [(rng.choice([0, -3]), l[0][1])] + l[1:]
    if r < 0.76:                       # start > end
        i = rng.randrange(len(l))
        l[i] = (l[i][1] + 1, l[i][0])
        return l
    if r < 0.82:                       # overlapping but sorted (passes the gate)
        l = sd_exons(rng, n=rng.randint(2, 4), small=small)
        i = rng.randrange(len(l) - 1)
        l[i] = (l[i][0], l[i + 1][0] + rng.choice([0, 0, 1]))
        return l
    if r < 0.87:                       # nested (passes the gate, last end is not the maximum)
        l = sd_exons(rng, n=rng.randint(2, 3), small=small)
        l[0] = (l[0][0], l[-1][1] + rng.randint(1, 5))
        return l
    if r < 0.91:                       # duplicate exon / same start different end
        i = rng.randrange(len(l))
        d = rng.choice([0, 1, -1])
        return l[:i + 1] + [(l[i][0], max(l[i][0], l[i][1] + d))] + l[i + 1:]
    if r < 0.95:
        return []                      # passes validate_exons, IndexError in dump
    return [(l[0][0], l[0][1])]        # mono-exon


def other_features(rng, exons, kinds):
    """CDS / codons inside the exons (reference models only); kinds are the integer codes (0 = exon excluded)"""
    res = []
    for a, b in exons:
        if a <= b and rng.random() < 0.5:
            res.append((a, b, rng.choice(kinds)))
    return res


def model(rng, tid, gids, chrs, small=False, kinds=(-2, -1, 1, 2)):
    known = rng.random() < 0.4
    ex = exon_list(rng, small)
    return {"chr": rng.choice(chrs), "strand": rng.choice([0, 0, 1, 1, 2]), "tid": tid, "gid": rng.choice(gids),
            "exons": ex, "known": known,
            "other": other_features(rng, ex, list(kinds)) if known and rng.random() < 0.5 else []}


def history(rng, small=False):
    """a sequence of dump calls on one printer: few gene ids so that genes recur within and across calls"""
    n_calls = rng.choice([1, 2, 2, 3, 4])
    gids = list(range(rng.choice([1, 2, 3, 5])))
    chr0 = rng.randint(0, 2)
    chrs = [chr0] * 12 + [chr0 + 1]       # rare chromosome mismatch -> assert
    strands_uniform = rng.random() < 0.6
    gstrand = {g: rng.choice([0, 1]) for g in gids}
    calls = []
    tid = 0
    for _ in range(n_calls):
        nm = rng.choice([0, 1, 1, 2, 3, 5])
        ms = []
        for _ in range(nm):
            m = model(rng, tid, gids, chrs, small)
            if strands_uniform:
                m["strand"] = gstrand[m["gid"]]
            if rng.random() < 0.03 and tid > 0:
                m["tid"] = rng.randrange(tid)      # duplicate transcript id
            tid += 1
            ms.append(m)
        regions = []
        if rng.random() < 0.6:
            for g in gids:
                if rng.random() < 0.6:
                    a = rng.randint(1, 10 if small else 3000)
                    regions.append((g, (a, a + rng.randint(0, 12 if small else 9000))))
        calls.append({"ctx": {"chr": chr0, "regions": regions, "isoforms": []}, "models": ms})
    return calls


def small_universe_histories():
    """exhaustive: every history of <= 2 calls, each with <= 2 models taken from a pool that spans the
    branches of dump (valid/invalid/empty exon lists, two genes, both strands, with/without a reference region)"""
    exs = [[(2, 3)], [(1, 2), (4, 6)], [(5, 9)], [(3, 2)], [], [(1, 9), (2, 4)]]
    pool = []
    t = 0
    for ex in exs:
        for gid in (0, 1):
            pool.append({"chr": 0, "strand": gid, "tid": t, "gid": gid, "exons": ex, "known": False, "other": []})
            t += 1
    calls = [[]] + [[m] for m in pool] + [[a, b] for a in pool for b in pool if a["tid"] != b["tid"]]
    ctxs = [{"chr": 0, "regions": [], "isoforms": []}, {"chr": 0, "regions": [(0, (4, 5))], "isoforms": []}]
    one = [[{"ctx": c, "models": ms}] for c in ctxs for ms in calls]
    return one, pool, ctxs


# ------------------------------------------------------------------------------------------------
# reference annotations (real gffutils database)


def annotation(rng, n_genes=None):
    """-> dict(chr, genes=[dict(gid, strand, start, end, transcripts=[dict(tid, exons, cds)])]) with string ids"""
    n_genes = n_genes or rng.randint(1, 4)
    genes = []
    pos = rng.randint(1, 500)
    for g in range(n_genes):
        strand = rng.choice("+-")
        base = sd_exons(rng, n=rng.randint(1, 6), maxc=50)
        base = [(a + pos, b + pos) for a, b in base]
        txs = []
        for k in range(rng.randint(1, 3)):
            ex = [e for e in base if rng.random() < 0.8] or [base[0]]
            if rng.random() < 0.3:
                ex[0] = (ex[0][0] + rng.randint(0, ex[0][1] - ex[0][0]), ex[0][1])
            cds = [e for e in ex if rng.random() < 0.4] if rng.random() < 0.5 else []
            txs.append({"tid": "RT%d_%d" % (g, k), "exons": ex, "cds": cds})
        gs = min(t["exons"][0][0] for t in txs)
        ge = max(t["exons"][-1][1] for t in txs)
        genes.append({"gid": "RG%d" % g, "strand": strand, "start": gs, "end": ge, "transcripts": txs})
        pos = ge + rng.choice([-200, 50, 1000]) if ge > 300 else ge + 50
        pos = max(pos, 1)
    return {"chr": "c1", "genes": genes}


def annotation_gtf(ann):
    out = []
    c = ann["chr"]
    for g in ann["genes"]:
        out.append('%s\tsyn\tgene\t%d\t%d\t.\t%s\t.\tgene_id "%s";' % (c, g["start"], g["end"], g["strand"], g["gid"]))
        for t in g["transcripts"]:
            out.append('%s\tsyn\ttranscript\t%d\t%d\t.\t%s\t.\tgene_id "%s"; transcript_id "%s";'
                       % (c, t["exons"][0][0], t["exons"][-1][1], g["strand"], g["gid"], t["tid"]))
            for a, b in t["exons"]:
                out.append('%s\tsyn\texon\t%d\t%d\t.\t%s\t.\tgene_id "%s"; transcript_id "%s";'
                           % (c, a, b, g["strand"], g["gid"], t["tid"]))
            for a, b in t["cds"]:
                out.append('%s\tsyn\tCDS\t%d\t%d\t.\t%s\t0\tgene_id "%s"; transcript_id "%s";'
                           % (c, a, b, g["strand"], g["gid"], t["tid"]))
    return "\n".join(out) + "\n"


# ------------------------------------------------------------------------------------------------
# end correction


def end_case(rng, small=False):
    ex = sd_exons(rng, small=small)
    if rng.random() < 0.05:
        ex = []
    apa = rng.choice([0, 1, 2] if small else [0, 10, 50])
    reads = []
    if ex:
        s, e = ex[0][0], ex[-1][1]
        for _ in range(rng.choice([0, 1, 2, 3, 5, 8])):
            w = 6 if small else 120
            rs = s + rng.randint(-w, w)
            re_ = e + rng.randint(-w, w)
            if rng.random() < 0.2:
                rs = ex[0][1] + rng.randint(-1, 2)
            if rng.random() < 0.2:
                re_ = ex[-1][0] + rng.randint(-2, 1)
            if rng.random() < 0.05:
                rs = 0
            reads.append((rs, re_))
    return {"exons": ex, "reads": reads, "apa": apa}


def intron_path_case(rng, small=False):
    """a transcript range and an intron path; mostly strictly increasing and inside the range"""
    ex = sd_exons(rng, n=rng.randint(2, 6), small=small)
    # make sure gaps exist between the exons
    fixed = [ex[0]]
    for a, b in ex[1:]:
        pa, pb = fixed[-1]
        if a <= pb + 1:
            a, b = pb + 2, pb + 2 + (b - a)
        fixed.append((a, b))
    introns = [(fixed[i][1] + 1, fixed[i + 1][0] - 1) for i in range(len(fixed) - 1)]
    region = (fixed[0][0], fixed[-1][1])
    r = rng.random()
    if r < 0.1 and len(introns) > 1:
        i = rng.randrange(len(introns) - 1)
        introns[i], introns[i + 1] = introns[i + 1], introns[i]       # violates the assumption interface
    elif r < 0.15:
        region = (introns[0][0] + 1, region[1])                         # range starts inside the first intron
    return {"r": region, "l": introns}


# ------------------------------------------------------------------------------------------------
# chromosome names for the natural merge order

CHR_POOL = ["chr1", "chr2", "chr10", "chr11", "chr20", "chrX", "chrY", "chrM", "chr1_random", "chrUn_KI270302v1",
            "1", "2", "10", "X", "MT", "scaffold_12", "scaffold_3", "Chr3", "chr03", "contig7b", "2L", "2R", "a", "B",
            # a reference name may start with '#' (legal first character in the SAM specification): every record of the
            # per-chromosome GTF / BED of such a contig starts with '#'
            "#c1", "#2", "##x"]


def chr_names(rng):
    k = rng.randint(1, 7)
    return rng.sample(CHR_POOL, k)


# ------------------------------------------------------------------------------------------------
# pipeline datasets


def _tx_variants(rng, exons):
    """known isoforms derived from a base exon chain: full, exon skipping, short 5' / 3' isoforms"""
    txs = [list(exons)]
    if len(exons) >= 4 and rng.random() < 0.7:
        k = rng.randint(1, len(exons) - 2)
        txs.append(exons[:k] + exons[k + 1:])
    return txs


def pipeline_dataset(seed, n_chroms=3, split_locus=True, chrom_names=None, reads_per=7):
    """genome with several chromosomes; per chromosome: multi-isoform genes with reads for known isoforms,
    reads following exon chains absent from the annotation (skipped exon, novel terminal exon beyond the gene
    end, novel intergenic multi-exon and mono-exon loci), and - when split_locus - one long gene whose reads
    fall in two separate read regions with a novel isoform in the second one.
    Returns (Dataset, meta) where meta records which loci are split."""
    ds = synth.Dataset(seed)
    rng = ds.rng
    names = chrom_names or ["chr1", "chr2", "chr10", "chrX"][:n_chroms]
    meta = {"split_genes": [], "chroms": names}
    rid = [0]

    def reads_for(chrom, ex, strand, n, jitter=30, tails=True):
        for _ in range(n):
            e = list(ex)
            e[0] = (e[0][0] + rng.randint(0, jitter), e[0][1])
            e[-1] = (e[-1][0], e[-1][1] - rng.randint(0, jitter))
            pa = 25 if (tails and strand == "+") else 0
            pt = 25 if (tails and strand == "-") else 0
            if strand == "+":
                e[-1] = (e[-1][0], ex[-1][1])       # polyA reads end at the transcript end
            elif strand == "-":
                e[0] = (ex[0][0], e[0][1])
            rid[0] += 1
            ds.read_from_exons("r%d" % rid[0], chrom, e, polya=pa, polyt=pt)

    for ci, chrom in enumerate(names):
        clen = rng.choice([80000, 100000, 120000])
        ds.add_chrom(chrom, clen)
        pos = rng.randint(800, 2000)
        for gi in range(rng.randint(2, 3)):
            strand = rng.choice("+-")
            nex = rng.randint(3, 6)
            exons = []
            p = pos
            for _ in range(nex):
                ln = rng.randint(120, 350)
                exons.append((p, p + ln - 1))
                p += ln + rng.randint(300, 1200)
            txs = _tx_variants(rng, exons)
            gid = "G_%s_%d" % (chrom, gi)
            ds.add_gene(chrom, gid, strand, [("T_%s_%d_%d" % (chrom, gi, k), t) for k, t in enumerate(txs)])
            for t in txs:
                reads_for(chrom, t, strand, reads_per)
            # novel: skip another exon / novel terminal exon beyond the gene end
            r = rng.random()
            if r < 0.5 and nex >= 4:
                known = {tuple(t) for t in txs}
                for k in range(1, nex - 1):
                    nov = exons[:k] + exons[k + 1:]
                    if tuple(nov) not in known:
                        reads_for(chrom, nov, strand, reads_per + 2)
                        break
            elif r < 0.85:
                ext = (exons[-1][1] + rng.randint(300, 700), 0)
                ext = (ext[0], ext[0] + rng.randint(150, 300))
                if strand == "+":
                    nov = exons[-2:] + [ext]
                    ds.plant_sites(chrom, [(exons[-1][1] + 1, ext[0] - 1)], strand)
                else:
                    pre = (max(1, exons[0][0] - rng.randint(450, 800)), 0)
                    pre = (pre[0], pre[0] + 140)
                    nov = [pre] + exons[:2]
                    ds.plant_sites(chrom, [(pre[1] + 1, exons[0][0] - 1)], strand)
                    p = max(p, 0)
                reads_for(chrom, nov, strand, reads_per + 2)
                p = max(p, nov[-1][1] + 300)
            pos = p + rng.randint(1500, 3000)
        # a gene whose novel isoform uses only annotated introns in a new combination (novel_in_catalog)
        strand = rng.choice("+-")
        ex = []
        p = pos
        for _ in range(5):
            ln = rng.randint(130, 300)
            ex.append((p, p + ln - 1))
            p += ln + rng.randint(300, 900)
        ds.add_gene(chrom, "GN_%s" % chrom, strand,
                    [("TN_%s_full" % chrom, ex), ("TN_%s_a" % chrom, [ex[0], ex[2], ex[3], ex[4]]),
                     ("TN_%s_b" % chrom, [ex[0], ex[1], ex[2], ex[4]])])
        for t in (ex, [ex[0], ex[2], ex[3], ex[4]], [ex[0], ex[1], ex[2], ex[4]]):
            reads_for(chrom, t, strand, reads_per)
        reads_for(chrom, [ex[0], ex[2], ex[4]], strand, reads_per + 3)
        pos = p + rng.randint(1500, 3000)
        # intergenic novel multi-exon locus and a novel mono-exon locus
        strand = rng.choice("+-")
        nov = []
        p = pos
        for _ in range(rng.randint(2, 4)):
            ln = rng.randint(150, 300)
            nov.append((p, p + ln - 1))
            p += ln + rng.randint(400, 900)
        ds.plant_sites(chrom, [(nov[i][1] + 1, nov[i + 1][0] - 1) for i in range(len(nov) - 1)], strand)
        reads_for(chrom, nov, strand, reads_per + 3)
        pos = p + 2500
        mono = [(pos, pos + rng.randint(400, 900))]
        reads_for(chrom, mono, rng.choice("+-"), reads_per + 3, jitter=5)
        pos = mono[0][1] + 3000
        if split_locus and ci % 2 == 0:
            # one long gene: short 5' isoform, long isoform, short 3' isoform; reads only for the two short ones
            # (two read regions far apart) + a novel isoform with a terminal exon beyond the gene end in the
            # region processed second
            strand = "+"
            a = pos
            s5 = [(a, a + 200), (a + 500, a + 700)]
            mid = [(a + 6000, a + 6200)]
            s3 = [(a + 12000, a + 12200), (a + 13000, a + 13300)]
            gid = "GS_%s" % chrom
            ds.add_gene(chrom, gid, strand, [("TS5_%s" % chrom, s5), ("TSL_%s" % chrom, s5 + mid + s3), ("TS3_%s" % chrom, s3)])
            reads_for(chrom, s5, strand, reads_per + 4)
            reads_for(chrom, s3, strand, reads_per + 4)
            ext = (s3[-1][1] + 700, s3[-1][1] + 1100)
            ds.plant_sites(chrom, [(s3[-1][1] + 1, ext[0] - 1)], strand)
            reads_for(chrom, s3 + [ext], strand, reads_per + 4)
            meta["split_genes"].append(gid)
            pos = ext[1] + 3000
        if split_locus and ci % 2 == 1:
            # a single-isoform gene with a long intron whose reads never span it: truncated reads of the 5' half and reads of
            # the 3' half form two separate read regions, and the SAME annotated isoform is supported in both of them
            # (a known isoform must still be reported once)
            strand = "+"
            a = pos
            head = [(a, a + 200), (a + 500, a + 700), (a + 1000, a + 1200)]
            tail = [(a + 10200, a + 10400), (a + 10700, a + 10900), (a + 11200, a + 11500)]
            gid = "GL_%s" % chrom
            ds.add_gene(chrom, gid, strand, [("TL_%s" % chrom, head + tail)])
            reads_for(chrom, head, ".", reads_per + 2, jitter=10, tails=False)
            reads_for(chrom, tail, ".", reads_per + 2, jitter=10, tails=False)
            meta["split_genes"].append(gid)
            meta.setdefault("same_isoform_two_regions", []).append("TL_%s" % chrom)
            pos = tail[-1][1] + 3000
        assert pos < clen - 100, "chromosome too short for the generated loci"
    return ds, meta


def antisense_dataset(seed, reference_antisense=True, n_chroms=2, reads_per=9):
    """loci where genes of both strands overlap inside one read region, so that `TranscriptToGeneJoiner` sees, in one
    call, (a) several novel same-strand isoforms that it legitimately joins into one gene, (b) a further same-strand
    novel gene that stays separate, and (c) an overlapping gene of the OPPOSITE strand (position overlap far above the
    joining threshold) - a reference gene on odd loci when `reference_antisense`, a novel gene otherwise.
    The property requires every gene record to carry the strand of all its transcripts: the opposite-strand gene
    must stay a gene of its own."""
    ds = synth.Dataset(seed)
    rng = ds.rng
    rid = [0]

    def reads_for(chrom, ex, strand, n):
        for _ in range(n):
            e = list(ex)
            if strand == "+":
                e[0] = (e[0][0] + rng.randint(0, 15), e[0][1])
            else:
                e[-1] = (e[-1][0], e[-1][1] - rng.randint(0, 15))
            rid[0] += 1
            ds.read_from_exons("q%d" % rid[0], chrom, e, polya=25 if strand == "+" else 0, polyt=25 if strand == "-" else 0)

    def introns(ex):
        return [(ex[i][1] + 1, ex[i + 1][0] - 1) for i in range(len(ex) - 1)]

    for ci in range(n_chroms):
        chrom = "chr%d" % (ci + 1)
        ds.add_chrom(chrom, 60000)
        pos = rng.randint(1500, 2500)
        for li in range(3):
            fwd = "+" if (li + ci) % 2 == 0 else "-"
            rev = "-" if fwd == "+" else "+"
            p = pos
            w = rng.randint(180, 240)
            gap = rng.randint(380, 460)
            # forward-strand exon ladder E1..E4 (period w + 2*gap + w') with antisense exons in the middle of its introns
            E = []
            x = p
            for _ in range(4):
                E.append((x, x + w))
                x += w + 2 * gap + 200
            Gx = [(E[i][1] + gap // 2, E[i][1] + gap // 2 + 200 + gap) for i in range(3)]
            Gx = [(a, min(b, E[i + 1][0] - 60)) for i, (a, b) in enumerate(Gx)]
            iso_a = E
            iso_b = [E[0], E[2], E[3]]
            iso_c = [E[0], E[1], E[3]]
            # a further same-strand novel gene overlapping the last exon only slightly (stays a gene of its own)
            F = [(E[3][1] - 40, E[3][1] + 260), (E[3][1] + 700, E[3][1] + 950)]
            for ex in (iso_a, iso_b, iso_c, F):
                ds.plant_sites(chrom, introns(ex), fwd)
            ds.plant_sites(chrom, introns(Gx), rev)
            for ex in (iso_a, iso_b, iso_c):
                reads_for(chrom, ex, fwd, reads_per)
            reads_for(chrom, F, fwd, reads_per)
            reads_for(chrom, Gx, rev, reads_per + 2)
            if reference_antisense and li % 2 == 1:
                ds.add_gene(chrom, "GA_%s_%d" % (chrom, li), rev, [("TA_%s_%d" % (chrom, li), Gx)], plant=False)
            elif reference_antisense and li == 2:
                ds.add_gene(chrom, "GF_%s_%d" % (chrom, li), fwd, [("TF_%s_%d" % (chrom, li), iso_a)], plant=False)
            pos = F[-1][1] + rng.randint(2500, 4000)
        # one plain annotated gene so that the annotation is never empty
        ex = [(pos, pos + 200), (pos + 700, pos + 900)]
        ds.add_gene(chrom, "GP_%s" % chrom, "+", [("TP_%s" % chrom, ex)])
        reads_for(chrom, ex, "+", reads_per)
    return ds
