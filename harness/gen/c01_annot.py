"""Seeded generators of annotations (isoform lists of one overlapping-gene cluster) and of reads derived from them
(C01).  Everything random comes from the `rng` passed in.

An annotation is a list of dicts  {"id": "t0003", "gene": "g1", "strand": "+", "exons": [(a, b), ...]}  whose ids are
zero-padded so that the string order of the ids is the list order (the model uses list positions as ids).
"""

PRESETS = ["exact", "precise", "default", "loose"]


def _chain(rng, start, n_exons, exon_len, intron_len):
    exons = []
    p = start
    for _ in range(n_exons):
        ln = rng.randint(*exon_len)
        exons.append((p, p + ln - 1))
        p += ln + rng.randint(*intron_len)
    return exons


def variants(rng, base, scale):
    """alternative isoforms of a base chain: each returns a sorted disjoint exon list (or None)"""
    n = len(base)
    out = []

    def ok(ex):
        return ex and all(a <= b for a, b in ex) and all(ex[i][1] + 1 < ex[i + 1][0] for i in range(len(ex) - 1))

    small = [0, 1, 2, 3, 4, 5, 6, 7, 12, 13]
    big = [int(20 * scale), int(60 * scale), int(150 * scale)]
    for _ in range(rng.randint(0, 5)):
        kind = rng.choice(["skip", "alt5", "alt3", "retain", "trunc_l", "trunc_r", "ext_l", "ext_r", "mono", "sub", "novel_exon",
                           "micro_exon", "one_intron"])
        ex = list(base)
        if kind == "skip" and n >= 3:
            i = rng.randint(1, n - 2)
            j = rng.randint(i, min(n - 2, i + 1))
            ex = ex[:i] + ex[j + 1:]
        elif kind == "alt5" and n >= 2:
            i = rng.randint(0, n - 2)
            d = rng.choice(small + big) * rng.choice([-1, 1])
            ex[i] = (ex[i][0], ex[i][1] + d)
        elif kind == "alt3" and n >= 2:
            i = rng.randint(1, n - 1)
            d = rng.choice(small + big) * rng.choice([-1, 1])
            ex[i] = (ex[i][0] + d, ex[i][1])
        elif kind == "retain" and n >= 2:
            i = rng.randint(0, n - 2)
            ex = ex[:i] + [(ex[i][0], ex[i + 1][1])] + ex[i + 2:]
        elif kind == "trunc_l" and n >= 2:
            i = rng.randint(1, n - 1)
            ex = ex[i:]
            if rng.random() < 0.5:
                ex[0] = (ex[0][0] - rng.choice(small + big), ex[0][1])
        elif kind == "trunc_r" and n >= 2:
            i = rng.randint(1, n - 1)
            ex = ex[:i]
            if rng.random() < 0.5:
                ex[-1] = (ex[-1][0], ex[-1][1] + rng.choice(small + big))
        elif kind == "ext_l":
            ex[0] = (ex[0][0] - rng.choice(small + big), ex[0][1])
        elif kind == "ext_r":
            ex[-1] = (ex[-1][0], ex[-1][1] + rng.choice(small + big))
        elif kind == "mono":
            i = rng.randint(0, n - 1)
            ex = [(ex[i][0] - rng.choice([0, 3, 30]), ex[i][1] + rng.choice([0, 3, 30]))]
        elif kind == "sub" and n >= 3:
            i = rng.randint(0, n - 2)
            j = rng.randint(i + 1, n - 1)
            ex = ex[i:j + 1]
        elif kind == "novel_exon" and n >= 2:
            i = rng.randint(0, n - 2)
            a, b = ex[i][1] + 1, ex[i + 1][0] - 1
            if b - a > 8:
                s = rng.randint(a + 2, b - 4)
                e = rng.randint(s, min(b - 2, s + int(100 * scale)))
                ex = ex[:i + 1] + [(s, e)] + ex[i + 1:]
        elif kind == "micro_exon" and n >= 2:
            # an extra exon of 1..7 bases (shorter than / around delta) inside an intron, or an inner exon shrunk to a micro-exon
            i = rng.randint(0, n - 2)
            a, b = ex[i][1] + 1, ex[i + 1][0] - 1
            ln = rng.randint(1, 7)
            if rng.random() < 0.6 and b - a > ln + 4:
                s = rng.randint(a + 2, b - ln - 1)
                ex = ex[:i + 1] + [(s, s + ln - 1)] + ex[i + 1:]
            elif n >= 3:
                j = rng.randint(1, n - 2)
                ex[j] = (ex[j][0], min(ex[j][1], ex[j][0] + ln - 1))
        elif kind == "one_intron" and n >= 3:
            # shares every intron of the base chain but one: one donor or acceptor moved by 1..delta-ish or far
            i = rng.randint(0, n - 2)
            d = rng.choice([1, 2, 3, 4, 5, 6, 7, 12, 13, int(40 * scale) + 14]) * rng.choice([-1, 1])
            if rng.random() < 0.5:
                ex[i] = (ex[i][0], ex[i][1] + d)
            else:
                ex[i + 1] = (ex[i + 1][0] + d, ex[i + 1][1])
        if ok(ex) and ex[0][0] >= 1:
            out.append(ex)
    return out


def rand_annotation(rng, scale=1.0, max_genes=3):
    """one cluster of (possibly overlapping, possibly antisense) genes; `scale` shrinks all lengths (tiny universes)"""
    exon_len = (max(1, int(20 * scale)), max(2, int(400 * scale)))
    intron_len = (max(2, int(30 * scale)), max(3, int(2000 * scale)))
    isoforms = []
    n_genes = rng.randint(1, max_genes)
    pos = rng.randint(max(5, int(200 * scale)), max(10, int(1000 * scale)))
    for gi in range(n_genes):
        strand = rng.choice("+-")
        n = rng.choice([1, 2, 2, 3, 3, 4, 5, 6, 8])
        base = _chain(rng, pos, n, exon_len, intron_len)
        chains = [base] + variants(rng, base, scale)
        seen = set()
        for ex in chains:
            key = tuple(ex)
            if key in seen:
                continue
            seen.add(key)
            isoforms.append({"gene": "g%d" % gi, "strand": strand, "exons": [tuple(e) for e in ex]})
        # the next gene overlaps this one (same or opposite strand) or follows at a short distance
        span = base[-1][1] - base[0][0]
        mode = rng.choice(["overlap", "inside", "after", "after"])
        if mode == "overlap":
            pos = base[0][0] + rng.randint(0, max(1, span))
        elif mode == "inside" and len(base) >= 2:
            i = rng.randint(0, len(base) - 2)
            pos = base[i][1] + rng.randint(2, max(3, base[i + 1][0] - base[i][1] - 1))
        else:
            pos = base[-1][1] + rng.randint(max(2, int(10 * scale)), max(3, int(500 * scale)))
    rng.shuffle(isoforms)
    for i, t in enumerate(isoforms):
        t["id"] = "t%04d" % i
    return isoforms


def big_annotation(rng):
    """one gene whose cluster has >= 128 distinct annotated introns (big genes such as TTN / NEB: seed C01_a4 - code that
    treats long feature lists differently from short ones): a base chain of 130..170 exons and its `variants`"""
    n = rng.randint(130, 170)
    base = _chain(rng, rng.randint(500, 3000), n, (60, 300), (90, 1500))
    strand = rng.choice("+-")
    isoforms = []
    seen = set()
    for ex in [base] + variants(rng, base, 1.0)[:3]:
        key = tuple(ex)
        if key in seen or not valid_blocks(ex):
            continue
        seen.add(key)
        isoforms.append({"gene": "g0", "strand": strand, "exons": [tuple(e) for e in ex]})
    for i, t in enumerate(isoforms):
        t["id"] = "t%04d" % i
    return isoforms


def intron_start_read(rng, exons):
    """a read that STARTS inside an annotated intron (20..300 retained bases in front of an internal exon, no junction
    upstream) and then follows the isoform for 0..3 exons, or the mirror image (ends inside an intron)"""
    n = len(exons)
    if n < 4:
        return None
    i = rng.randint(1, n - 3)
    j = min(n - 2, i + rng.randint(0, 3))
    blocks = [tuple(e) for e in exons[i:j + 1]]
    if rng.random() < 0.7:
        gap = exons[i][0] - exons[i - 1][1] - 1
        ret = min(rng.choice([20, 25, 60, 300]), gap - 3)
        if ret < 1:
            return None
        blocks[0] = (blocks[0][0] - ret, blocks[0][1])
    else:
        gap = exons[j + 1][0] - exons[j][1] - 1
        ret = min(rng.choice([20, 25, 60, 300]), gap - 3)
        if ret < 1:
            return None
        blocks[-1] = (blocks[-1][0], blocks[-1][1] + ret)
    return blocks


def introns_of(exons):
    return [(exons[i][1] + 1, exons[i + 1][0] - 1) for i in range(len(exons) - 1) if exons[i][1] + 1 < exons[i + 1][0]]


def valid_blocks(ex):
    return bool(ex) and all(a <= b for a, b in ex) and all(ex[i][1] < ex[i + 1][0] for i in range(len(ex) - 1)) and ex[0][0] >= 1


def follow_read(rng, exons, delta, truncate=True, jitter=True, end_slack=0):
    """blocks following an isoform: optional 5'/3' truncation (ends inside exons), per-site jitter of at most delta"""
    ex = [list(e) for e in exons]
    n = len(ex)
    if truncate and n >= 2 and rng.random() < 0.6:
        i = rng.randint(0, n - 1)
        j = rng.randint(i, n - 1)
        ex = ex[i:j + 1]
    if jitter and delta > 0:
        for k in range(len(ex) - 1):
            if rng.random() < 0.5:
                ex[k][1] += rng.randint(-delta, delta)
            if rng.random() < 0.5:
                ex[k + 1][0] += rng.randint(-delta, delta)
    # ends: inside the terminal exon of the (truncated) chain, or slightly beyond
    l0 = ex[0][1] - ex[0][0]
    ex[0][0] += rng.randint(-end_slack, max(0, l0 // 2))
    l1 = ex[-1][1] - ex[-1][0]
    ex[-1][1] -= rng.randint(-end_slack, max(0, l1 // 2))
    ex = [tuple(e) for e in ex]
    return ex if valid_blocks(ex) else None


def follow_border_read(rng, exons, meo):
    """EXACT sub-chain of the isoform whose two ends sit at / next to exon borders or make the first / last block
    exactly as long as the thresholds of the forward clause (minimal_exon_overlap, 2*minimal_exon_overlap - 1) +- 1"""
    ex = [list(e) for e in exons]
    n = len(ex)
    i = rng.randint(0, n - 1)
    j = rng.randint(i, n - 1)
    ex = ex[i:j + 1]
    lens = [1, 2, meo - 1, meo, meo + 1, 2 * meo - 2, 2 * meo - 1, 2 * meo]

    def pick(lo, hi, from_end):
        # a position in [lo, hi]: a border, next to a border, or a threshold length away from the other border
        c = [lo, lo + 1, hi, hi - 1, (lo + hi) // 2]
        c += [(hi - ln + 1) if from_end else (lo + ln - 1) for ln in lens if ln >= 1]
        c = [x for x in c if lo <= x <= hi]
        return rng.choice(c)

    if len(ex) == 1:
        a = pick(ex[0][0], ex[0][1], True)
        b = pick(a, ex[0][1], False) if rng.random() < 0.7 else ex[0][1]
        ex[0] = [a, b]
    else:
        ex[0][0] = pick(ex[0][0], ex[0][1], True)
        ex[-1][1] = pick(ex[-1][0], ex[-1][1], False)
    ex = [tuple(e) for e in ex]
    return ex if valid_blocks(ex) else None


def follows_exact(exons, blocks):
    """Python form of Lean `FollowsExact`: offset a such that block j lies in exon a + j, sharing its start unless j = 0
    and its end unless it is the last block; returns a or None"""
    m = len(blocks)
    for a in range(0, len(exons) - m + 1):
        ok = True
        for j, b in enumerate(blocks):
            e = exons[a + j]
            if not (e[0] <= b[0] and b[1] <= e[1]):
                ok = False
            if j > 0 and b[0] != e[0]:
                ok = False
            if j + 1 < m and b[1] != e[1]:
                ok = False
            if not ok:
                break
        if ok:
            return a
    return None


def follow_hyp(isoforms, params, ti, blocks, polya):
    """Python form of Lean `FollowHyp` (Lemmas/C01Follow.lean), position only"""
    def gapped(ex):
        return bool(ex) and all(a <= b for a, b in ex) and all(ex[k][1] + 1 < ex[k + 1][0] for k in range(len(ex) - 1))

    def sd(ex):
        return bool(ex) and all(a <= b for a, b in ex) and all(ex[k][1] < ex[k + 1][0] for k in range(len(ex) - 1))

    d = params.delta
    if d < 0 or params.min_abs_exon_overlap < 0:
        return False
    if not all(sd(t["exons"]) and t["exons"][0][0] >= 0 for t in isoforms):
        return False
    T = isoforms[ti]["exons"]
    if not gapped(T) or not gapped(blocks):
        return False
    for t in isoforms:
        if any(b - a < d for a, b in introns_of(t["exons"])):
            return False
    if follows_exact(T, blocks) is None:
        return False
    ri = introns_of(blocks)
    if any(ri[k][1] + d >= ri[k + 1][0] for k in range(len(ri) - 1)):
        return False
    # `hsingle` (proof-closure round: `block_has_atom` takes the symmetric hypothesis since fix 48e5811): no length condition
    # for spliced reads - every block shares an end with its exon; a single-block read is at least 2*meo - 1 long or shares
    # one of its ends with the exon of T it lies in
    ln = blocks[0][1] - blocks[0][0] + 1
    meo = params.minimal_exon_overlap
    if len(blocks) == 1 and ln < 2 * meo - 1:
        b0, b1 = blocks[0]
        if not any(e[0] <= b0 and b1 <= e[1] and (b0 == e[0] or b1 == e[1]) for e in T):
            return False
    return polya[0] == -1 and polya[1] == -1


def far_read(rng, exons, scale=1.0):
    """blocks that differ from the isoform by a large structural change"""
    ex = [list(e) for e in exons]
    n = len(ex)
    big = max(3, int(200 * scale))
    kind = rng.choice(["skip", "novel_exon", "retain", "shift5", "shift3", "extend_l", "extend_r", "novel_intron"])
    if kind == "skip" and n >= 3:
        i = rng.randint(1, n - 2)
        ex = ex[:i] + ex[i + 1:]
    elif kind == "novel_exon" and n >= 2:
        i = rng.randint(0, n - 2)
        a, b = ex[i][1] + 1, ex[i + 1][0] - 1
        if b - a > big + 10:
            s = rng.randint(a + 3, b - big - 3)
            ex = ex[:i + 1] + [[s, s + big]] + ex[i + 1:]
    elif kind == "retain" and n >= 2:
        i = rng.randint(0, n - 2)
        ex = ex[:i] + [[ex[i][0], ex[i + 1][1]]] + ex[i + 2:]
    elif kind == "shift5" and n >= 2:
        i = rng.randint(0, n - 2)
        ex[i][1] += rng.choice([-1, 1]) * rng.randint(max(2, int(50 * scale)), big)
    elif kind == "shift3" and n >= 2:
        i = rng.randint(1, n - 1)
        ex[i][0] += rng.choice([-1, 1]) * rng.randint(max(2, int(50 * scale)), big)
    elif kind == "extend_l":
        ex[0][0] -= rng.randint(big, 3 * big)
    elif kind == "extend_r":
        ex[-1][1] += rng.randint(big, 3 * big)
    elif kind == "novel_intron":
        i = rng.randint(0, n - 1)
        a, b = ex[i]
        if b - a > 12:
            s = rng.randint(a + 3, b - 8)
            e = rng.randint(s + 2, b - 3)
            ex = ex[:i] + [[a, s], [e, b]] + ex[i + 1:]
    ex = [tuple(e) for e in ex]
    return ex if valid_blocks(ex) else None


def fake_outer_read(rng, blocks, max_fake, scale=1.0):
    """audit C01-G1 (fake terminal exon + overhang of the NEXT exon): a short outermost exon - around
    max_fake_terminal_exon_len, or any length up to it - added beyond one or both ends of `blocks`, the adjacent exon
    left alone or extended by a tolerated / minor / major amount"""
    b = [list(x) for x in blocks]
    for side in rng.sample(["l", "r"], rng.choice([1, 1, 2])):
        if rng.random() < 0.5:
            ln = max(1, max_fake + rng.choice([-3, -1, 0, 0, 1, 2]))
        else:
            ln = rng.randint(1, max(1, max_fake))
        gap = rng.randint(1, max(2, int(600 * scale)))
        ext = rng.choice([0, 0, rng.randint(1, max(1, int(60 * scale))), rng.randint(1, max(2, int(700 * scale)))])
        if side == "l":
            b[0][0] -= ext
            e = b[0][0] - gap - 1
            b.insert(0, [e - ln + 1, e])
        else:
            b[-1][1] += ext
            e = b[-1][1] + gap + 1
            b.append([e, e + ln - 1])
    b = [tuple(x) for x in b]
    return b if valid_blocks(b) and b[0][0] >= 1 else None


def random_blocks(rng, lo, hi, max_blocks=6):
    """arbitrary sorted disjoint blocks around [lo, hi]"""
    n = rng.randint(1, max_blocks)
    span = max(4, hi - lo)
    pts = sorted(rng.randint(max(1, lo - span // 4), hi + span // 4) for _ in range(2 * n))
    ex = []
    for i in range(n):
        a, b = pts[2 * i], pts[2 * i + 1]
        if ex and a <= ex[-1][1]:
            continue
        ex.append((a, b))
    return ex if valid_blocks(ex) else None


def rand_polya(rng, blocks, iso, scale=1.0):
    """(external_polya, external_polyt, internal_polya, internal_polyt); mostly absent, else near the read / isoform ends"""
    r = rng.random()
    if r < 0.55:
        return (-1, -1, -1, -1)
    end, start = blocks[-1][1], blocks[0][0]
    w = max(2, int(60 * scale))

    def near(x):
        return max(1, x + rng.randint(-w, w) if rng.random() < 0.4 else x + rng.choice([0, 1, 1, 2]))

    ea = et = ia = it = -1
    side = rng.choice(["a", "t", "both"]) if iso is None else ("a" if iso["strand"] == "+" else "t")
    if rng.random() < 0.15:
        side = rng.choice(["a", "t", "both"])
    if side in ("a", "both"):
        which = rng.random()
        if which < 0.6:
            ea = near(end)
        elif which < 0.8:
            ia = max(1, end - rng.randint(0, w))
        else:
            ea = near(end)
            ia = max(1, end - rng.randint(0, w))
    if side in ("t", "both"):
        which = rng.random()
        if which < 0.6:
            et = max(1, start - rng.choice([0, 1, 1, 2]) if rng.random() < 0.6 else start + rng.randint(-w, w))
        elif which < 0.8:
            it = max(1, start + rng.randint(0, w))
        else:
            et = max(1, start - rng.choice([0, 1, 2]))
            it = max(1, start + rng.randint(0, w))
    return (ea, et, ia, it)
