"""Seeded multi-chromosome inputs for C06 (schedule / hash-seed / memory-mode independence).

`build(rng)` returns a `synth.Dataset` with
  * 3-4 chromosomes of distinct lengths whose names sort differently under the natural key of
    `merge_files`, plain string order and the by-length order of `get_chr_list` (chr1, chr2, chr10, chrX);
  * per chromosome: a multi-isoform gene, a locus of 2-3 overlapping genes that share exons and introns
    (exon/intron rows whose `gene_ids` column joins several ids), a mono-exon gene, a gene covered by
    reads of an un-annotated exon combination and an intergenic spliced read cluster (novel transcript /
    gene / exon ids), an annotated gene without reads;
  * a locus in which one transcript structure is listed under two gene ids (merged annotation sources: both genes
    share every intron) with reads of an un-annotated exon combination (tie in `select_reference_gene`);
  * IsoQuant-style ids in the annotation (`novel_gene_<chr>_<N>`, `transcript<N>.<chr>.nnic`, small N that differ
    between chromosomes): what a reference produced by an earlier IsoQuant run looks like; the numbers are
    reserved by `ExcludingIdDistributor` per chromosome;
  * at identical coordinates on every chromosome an intergenic spliced read cluster whose introns are canonical on
    the `+` strand on every second chromosome and on the `-` strand on the others (a strand looked up for
    `(start, end)` on one chromosome is wrong on the next);
  * a one-transcript gene per chromosome hit by the secondary alignments of multi-mapped reads whose primary alignment
    is intergenic: exon skipping on one chromosome, intron retention on another (inconsistent alignments with different
    penalties, no consistent one);
  * reads named `<id>_<group>` for `--read_group read_id:_` with 3-5 group labels, polyA tails;
  * multimappers: secondary alignments of the same read name on another chromosome and on the same one.
`build(rng, chrom_names=EQUAL_KEY_CHROMS)` is the same world on contigs with equal natural sort keys (audit G8).
Everything random comes from the `random.Random` passed in.
"""
import random

from gen import synth

GROUP_POOL = ["gA", "gB", "k7", "Zeta", "m10", "m9", "x", "liver", "brain", "ctl"]
CHR_POOL = ["chr1", "chr2", "chr10", "chrX", "chr3", "chr21"]
# hypothesis audit G8: contigs whose natural sort keys (`merge_files`: digits as numbers, text lower-cased) are EQUAL -
# chr1, Chr1, chr01, chr001 all have the key ["chr", 1, ""].  `merge_order_of_perm` (C06) assumes distinct keys; the
# merged order among equal keys is the order `get_chr_list` hands over (by length, stable on the FASTA order), so the
# outputs must still not depend on threads / hash seed / memory mode.  Passed as `build(rng, chrom_names=...)`.
EQUAL_KEY_CHROMS = ["chr1", "Chr1", "chr01", "chr001", "chr2"]
# audit2-B GAP C06-1: contigs whose auxiliary files share a name - `<save>_chr1_groups` is the read-group dump of chr1 AND the
# save file of the contig chr1_groups, `<save>_chr2_bamstat` the alignment statistics of chr2 AND the save file of
# chr2_bamstat.  Unrepaired tree: which task writes last depends on the schedule (`--threads 1` exit 0, `--threads 2`
# AssertionError / EOFError in some runs) -> C06 `exit_status_differs:threads`.  Repaired tree
# (fix_chromosome_file_names.patch): every configuration refuses the reference at start-up, exit code 254.
# (With `chr1_groups` in the set and --read_group EVERY configuration of the unrepaired tree aborts alike - AssertionError in
# prepare_multimapper_dict, also with --threads 1 -, which is an abort on legal input but no C06 difference; the pair
# chr2 / chr2_bamstat alone gives: threads 1 exit 0 in 3 of 3 runs, threads 2 exit 255 in 2 of 8, threads 4 in 5 of 5.)
AUX_NAME_CHROMS = ["chr1", "chr2", "chr2_bamstat"]


def _exons(rng, start, n, lmin=150, lmax=350, imin=300, imax=1200):
    ex = []
    p = start
    for _ in range(n):
        ln = rng.randint(lmin, lmax)
        ex.append((p, p + ln - 1))
        p += ln + rng.randint(imin, imax)
    return ex, p


def build(rng, n_chroms=3, reads_per_tx=6, chrom_names=None):
    ds = synth.Dataset(rng.randint(0, 10 ** 9))
    names = chrom_names or rng.sample(CHR_POOL, n_chroms)
    groups = rng.sample(GROUP_POOL, rng.randint(3, 5))
    rid = [0]
    meta = {"groups": sorted(groups), "chroms": list(names), "multi_gene_features": 0, "novel_loci": 0,
            "multimappers": 0}

    def rname():
        rid[0] += 1
        return "r%d_%s" % (rid[0], rng.choice(groups))

    lengths = rng.sample(range(62000, 92000, 1000), len(names))
    loci = {}
    inc = {}
    for ci, chrom in enumerate(names):
        ds.add_chrom(chrom, lengths[ci])
        # 0. same coordinates on every chromosome, canonical splice sites on alternating strands, no annotation
        strand0 = "+" if ci % 2 == 0 else "-"
        ex0 = [(300, 520), (900, 1130), (1500, 1760), (2100, 2350)]
        ds.plant_sites(chrom, [(ex0[i][1] + 1, ex0[i + 1][0] - 1) for i in range(len(ex0) - 1)], strand0)
        pos = 3400
        tag = chrom.replace("chr", "c")
        loci[chrom] = []

        def reads_for(ex, strand, n, trunc=True, name_fn=rname, **kw):
            out = []
            for _ in range(n):
                e = list(ex)
                if trunc and len(e) > 2 and rng.random() < 0.25:
                    e = e[1:] if rng.random() < 0.5 else e[:-1]
                e[0] = (e[0][0] + rng.randint(0, 30), e[0][1])
                e[-1] = (e[-1][0], e[-1][1] - rng.randint(0, 30))
                full3 = (strand == "+" and e[-1][0] == ex[-1][0]) or (strand == "-" and e[0][1] == ex[0][1])
                tail = 25 if (full3 and rng.random() < 0.8) else 0
                nm = name_fn()
                ds.read_from_exons(nm, chrom, e, polya=tail if strand == "+" else 0,
                                   polyt=tail if strand == "-" else 0, **kw)
                out.append((nm, e))
            return out

        for _ in range(reads_per_tx + 2):
            e = list(ex0)
            e[0] = (e[0][0] + rng.randint(0, 20), e[0][1])
            e[-1] = (e[-1][0], e[-1][1] - rng.randint(0, 20))
            ds.read_from_exons(rname(), chrom, e)          # no tails: the strand comes from the splice sites alone
        meta["same_coordinate_introns"] = meta.get("same_coordinate_introns", 0) + 1

        # 1. multi-isoform gene
        strand = rng.choice("+-")
        ex, pos2 = _exons(rng, pos, rng.randint(4, 6))
        skip = rng.randint(1, len(ex) - 2)
        txs = [("T%s_m_a" % tag, ex), ("T%s_m_b" % tag, ex[:skip] + ex[skip + 1:])]
        ds.add_gene(chrom, "G%s_m" % tag, strand, txs)
        for _, e in txs:
            loci[chrom].append((e, strand))
            reads_for(e, strand, reads_per_tx)
        pos = pos2 + 1500

        # 2. overlapping genes sharing exons / introns (gene_ids column joins several gene ids)
        strand = rng.choice("+-")
        ex, pos2 = _exons(rng, pos, 6)
        ngen = rng.choice([2, 3, 3])
        labels = rng.sample(["alpha", "Bx", "c9", "delta7", "E"], ngen)
        for gi, lab in enumerate(labels):
            sub = ex[gi:gi + 4]
            ds.add_gene(chrom, "G%s_%s" % (tag, lab), strand, [("T%s_%s" % (tag, lab), sub)])
            loci[chrom].append((sub, strand))
            reads_for(sub, strand, reads_per_tx, trunc=False)
        meta["multi_gene_features"] += 1
        pos = pos2 + 1500

        # ids in the style IsoQuant generates itself; numbers differ between chromosomes
        iq = rng.sample(range(1, 10), 3)
        meta.setdefault("isoquant_style_ids", {})[chrom] = sorted(iq)

        # 3. mono-exon gene
        strand = rng.choice("+-")
        ln = rng.randint(600, 1200)
        mono = [(pos, pos + ln)]
        ds.add_gene(chrom, "novel_gene_%s_%d" % (chrom, iq[0]), strand, [("transcript%d.%s.nnic" % (iq[1], chrom), mono)])
        reads_for(mono, strand, reads_per_tx, trunc=False)
        pos += ln + 2000

        # 4. annotated gene with reads of an un-annotated exon combination (novel in catalog)
        strand = "+" if rng.random() < 0.5 else "-"
        ex, pos2 = _exons(rng, pos, 5)
        ds.add_gene(chrom, "G%s_n" % tag, strand, [("T%s_n_a" % tag, ex), ("T%s_n_b" % tag, ex[:2] + ex[3:])])
        reads_for(ex, strand, reads_per_tx, trunc=False)
        nov = [ex[0]] + ex[2:]            # skips exon 1: not annotated
        ds.plant_sites(chrom, [(nov[0][1] + 1, nov[1][0] - 1)], strand)
        reads_for(nov, strand, reads_per_tx + 2, trunc=False)
        loci[chrom].append((ex, strand))
        meta["novel_loci"] += 1
        pos = pos2 + 2500

        # 5. intergenic spliced read cluster (novel gene)
        strand = rng.choice("+-")
        ex, pos2 = _exons(rng, pos, 3)
        ds.plant_sites(chrom, [(ex[i][1] + 1, ex[i + 1][0] - 1) for i in range(len(ex) - 1)], strand)
        reads_for(ex, strand, reads_per_tx + 2, trunc=False)
        meta["novel_loci"] += 1
        pos = pos2 + 2500

        # 6. annotated gene without reads
        strand = rng.choice("+-")
        ex, pos2 = _exons(rng, pos, 3)
        ds.add_gene(chrom, "G%s_silent" % tag, strand, [("transcript%d.%s.nic" % (iq[2], chrom), ex)])
        pos = pos2 + 2000

        # 7. one transcript structure under two gene ids + reads of an un-annotated exon combination: every
        #    annotated intron of the novel isoform belongs to both genes equally often
        strand = rng.choice("+-")
        ex, pos2 = _exons(rng, pos, 5)
        la, lb = rng.sample(["twinP", "Qtwin", "t9w", "MERGED1", "alt", "zz"], 2)
        ds.add_gene(chrom, "G%s_%s" % (tag, la), strand, [("T%s_%s" % (tag, la), ex)])
        ds.add_gene(chrom, "G%s_%s" % (tag, lb), strand, [("T%s_%s" % (tag, lb), ex)])
        reads_for(ex, strand, reads_per_tx, trunc=False)
        nov = ex[:2] + ex[3:]
        ds.plant_sites(chrom, [(nov[1][1] + 1, nov[2][0] - 1)], strand)
        reads_for(nov, strand, reads_per_tx + 2, trunc=False)
        meta["tied_gene_loci"] = meta.get("tied_gene_loci", 0) + 1
        pos = pos2 + 1000

        # 8. one-transcript gene for inconsistent secondary alignments + an empty stretch for intergenic primaries
        ex, pos2 = _exons(rng, pos + 1000, 4)
        ds.add_gene(chrom, "G%s_inc" % tag, "+", [("T%s_inc" % tag, ex)])
        reads_for(ex, "+", 4, trunc=False)
        inc[chrom] = (ex, (pos2 + 300, pos2 + 900))
        pos = pos2 + 1800
        assert pos < lengths[ci] - 500, (pos, lengths[ci])

    # multimappers: same read name aligned to loci of two chromosomes / two loci of one chromosome
    for k in range(rng.randint(4, 8)):
        c1, c2 = rng.sample(names, 2) if rng.random() < 0.75 else [rng.choice(names)] * 2
        (e1, s1), (e2, s2) = rng.choice(loci[c1]), rng.choice(loci[c2])
        if c1 == c2 and e1 == e2:
            continue
        nm = "mm%d_%s" % (k, rng.choice(groups))
        # the secondary follows its locus exactly or only partly (so that resolution has something to decide)
        ds.read_from_exons(nm, c1, list(e1), flag=0, mapq=rng.choice([3, 60]))
        sec = list(e2) if rng.random() < 0.6 else list(e2)[:-1]
        ds.read_from_exons(nm, c2, sec, flag=256, mapq=0)
        if rng.random() < 0.3:
            c3 = rng.choice(names)
            e3, _ = rng.choice(loci[c3])
            if (c3, e3) not in ((c1, e1), (c2, e2)):
                ds.read_from_exons(nm, c3, list(e3), flag=256, mapq=0)
        meta["multimappers"] += 1
    # multi-mapped reads without a consistent alignment: intergenic primary, secondaries skip an exon of one gene and
    # retain an intron of another (different penalties)
    for k in range(rng.randint(2, 4)):
        ca, cb = rng.sample(names, 2)
        cp = rng.choice(names)
        nm = "mi%d_%s" % (k, rng.choice(groups))
        ea, eb = inc[ca][0], inc[cb][0]
        ds.read_from_exons(nm, cp, [inc[cp][1]], flag=0, mapq=rng.choice([1, 60]))
        # (inconsistent alignments below --inconsistent_mapq_cutoff are ignored: the secondaries carry a high MAPQ)
        ds.read_from_exons(nm, ca, [ea[0], ea[2], ea[3]], flag=256, mapq=60)
        ds.read_from_exons(nm, cb, [eb[0], (eb[1][0], eb[2][1]), eb[3]], flag=256, mapq=60)
        meta["inconsistent_multimappers"] = meta.get("inconsistent_multimappers", 0) + 1
    # a read without the group delimiter (falls back to NA) and an unmapped read
    ds.read_from_exons("nodelim", names[0], list(loci[names[0]][0][0]))
    ds.add_read("unm_%s" % groups[0], names[0], 0, "", flag=4)
    ds.meta = meta
    return ds


def build_from_seed(seed, **kw):
    return build(random.Random(seed), **kw)
