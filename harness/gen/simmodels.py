"""Generated model storages for the C04 `detect_similar_isoforms` / `filter_transcripts` correspondence and oracle.

A storage is a list of transcript models derived from one or two base exon chains: the same chain with shifted outer ends
(the offsets sit on the thresholds of the assigner: delta, min_abs_exon_overlap, minimal_exon_overlap, minor/major exon
extension, apa_delta), chains with a skipped / extra exon, a shifted splice site (inside / outside delta), a retained
intron; known and novel models, mono-exon models, different strands; reads (id, outer span, mapq) per model.
Everything random comes from the `rng` handed in.
"""

END_OFFSETS = [0, 0, 0, 3, -3, 6, -6, 7, -7, 10, -10, 11, -11, 40, -40, 50, -50, 51, -51, 60, -60, 100, -100, 300, -300, 301]


def junctions(exons):
    return [(exons[i][1] + 1, exons[i + 1][0] - 1) for i in range(len(exons) - 1)]


def base_chain(rng, n_exons, start, scale=1):
    ex = []
    pos = start
    for k in range(n_exons):
        ln = rng.choice([30, 60, 100, 120, 200, 300]) * scale
        ex.append((pos, pos + ln - 1))
        pos += ln + rng.choice([100, 150, 300, 500]) * scale
    return ex


def vary_ends(rng, exons, offsets=END_OFFSETS, scale=1):
    """same intron chain, outer coordinates moved; terminal exons stay non-empty (sometimes only 1-6 bp long)"""
    ex = [tuple(e) for e in exons]
    ds, de = rng.choice(offsets) * scale, rng.choice(offsets) * scale
    s, e = ex[0][0] - ds, ex[-1][1] + de
    if rng.random() < 0.12:
        s = ex[0][1] - rng.choice([0, 1, 3, 4, 5, 6])
    if rng.random() < 0.12:
        e = ex[-1][0] + rng.choice([0, 1, 3, 4, 5, 6])
    if len(ex) == 1:
        if s > e:
            s, e = e, s
        return [(s, e)]
    s = min(s, ex[0][1])
    e = max(e, ex[-1][0])
    return [(s, ex[0][1])] + ex[1:-1] + [(ex[-1][0], e)]


def variant(rng, exons, delta, scale=1):
    """a structurally different chain derived from `exons`"""
    ex = [tuple(e) for e in exons]
    kind = rng.choice(["skip", "extra_right", "extra_left", "site_in", "site_out", "retain", "drop_first", "drop_last"])
    if kind == "skip" and len(ex) >= 3:
        i = rng.randrange(1, len(ex) - 1)
        ex = ex[:i] + ex[i + 1:]
    elif kind == "extra_right":
        a = ex[-1][1] + rng.choice([100, 300]) * scale
        ex = ex + [(a, a + rng.choice([20, 50, 150]) * scale)]
    elif kind == "extra_left":
        b = ex[0][0] - rng.choice([100, 300]) * scale
        ex = [(b - rng.choice([20, 50, 150]) * scale, b)] + ex
    elif kind in ("site_in", "site_out") and len(ex) >= 2:
        i = rng.randrange(0, len(ex) - 1)
        sh = rng.choice([1, 2, max(delta, 1)]) if kind == "site_in" else delta + rng.choice([1, 2, 10])
        if ex[i][1] + sh < ex[i + 1][0] - 2:
            ex[i] = (ex[i][0], ex[i][1] + sh)
    elif kind == "retain" and len(ex) >= 3:
        i = rng.randrange(0, len(ex) - 1)
        ex = ex[:i] + [(ex[i][0], ex[i + 1][1])] + ex[i + 2:]
    elif kind == "drop_first" and len(ex) >= 3:
        ex = ex[1:]
    elif kind == "drop_last" and len(ex) >= 3:
        ex = ex[:-1]
    return ex


def model_dict(k, exons, strand, known, path=None, novel_type="novel_not_in_catalog"):
    tid = ("K%d" % k) if known else "transcript%d.chr1.%s" % (k, "nic" if novel_type == "novel_in_catalog" else "nnic")
    return {"chr": "chr1", "strand": strand, "tid": tid, "gene": "G1" if known else "novel_gene_chr1_%d" % k,
            "exons": [list(e) for e in exons], "type": "known" if known else novel_type,
            "intron_path": [list(i) for i in (junctions(exons) if path is None else path)]}


def gen_storage(rng, delta, scale=1, nmax=6):
    """-> list of model dicts (ids pairwise distinct)"""
    n_exons = rng.choice([2, 3, 3, 3, 4, 5])
    start = rng.choice([1000, 5000]) * scale
    bases = [base_chain(rng, n_exons, start, scale)]
    if rng.random() < 0.3:
        bases.append(base_chain(rng, rng.choice([3, 4]), start + rng.choice([0, 200, 5000]) * scale, scale))
    strand0 = rng.choice("+-")
    models = []
    for k in range(1, rng.randint(2, nmax) + 1):
        b = rng.choice(bases)
        r = rng.random()
        if r < 0.6:
            ex = vary_ends(rng, b, scale=scale)
        elif r < 0.9:
            ex = vary_ends(rng, variant(rng, b, delta, scale), scale=scale)
        else:
            ex = vary_ends(rng, [b[0]] if rng.random() < 0.5 else b[:2], scale=scale)
        known = rng.random() < 0.2
        strand = strand0 if rng.random() < 0.85 else rng.choice("+-.")
        path = None
        if not known and rng.random() < 0.04:
            path = []                                   # a model without intron_path is never compared
        if known:
            path = []                                   # from_reference_transcript: intron_path = ()
        models.append(model_dict(k, ex, strand, known, path,
                                 "novel_in_catalog" if rng.random() < 0.3 else "novel_not_in_catalog"))
    return models


def negative_storage(rng):
    """malformed stream: coordinates chosen so that an intron START equals a vertex code (-20 polyT / -10 polyA): the only way
    the PolyAInfo conversion of detect_similar_isoforms can fire"""
    first_start = rng.choice([-20, -10])
    a = [(-300, first_start - 1), (60, 120), (200, 260 + rng.choice([0, 40, 100]))]
    b = [(-300 + rng.choice([0, 30, 80, 200]), first_start - 1), (60, 120), (200, 260 + rng.choice([0, 40, 100]))]
    if rng.random() < 0.5:
        # last intron starts at -10: chain entirely left of 0
        a = [(-900, -800), (-600, -500), (-300, -11), (90, 150)]
        b = [(-900 + rng.choice([0, 30, 80]), -800), (-600, -500), (-300, -11), (90, 150 + rng.choice([0, 30, 80]))]
    st = rng.choice("+-")
    return [model_dict(1, a, st, False), model_dict(2, b, st, False)]


def gen_reads(rng, models, scale=1):
    """-> (reads per tid, spans, mapq): read ids are shared between models now and then"""
    per, spans, mapq = {}, {}, {}
    nxt = [0]

    def new_read(exons):
        rid = "rd%d" % nxt[0]
        nxt[0] += 1
        s = exons[0][0] + rng.choice([0, 0, 3, 20, 80, -40, 200, 55]) * scale
        e = exons[-1][1] - rng.choice([0, 0, 3, 20, 80, -40, 200, 55]) * scale
        spans[rid] = [s, max(s + 1, e)]
        mapq[rid] = rng.choice([0, 10, 29, 30, 60, 60, 60])
        return rid
    allr = []
    for m in models:
        ex = [tuple(e) for e in m["exons"]]
        rs = []
        for _ in range(rng.choice([0, 1, 2, 3, 3, 5, 8])):
            if allr and rng.random() < 0.15:
                rs.append(rng.choice(allr))
            else:
                rs.append(new_read(ex))
        allr += rs
        per[m["tid"]] = rs
    return per, spans, mapq
