"""Generators for C08 (multimapper resolution): per-read lists of compact alignment records.

A record is a plain dict in the *model's* numeric form (the JSON the Lean driver reads):
  aid, read, chr, start, end, region [a, b], mm, polya, atype, gtype (enum member names), pen (penalty_score * 2^20),
  iso, genes (lists of numbers).
`to_basic` turns it into a real `BasicReadAssignment`; numbers become fixed-width strings ("c003", "T012", ...) so
that Python's `==` / `<` on the strings are `=` / `<` on the numbers (order-preserving interning).
"""
import itertools

SHORT_FLOAT_MULTIPLIER = 1 << 20

CONSISTENT = ["unique", "unique_minor_difference", "ambiguous"]
INCONSISTENT = ["inconsistent", "inconsistent_non_intronic", "inconsistent_ambiguous"]
UNASSIGNED = ["noninformative", "intergenic"]
TYPES = CONSISTENT + INCONSISTENT + UNASSIGNED          # what the assigner produces
ALL_TYPES = TYPES + ["suspended"]                       # `suspended` is only ever written by the resolver

# loci: (chr, start, end, region).  L0/L1 tie as noninformative (equal overlap and region start, different
# chromosome); L3 has the coordinates of L0 in another gene region (an `__eq__`-duplicate of L0 when the
# isoforms agree); L2 has a larger overlap; L4 differs from L0 only in its end; L5 sticks out of its region
LOCI = [(0, 100, 140, (90, 200)), (1, 100, 140, (90, 200)), (0, 300, 360, (250, 400)), (0, 100, 140, (95, 200)),
        (0, 100, 150, (90, 200)), (1, 80, 140, (90, 200))]


def name_chr(n):
    return "c%03d" % n


def name_read(n):
    return "r%03d" % n


def name_iso(n):
    return "T%03d" % n


def name_gene(n):
    return "G%03d" % n


def num(s, prefix=None):
    """back from the fixed-width name; a name of another kind (e.g. a gene id in the isoform list) is kept as text so
    that it cannot be mistaken for a number"""
    if prefix is not None and not (isinstance(s, str) and s[:1] == prefix):
        return "WRONG-KIND:%s" % (s,)
    return int(s[1:])


def gtype_for(atype, genes):
    """what ReadAssignment.__init__ derives for the gene-level type"""
    if atype == "ambiguous":
        return "ambiguous" if len(set(genes)) > 1 else "unique"
    if atype == "inconsistent_ambiguous":
        return "inconsistent_ambiguous" if len(set(genes)) > 1 else "inconsistent"
    return atype


def rec(aid, locus, atype, mm, iso=(), genes=None, pen=0, read=0, polya=False, gtype=None):
    c, s, e, reg = locus
    iso = list(iso)
    genes = list(genes) if genes is not None else sorted(set(i // 2 for i in iso))
    return {"aid": aid, "read": read, "chr": c, "start": s, "end": e, "region": [reg[0], reg[1]], "mm": bool(mm),
            "polya": bool(polya), "atype": atype, "gtype": gtype or gtype_for(atype, genes), "pen": pen,
            "iso": iso, "genes": genes}


def iso_choices(atype):
    """isoform lists a record of this type may carry (isoform 2k and 2k+1 belong to gene k)"""
    if atype in UNASSIGNED or atype == "suspended":
        return [[]]
    if atype in ("ambiguous", "inconsistent_ambiguous"):
        return [[0, 1], [1, 2]]
    return [[0], [1], [2]]


def pen_choices(atype):
    return [0, SHORT_FLOAT_MULTIPLIER] if atype in INCONSISTENT else [0]


def record_universe(loci=LOCI[:4], types=TYPES):
    """every (type, flag, locus, isoforms, penalty) combination"""
    u = []
    for t in types:
        for mm in (False, True):
            for li, loc in enumerate(loci):
                for iso in iso_choices(t):
                    for p in pen_choices(t):
                        u.append((t, mm, li, tuple(iso), p))
    return u


def build(shapes, loci=LOCI, read=0):
    """shapes: [(type, mm, locus index, isoforms, penalty)] -> list of records with aids 1..n"""
    return [rec(i + 1, loci[li], t, mm, iso, pen=p, read=read) for i, (t, mm, li, iso, p) in enumerate(shapes)]


def layouts3():
    """(locus index, isoform variant) triples used for the exhaustive type x flag enumeration of length 3"""
    return [((0, 1, 2), (0, 1, 2)),   # three loci, three different isoforms
            ((0, 1, 2), (0, 0, 0)),   # three loci, the same isoform
            ((0, 3, 1), (0, 0, 1)),   # an __eq__-duplicate pair (L0, L3) plus a third locus
            ((0, 0, 0), (0, 0, 0)),   # three exact duplicates
            ((0, 1, 4), (0, 1, 0)),   # L0/L1 tie, L4 longer
            ((1, 0, 3), (1, 0, 0))]   # reversed chromosome order, duplicates apart


def iso_variant(atype, v):
    ch = iso_choices(atype)
    return ch[v % len(ch)]


def all_typed_lists(n, layouts, types=TYPES):
    """every assignment of (type, flag) to the n records of every layout"""
    tf = [(t, mm) for t in types for mm in (False, True)]
    for loc_idx, iso_var in layouts:
        for combo in itertools.product(tf, repeat=n):
            shapes = []
            for k, (t, mm) in enumerate(combo):
                shapes.append((t, mm, loc_idx[k], tuple(iso_variant(t, iso_var[k])), 0))
            yield build(shapes)


def rand_record(rng, aid, types=TYPES, n_loci=6, read=0):
    t = rng.choice(types)
    mm = rng.random() < 0.6
    loc = LOCI[rng.randrange(n_loci)]
    if rng.random() < 0.25:     # jitter: fresh coordinates
        c = rng.randrange(3)
        s = rng.randrange(50, 400)
        e = s + rng.randrange(0, 80)
        rs = rng.choice([s - 10, s + 5, 90, 250])
        loc = (c, s, e, (rs, rs + rng.randrange(20, 200)))
    if t in UNASSIGNED or t == "suspended":
        iso = [] if rng.random() < 0.9 else [rng.randrange(4)]
    elif t in ("ambiguous", "inconsistent_ambiguous"):
        iso = rng.sample(range(5), rng.choice([2, 2, 3]))
    else:
        iso = [rng.randrange(4)] if rng.random() < 0.9 else rng.sample(range(5), 2)
    pen = rng.choice([0, 0, 1, 2, 3]) * (SHORT_FLOAT_MULTIPLIER // 2) if t in INCONSISTENT else 0
    if rng.random() < 0.05:
        pen = -SHORT_FLOAT_MULTIPLIER    # not produced by the assigner (event costs are >= 0), the resolver accepts it
    genes = sorted(set(i // 2 for i in iso)) if rng.random() < 0.9 else [rng.randrange(3)]
    return rec(aid, loc, t, mm, iso, genes, pen, read=read, polya=rng.random() < 0.3)


def rand_list(rng, n, types=TYPES, dup_rate=0.2):
    l = []
    for i in range(n):
        if l and rng.random() < dup_rate:
            d = dict(rng.choice(l))          # duplicate (same coordinates and isoforms), maybe another type / region
            d["aid"] = i + 1
            if rng.random() < 0.5:
                d["atype"] = rng.choice(types)
                d["gtype"] = gtype_for(d["atype"], d["genes"])
                d["mm"] = rng.random() < 0.5
            if rng.random() < 0.3:
                d["region"] = [d["region"][0] + rng.choice([-5, 5]), d["region"][1]]
            l.append(d)
        else:
            l.append(rand_record(rng, i + 1, types))
    return l


# ------------------------------------------------------------------------------------------------
# real objects

def to_basic(d):
    from src.isoform_assignment import BasicReadAssignment, ReadAssignmentType
    a = BasicReadAssignment.__new__(BasicReadAssignment)
    a.assignment_id = d["aid"]
    a.read_id = name_read(d["read"])
    a.chr_id = name_chr(d["chr"])
    a.start = d["start"]
    a.end = d["end"]
    a.genomic_region = (d["region"][0], d["region"][1])
    a.multimapper = d["mm"]
    a.polyA_found = d["polya"]
    a.assignment_type = ReadAssignmentType[d["atype"]]
    a.gene_assignment_type = ReadAssignmentType[d["gtype"]]
    a.penalty_score = float(d["pen"]) / float(SHORT_FLOAT_MULTIPLIER)
    a.isoforms = [name_iso(i) for i in d["iso"]]
    a.genes = [name_gene(g) for g in d["genes"]]
    return a


def from_basic(a):
    p = a.penalty_score * SHORT_FLOAT_MULTIPLIER
    return {"aid": a.assignment_id, "read": num(a.read_id, "r"), "chr": num(a.chr_id, "c"), "start": a.start, "end": a.end,
            "region": [a.genomic_region[0], a.genomic_region[1]], "mm": bool(a.multimapper), "polya": bool(a.polyA_found),
            "atype": a.assignment_type.name, "gtype": a.gene_assignment_type.name,
            "pen": int(p) if p == int(p) else p, "iso": [num(i, "T") for i in a.isoforms], "genes": [num(g, "G") for g in a.genes]}


def key_of(d):
    """the alignment a record stands for (= the `__eq__` fields besides the read id)"""
    return (d["chr"], d["start"], d["end"], tuple(d["iso"]))
