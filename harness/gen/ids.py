"""Seeded generators for C17 (identifiers): id strings, reference id lists, event / call histories,
stub genedb objects for the real classes of src/id_policy.py, and synthetic pipeline scenarios."""
import itertools
import os

CHROMS = ["chr1", "chr2", "1", "X", "c", "chr1_KI270706v1_random", "chr.1", "chrUn_1.2", "chr1.nic", "2_3", "chr1.5"]

INT_ALPHABET_SMALL = [" ", "+", "-", "_", "0", "7", "x", "\t"]
INT_ALPHABET = list(" \t\n\r\x0b\x0c+-_0123456789aZ.eE")


def all_small_strings(alphabet, maxlen):
    out = [""]
    for n in range(1, maxlen + 1):
        out += ["".join(p) for p in itertools.product(alphabet, repeat=n)]
    return out


def rand_int_string(rng):
    k = rng.random()
    if k < 0.35:
        s = str(rng.randint(0, 30))
    elif k < 0.5:
        s = rng.choice(["+", "-", ""]) + str(rng.randint(0, 10 ** rng.randint(1, 12)))
    elif k < 0.65:
        d = str(rng.randint(10, 99999))
        i = rng.randint(1, len(d) - 1)
        s = d[:i] + rng.choice(["_", "__", "_ "]) + d[i:]
    else:
        s = "".join(rng.choice(INT_ALPHABET) for _ in range(rng.randint(0, 6)))
    if rng.random() < 0.3:
        s = rng.choice([" ", "\t", "\n", "  "]) + s
    if rng.random() < 0.3:
        s = s + rng.choice([" ", "\t", "\n", "\r\n"])
    return s


def rand_num_text(rng, hi=25):
    """text of a number as it may appear inside a reference id (mostly plain, sometimes odd)"""
    n = rng.randint(0, hi)
    k = rng.random()
    if k < 0.7:
        return str(n)
    if k < 0.75:
        return "0" + str(n)
    if k < 0.8:
        return "+" + str(n)
    if k < 0.84:
        return "-" + str(n)
    if k < 0.88:
        return " " + str(n)
    if k < 0.92 and n >= 10:
        return str(n)[0] + "_" + str(n)[1:]
    if k < 0.95:
        return str(n) + "x"
    if k < 0.97:
        return ""
    return str(n) + "_"


def rand_gene_id(rng, chrom):
    k = rng.random()
    if k < 0.3:
        return rng.choice(["G", "ENSG0000", "gene-", "novel_gene", "Novel_gene_", "novelgene_"]) + str(rng.randint(1, 999))
    if k < 0.8:
        return "novel_gene_" + rng.choice([chrom, chrom, rng.choice(CHROMS)]) + "_" + rand_num_text(rng)
    if k < 0.9:
        return "novel_gene_" + rand_num_text(rng)
    return rng.choice(["novel_gene_", "novel_gene_" + chrom, "novel_gene_" + chrom + "_", "novel_gene_x_y_z",
                       "novel_gene_" + chrom + "_3_" + rand_num_text(rng)])


def rand_transcript_id(rng, chrom):
    k = rng.random()
    if k < 0.3:
        return rng.choice(["T", "ENST0000", "rna-", "Transcript", "transcrip", "xtranscript"]) + str(rng.randint(1, 999)) + \
            rng.choice(["", ".1", ".2"])
    if k < 0.8:
        return "transcript" + rand_num_text(rng) + "." + rng.choice([chrom, chrom, rng.choice(CHROMS)]) + \
            rng.choice([".nic", ".nnic", "", ".x"])
    if k < 0.9:
        return "transcript" + rand_num_text(rng)
    return rng.choice(["transcript", "transcript.", "transcript." + chrom, "transcript_7." + chrom + ".nic",
                       "transcripts12." + chrom, "transcript12abc." + chrom, "transcript" + rand_num_text(rng) + ".."])


def rand_ref_ids(rng, chrom, n_max=8):
    genes = [rand_gene_id(rng, chrom) for _ in range(rng.randint(0, n_max))]
    transcripts = [rand_transcript_id(rng, chrom) for _ in range(rng.randint(0, n_max))]
    return genes, transcripts


def rand_events(rng, n_max=12):
    evs = []
    for _ in range(rng.randint(0, n_max)):
        k = rng.random()
        if k < 0.3:
            evs.append({"kind": "fl_discard"})
        elif k < 0.55:
            evs.append({"kind": "fl_novel", "gene": rng.choice(["G1", "ENSG7", "novel_gene_chr1_3"]), "nic": rng.random() < 0.5})
        elif k < 0.8:
            evs.append({"kind": "fl_novel", "gene": None, "nic": rng.random() < 0.5})
        else:
            evs.append({"kind": "monoexon", "valid": rng.random() < 0.7})
    return evs


# ---------------------------------------------------------------------------------------------
# stub genedb for the real classes (gffutils.FeatureDB.region(seqid=, start=, featuretype=))

class StubFeature:
    def __init__(self, featuretype, fid, start=1, end=2, strand="+", attributes=None):
        self.featuretype = featuretype
        self.id = fid
        self.start = start
        self.end = end
        self.strand = strand
        self.attributes = attributes or {}


class StubDB:
    """features per chromosome; `region` filters by feature type (str or tuple) like gffutils"""

    def __init__(self, feats_by_chr):
        self.feats = feats_by_chr

    def region(self, seqid=None, start=None, end=None, featuretype=None, **kw):
        types = (featuretype,) if isinstance(featuretype, str) else tuple(featuretype or ())
        for f in self.feats.get(seqid, []):
            if not types or f.featuretype in types:
                yield f


def stub_ids_db(chrom, genes, transcripts, rng=None):
    """every third transcript is an `mRNA` feature (the code asks for featuretype=("transcript", "mRNA"))"""
    feats = [StubFeature("gene", g) for g in genes]
    for i, t in enumerate(transcripts):
        feats.append(StubFeature("mRNA" if i % 3 == 2 else "transcript", t))
    return StubDB({chrom: feats})


def rand_strand(rng):
    return rng.choice(["+", "+", "-", "-", "."])


def rand_exon_reference(rng, chrom, n_max=10, isoquant_style=0.4, allow_dup=True):
    """reference exon features of one chromosome: list of dict(start,end,strand,attr) where attr is None (no
    exon_id attribute), [] (empty value list) or [id, ...].  Injective (one id names one exon) unless dup."""
    feats = []
    used = {}
    n = rng.randint(0, n_max)
    for i in range(n):
        a = rng.randint(1, 60) * 10
        e = {"start": a, "end": a + rng.randint(1, 5) * 10, "strand": rand_strand(rng)}
        key = (e["start"], e["end"], e["strand"])
        k = rng.random()
        if key in used:
            e["attr"] = used[key]            # same exon in another transcript: same id (functional reference)
        elif k < 0.2:
            e["attr"] = None
        elif k < 0.25:
            e["attr"] = []
        else:
            if rng.random() < isoquant_style:
                eid = "%s.%d" % (chrom, rng.randint(1, 12))
            else:
                eid = rng.choice(["ENSE", "E", "exon-"]) + str(rng.randint(1, 40))
            if any(v and v[0] == eid for v in used.values()):
                e["attr"] = None             # keep the reference injective
            else:
                e["attr"] = [eid] + (["extra"] if rng.random() < 0.1 else [])
        used.setdefault(key, e["attr"])
        feats.append(e)
    return feats


OTHER_TYPES = ["CDS", "CDS", "UTR", "start_codon", "stop_codon"]      # GeneInfo.OTHER_FEATURES (printed through get_id)


def rand_record_reference(rng, chrom, n_max=8, isoquant_style=0.5):
    """reference records of one chromosome of ALL feature types that carry `exon_id`: the exon records of
    `rand_exon_reference` (type "exon") and, inside some of them, CDS / UTR / codon records.  GENCODE style: the
    sub-record repeats the id of the exon it lies in; IsoQuant style (an extended_annotation.gtf written by an earlier
    run): the sub-interval carries an id of its own (`chr.N` or foreign), never the id of another record."""
    feats = rand_exon_reference(rng, chrom, n_max, isoquant_style)
    used = {e["attr"][0] for e in feats if e["attr"]}
    recs = []
    for e in feats:
        recs.append(dict(e, type="exon"))
        if rng.random() < 0.6:
            for _ in range(rng.randint(1, 2)):
                t = rng.choice(OTHER_TYPES)
                a = e["start"] + rng.choice([0, 0, 3, 5])
                b = a + 2 if t.endswith("codon") else max(a, e["end"] - rng.choice([0, 0, 2, 4]))
                k = rng.random()
                if (a, b) == (e["start"], e["end"]) and k < 0.9:
                    attr = e["attr"]                 # the whole exon: same interval, same id in either style
                elif k < 0.15:
                    attr = None
                elif k < 0.45:
                    attr = e["attr"]                 # GENCODE: the id of the containing exon
                else:
                    eid = "%s.%d" % (chrom, rng.randint(1, 14)) if rng.random() < 0.75 else "ENSE" + str(rng.randint(1, 40))
                    if eid in used:
                        attr = None
                    else:
                        used.add(eid)
                        attr = [eid]
                recs.append({"start": a, "end": b, "strand": e["strand"], "attr": attr, "type": t})
    if rng.random() < 0.3:
        rng.shuffle(recs)
    return recs


def records_gtf(chrom, recs):
    """GTF text of a record list (one transcript per record: no parent/child structure is needed by id_policy.py)"""
    lines = []
    for i, e in enumerate(recs):
        attr = 'gene_id "G%d"; transcript_id "T%d";' % (i, i)
        for v in e["attr"] or []:
            attr += ' exon_id "%s";' % v
        lines.append("%s\tsyn\t%s\t%d\t%d\t.\t%s\t.\t%s" % (chrom, e.get("type", "exon"), e["start"], e["end"], e["strand"], attr))
    return "\n".join(lines) + "\n"


def real_record_db(chrom, recs):
    """a REAL gffutils database of the records, created with the options of src/gtf2db.py (complete genedb)"""
    import vlib
    return vlib.gff_db_from_string(records_gtf(chrom, recs), force=True, keep_order=True,
                                   merge_strategy="error", sort_attribute_values=True, disable_infer_transcripts=True,
                                   disable_infer_genes=True)


def gtf_to_db(gtf, db, complete=True):
    """the annotation converted to a gffutils database exactly as src/gtf2db.py does it (`--genedb ann.db` is a
    documented input form: "Provide this database next time to avoid excessive conversion")"""
    import contextlib
    import io
    import gffutils
    with contextlib.redirect_stderr(io.StringIO()):      # (gffutils writes a progress counter to stderr)
        gffutils.create_db(gtf, db, force=True, keep_order=True, merge_strategy="error", sort_attribute_values=True,
                           disable_infer_transcripts=complete, disable_infer_genes=complete)
    return db


# ---------------------------------------------------------------------------------------------
# the input check (check_gtf_duplicates / check_db_sequences of src/gtf2db.py)

IN_SEQS = ["chr1", "chr1.1", "c"]
# gene ids and transcript ids come from disjoint pools: gffutils keeps gene and transcript features under ONE primary key, a
# string used as gene_id on one line and as transcript_id on another is a different malformation (docs/C17.md F8); the case
# the check knows - gene_id == transcript_id on one line - is generated on purpose (`same_line`)
IN_GENES = ["G1", "G2", "G1.chr1.1", "G1.1", "G1.c"]
IN_TRS = ["T1", "T2", "T1.chr1.1", "T1.1", "T1.c"]


def rand_gtf_records(rng):
    """record list [seq, kind, gene_id, transcript_id] of a small annotation: exon-only files (UCSC / RefSeq style) and files
    with gene / transcript records; ids and sequences from pools small enough that an id on two sequences, a repeated
    record, an id that already looks like a renamed one (`G1.chr1.1`, `T1.1`) and gene_id == transcript_id are frequent"""
    style = rng.random()
    recs = []
    n_loci = rng.randint(1, 4)
    same_line = rng.random() < 0.08
    for _ in range(n_loci):
        seq = rng.choice(IN_SEQS if rng.random() < 0.7 else IN_SEQS[:1])
        g = rng.choice(IN_GENES if rng.random() < 0.8 else IN_GENES[:2])
        if style >= 0.45 and rng.random() < 0.9:
            recs.append([seq, "gene", g, None])
        for _ in range(rng.randint(1, 2)):
            t = rng.choice(IN_TRS if rng.random() < 0.8 else IN_TRS[:2])
            if same_line and rng.random() < 0.5:
                t = g
            if style >= 0.45 and rng.random() < 0.9:
                recs.append([seq, rng.choice(["transcript", "transcript", "mRNA"]), g, t])
            for _ in range(rng.randint(1, 2)):
                recs.append([seq if rng.random() < 0.95 else rng.choice(IN_SEQS), "exon", g, t])
    return recs


def records_text(recs):
    lines = []
    for i, (seq, kind, g, t) in enumerate(recs):
        attr = 'gene_id "%s";' % g + ('' if kind == "gene" else ' transcript_id "%s";' % t)
        lines.append("%s\tsyn\t%s\t%d\t%d\t.\t+\t.\t%s" % (seq, kind, 100 + 300 * i, 300 + 300 * i, attr))
    return "\n".join(lines) + "\n"


def stub_exon_db(chrom, feats, other=None):
    fs = []
    for e in feats:
        attrs = {}
        if e["attr"] is not None:
            attrs["exon_id"] = list(e["attr"])
        fs.append(StubFeature(e.get("type", "exon"), "%s_%d_%d" % (e.get("type", "exon"), e["start"], e["end"]),
                              e["start"], e["end"], e["strand"], attrs))
    d = {chrom: fs}
    if other:
        d.update(other)
    return StubDB(d)


def rand_calls(rng, chrom, feats, n_max=25):
    """call history of get_id: reference exons, new exons, repeats"""
    pool = [(chrom, e["start"], e["end"], e["strand"]) for e in feats]
    calls = []
    for _ in range(rng.randint(0, n_max)):
        k = rng.random()
        if calls and k < 0.35:
            calls.append(rng.choice(calls))
        elif pool and k < 0.6:
            calls.append(rng.choice(pool))
        else:
            a = rng.randint(1, 80) * 10 + rng.randint(0, 1)
            calls.append((chrom, a, a + rng.randint(1, 4) * 10, rand_strand(rng)))
    return calls


# ---------------------------------------------------------------------------------------------
# pipeline scenarios: several chromosomes, hidden isoforms/genes (-> novel ids, novel exons shared by several
# transcripts), reference ids that look like IsoQuant ids, reference exon_id attributes

SCEN_CHROMS = ["chr1", "chr2", "chr1.1", "c_2", "X"]
# sequence names that are ambiguous inside an id: `<chr>.<N>` / `novel_gene_<chr>_<N>` / `transcript<N>.<chr>.nic` of one name
# read as an id of another one (`1` / `1.1` / `1_1`), names that contain the id prefixes and suffixes themselves
NAME_POOLS = [SCEN_CHROMS,
              ["1", "1.1", "1_1", "c", "c_1", "c_1_2"],
              ["novel_gene_1", "x.nic", "transcript1.c", "c.nnic", "novel_gene_c_1", "c"]]


def build_scenario(seed, n_chroms=3, genes_per_chrom=4, reads_per_tx=10, isoquant_style_ref=True, exon_id_attrs=True,
                   name_pool=None):
    """returns dict(ds=Dataset with ALL transcripts, ref_genes=[annotation visible to the pipeline], exon_ids={key: id},
    hidden=[transcript names hidden from the annotation])"""
    import random
    from gen import synth
    rng = random.Random(seed)
    ds = synth.Dataset(seed)
    names = list(name_pool or SCEN_CHROMS)
    rng.shuffle(names)
    names = names[:n_chroms]
    all_genes = []
    for ci, chrom in enumerate(names):
        ds.add_chrom(chrom, 12000 * genes_per_chrom + 4000)
        pos = 1000
        for gi in range(genes_per_chrom):
            strand = rng.choice("+-")
            nex = rng.randint(3, 6)
            exons = []
            p = pos
            for _ in range(nex):
                ln = rng.randint(120, 400)
                exons.append((p, p + ln - 1))
                p += ln + rng.randint(300, 1200)
            skip = rng.randint(1, nex - 2)
            txs = [("T%d_%d_a" % (ci, gi), exons), ("T%d_%d_b" % (ci, gi), exons[:skip] + exons[skip + 1:])]
            if nex >= 5:
                skip2 = skip + 1 if skip + 1 <= nex - 2 else skip - 1
                txs.append(("T%d_%d_c" % (ci, gi), [e for i, e in enumerate(exons) if i != skip2]))
            g = {"chr": chrom, "gene_id": "G%d_%d" % (ci, gi), "strand": strand, "transcripts": txs, "index": gi}
            ds.add_gene(chrom, g["gene_id"], strand, txs)
            all_genes.append(g)
            for tid, ex in txs:
                for k in range(reads_per_tx):
                    e = list(ex)
                    e[0] = (e[0][0] + rng.randint(0, 30), e[0][1])
                    e[-1] = (e[-1][0], e[-1][1] - rng.randint(0, 30))
                    pa = 25 if strand == "+" else 0
                    pt = 25 if strand == "-" else 0
                    ds.read_from_exons("r_%s_%d" % (tid, k), chrom, e, polya=pa, polyt=pt)
            pos = p + 2500
        # an unannotated single-exon locus with polyA reads (novel monoexonic transcript + novel gene when
        # --report_novel_unspliced true)
        for k in range(8):
            a = pos + rng.randint(0, 5)
            ds.read_from_exons("r_mono%d_%d" % (ci, k), chrom, [(a, pos + 700)], polya=25)
    # what the pipeline sees as reference: hide the first gene of every chromosome completely, keep only some
    # isoforms of the others; rename a few reference features in IsoQuant style
    ref_genes, hidden = [], []
    taken_t, taken_g = {}, {}
    for g in all_genes:
        if g["index"] == 0:
            hidden += [t for t, _ in g["transcripts"]]
            continue
        keep = [t for t in g["transcripts"] if t[0].endswith("_a") or (t[0].endswith("_c") and rng.random() < 0.5)]
        hidden += [t for t, _ in g["transcripts"] if t not in [k[0] for k in keep]]
        gid = g["gene_id"]
        if isoquant_style_ref and rng.random() < 0.5:
            n = rng.randint(1, 6)
            while (g["chr"], n) in taken_g:
                n += 1
            taken_g[(g["chr"], n)] = 1
            gid = "novel_gene_%s_%d" % (g["chr"], n)
        keep2 = []
        for tid, ex in keep:
            if isoquant_style_ref and rng.random() < 0.5:
                n = rng.randint(1, 8)
                while (g["chr"], n) in taken_t:
                    n += 1
                taken_t[(g["chr"], n)] = 1
                tid = "transcript%d.%s.%s" % (n, g["chr"], rng.choice(["nic", "nnic"]))
            keep2.append((tid, ex))
        ref_genes.append({"chr": g["chr"], "gene_id": gid, "strand": g["strand"], "transcripts": keep2, "index": g["index"]})
    # reference exon_id attributes (functional and injective): a mix of foreign ids and IsoQuant-style chr.N
    exon_ids = {}
    if exon_id_attrs:
        cnt = {}
        for g in ref_genes:
            for tid, ex in g["transcripts"]:
                for a, b in ex:
                    key = (g["chr"], a, b, g["strand"])
                    if key in exon_ids or rng.random() < 0.4:
                        continue
                    if rng.random() < 0.6:
                        n = cnt.get(g["chr"], 0) + rng.randint(1, 2)
                        cnt[g["chr"]] = n
                        exon_ids[key] = "%s.%d" % (g["chr"], n)
                    else:
                        exon_ids[key] = "ENSE%05d" % (len(exon_ids) + 1)
    return {"ds": ds, "ref_genes": ref_genes, "exon_ids": exon_ids, "hidden": hidden, "chroms": names}


def cds_records(ex, strand):
    """CDS / codon / UTR intervals of a transcript with exons `ex` (GENCODE layout: the coding part starts inside the
    first exon and ends inside the last one; inner exons are coding as a whole)"""
    if len(ex) < 2:
        return []
    out = []
    first, last = ex[0], ex[-1]
    a = first[0] + (first[1] - first[0]) // 3
    b = last[1] - (last[1] - last[0]) // 3
    out.append((first[0], a - 1, "UTR", first))
    out.append((a, first[1], "CDS", first))
    out.append((a, a + 2, "start_codon" if strand == "+" else "stop_codon", first))
    for e in ex[1:-1]:
        out.append((e[0], e[1], "CDS", e))
    out.append((last[0], b, "CDS", last))
    out.append((b - 2, b, "stop_codon" if strand == "+" else "start_codon", last))
    return out


def gtf_lines(ref_genes, exon_ids, cds=False):
    """`cds`: every second transcript also gets CDS / codon / UTR records which repeat the exon_id of the exon they lie in
    (as GENCODE does)"""
    out = []
    for g in sorted(ref_genes, key=lambda g: (g["chr"], min(e[0] for _, ex in g["transcripts"] for e in ex))):
        allex = [e for _, ex in g["transcripts"] for e in ex]
        gs, ge = min(e[0] for e in allex), max(e[1] for e in allex)
        out.append('%s\tsyn\tgene\t%d\t%d\t.\t%s\t.\tgene_id "%s";' % (g["chr"], gs, ge, g["strand"], g["gene_id"]))
        for tid, ex in g["transcripts"]:
            out.append('%s\tsyn\ttranscript\t%d\t%d\t.\t%s\t.\tgene_id "%s"; transcript_id "%s";'
                       % (g["chr"], ex[0][0], ex[-1][1], g["strand"], g["gene_id"], tid))
            for a, b in ex:
                eid = exon_ids.get((g["chr"], a, b, g["strand"]))
                out.append('%s\tsyn\texon\t%d\t%d\t.\t%s\t.\tgene_id "%s"; transcript_id "%s";%s'
                           % (g["chr"], a, b, g["strand"], g["gene_id"], tid, (' exon_id "%s";' % eid) if eid else ""))
            if cds and (len(tid) + len(ex)) % 2 == 0:
                for a, b, ft, e in cds_records(ex, g["strand"]):
                    eid = exon_ids.get((g["chr"], e[0], e[1], g["strand"]))
                    out.append('%s\tsyn\t%s\t%d\t%d\t.\t%s\t.\tgene_id "%s"; transcript_id "%s";%s'
                               % (g["chr"], ft, a, b, g["strand"], g["gene_id"], tid, (' exon_id "%s";' % eid) if eid else ""))
    return out


def gff3_lines(ref_genes, exon_ids, cds=False):
    """the same annotation as `gtf_lines` in GFF3 (ID / Parent; gene and transcript ids are the ID attributes, the exon_id
    attribute keeps its name)"""
    out = ["##gff-version 3"]
    for l in gtf_lines(ref_genes, exon_ids, cds=cds):
        c = l.split("\t")
        a = dict(kv.strip().split(" ", 1) for kv in c[8].strip().strip(";").split(";"))
        a = {k: v.strip('"') for k, v in a.items()}
        if c[2] == "gene":
            attr = "ID=%s;gene_id=%s" % (a["gene_id"], a["gene_id"])
        elif c[2] == "transcript":
            attr = "ID=%s;Parent=%s;gene_id=%s;transcript_id=%s" % (a["transcript_id"], a["gene_id"], a["gene_id"], a["transcript_id"])
        else:
            attr = "Parent=%s;gene_id=%s;transcript_id=%s" % (a["transcript_id"], a["gene_id"], a["transcript_id"])
            if "exon_id" in a:
                attr += ";exon_id=%s" % a["exon_id"]
        out.append("\t".join(c[:8] + [attr]))
    return out


def write_scenario(sc, d, read_filter=None, cds=True):
    """writes ref.fa, reads.bam and ann.gtf (the *visible* annotation with exon_id attributes); returns paths"""
    ds = sc["ds"]
    reads = ds.reads if read_filter is None else [r for r in ds.reads if read_filter(r)]
    paths = ds.write(d, reads=reads)
    with open(paths["gtf"], "w") as f:
        f.write("\n".join(gtf_lines(sc["ref_genes"], sc["exon_ids"], cds=cds)) + "\n")
    paths["gff3"] = os.path.join(d, "ann.gff3")
    with open(paths["gff3"], "w") as f:
        f.write("\n".join(gff3_lines(sc["ref_genes"], sc["exon_ids"], cds=cds)) + "\n")
    return paths
