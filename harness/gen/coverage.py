"""Seeded generators of alignment sets / coverage profiles for C05 (region formation and splitting).

An alignment is the JSON-able list `[start0, stop0_exclusive, flags, mapq, rid]` with flags bit 1 = secondary,
2 = supplementary, 4 = reference_id == -1 (what the Lean driver reads).  `rid` doubles as the identity of the
record inside one case (unique per case unless a generator says otherwise).
"""
BIN = 256
MIN_BINS = 128
MIN_READS = 1024
MAX_LEN = 32768


def aln(start, stop, rid, flags=0, mapq=60):
    return [int(start), int(stop), int(flags), int(mapq), int(rid)]


def sort_alns(alns):
    """coordinate order as in a sorted BAM (stable for equal starts)"""
    return sorted(alns, key=lambda a: a[0])


def renumber(alns):
    return [[a[0], a[1], a[2], a[3], i] for i, a in enumerate(alns)]


class Builder:
    def __init__(self, rng, origin):
        self.rng = rng
        self.alns = []
        self.pos = origin

    def add(self, start, stop, flags=0, mapq=60):
        self.alns.append(aln(start, max(stop, start + 1), len(self.alns), flags, mapq))

    def pile(self, start, n, length, jitter=5, len_jitter=7):
        for i in range(n):
            s = start + (i % max(1, jitter))
            self.add(s, s + length + (i % max(1, len_jitter)))

    def ladder(self, start, end, length, step, depth=1):
        cur = start
        while cur < end:
            for k in range(depth):
                self.add(cur + k % 9, cur + length + k % 9)
            cur += step
        return cur

    def done(self):
        return renumber(sort_alns(self.alns))


def rand_flags(rng, p_special=0.0):
    if rng.random() >= p_special:
        return 0
    return rng.choice([1, 2, 4, 1, 2, 3])


def small_cluster_set(rng, n_max=40, span=3000, p_special=0.2, origin=None):
    """few short alignments, several clusters, every flag combination: exercises adjacency and statistics"""
    origin = rng.choice([0, 1, 255, 256, 257, 1000, 10 ** 6]) if origin is None else origin
    out = []
    pos = origin
    for i in range(rng.randint(0, n_max)):
        if rng.random() < 0.25:
            pos += rng.choice([0, 1, 2, 50, 255, 256, 257, 700])
        ln = rng.choice([1, 1, 2, 10, 100, 255, 256, 257, 600])
        st = pos + rng.randint(0, 300)
        out.append(aln(st, st + ln, i, rand_flags(rng, p_special), rng.choice([0, 1, 4, 5, 10, 60])))
    return renumber(sort_alns(out))


def touching_pairs(rng):
    """adjacency boundary: second alignment starts at end-1, end, end+1 of the first (closed interval overlap)"""
    cases = []
    for base in (0, 255, 256, 1000):
        for ln in (1, 2, 300):
            for d in (-2, -1, 0, 1, 2):
                for ln2 in (1, 5):
                    st2 = base + ln + d
                    if st2 < base:
                        continue
                    cases.append(renumber(sort_alns([aln(base, base + ln, 0), aln(st2, st2 + ln2, 1)])))
    return cases


def split_cluster(rng, kind=None):
    """one or more clusters of which at least one is split (>= 1024 reads or >= 32 kb); valleys at every offset"""
    kind = kind or rng.choice(["pile_bridge_tail", "final_bin_valley", "single_bin", "first_base", "long_ladder",
                               "two_piles", "random_profile", "random_profile", "thin_long"])
    origin = rng.choice([0, 256, 1000, 1024, 5 * BIN + rng.randint(0, 255), 77777])
    b = Builder(rng, origin)
    if kind == "pile_bridge_tail":
        n = rng.choice([1024, 1030, 1100])
        b.pile(origin, n, rng.choice([100, 400]))
        far = origin + rng.choice([33000, 38000, 40000 + rng.randint(0, 512)])
        b.add(origin + 100, far + 1000)                     # bridging read
        b.pile(far, rng.randint(1, 30), 900, jitter=30)
        last_end = max(a[1] for a in b.alns)
        lb = (last_end - 1) // BIN
        # short reads in / around the last bin
        for _ in range(rng.randint(1, 3)):
            st = rng.randint(lb * BIN, last_end - 1) if last_end - 1 > lb * BIN else last_end - 1
            b.add(st, min(last_end + rng.choice([0, 0, 30]), st + rng.choice([1, 2, 40])))
    elif kind == "final_bin_valley":
        b.pile(origin, rng.choice([50, 300]), 400)
        cur = b.ladder(origin + 200, origin + 33000 + rng.randint(0, 2000), 2000, 1500)
        depth = rng.choice([3, 120])
        cur = b.ladder(cur, cur + rng.choice([3000, 40000]), 2000, 1000, depth=depth)
        thick_end = max(a[1] for a in b.alns)
        lb = (thick_end - 1) // BIN
        b.add(thick_end - 500, (lb + 1) * BIN + rng.randint(1, 255))
        s = (lb + 1) * BIN + rng.randint(0, 100)
        b.add(s, s + rng.choice([1, 2, 50]))
    elif kind == "single_bin":
        base = (origin // BIN) * BIN
        n = rng.choice([1024, 1100, 1500])
        off = rng.choice([0, 1, 30])
        width = rng.choice([50, 200, 255 - off])
        for i in range(n):
            s = base + off + (i % 5)
            b.add(s, min(base + BIN, s + 1 + (i * 7) % max(1, width - 5)))
        if rng.random() < 0.5:
            b.add(base + BIN + rng.choice([0, 1, 500]), base + BIN + 900)      # a neighbour (own cluster or not)
    elif kind == "first_base":
        base = (origin // BIN) * BIN
        b.add(base, base + rng.choice([1, 1, 2]))
        b.pile(base + rng.choice([0, 1]), rng.choice([1024, 1100]), 400, jitter=rng.choice([1, 5]))
        b.add(base + 300, base + 39000)
        b.pile(base + 38000, 20, 900, jitter=20)
    elif kind == "long_ladder":
        b.ladder(origin, origin + rng.choice([33000, 70000, 100000]), rng.choice([600, 2000]), rng.choice([300, 500, 1500]),
                 depth=rng.choice([1, 2]))
    elif kind == "two_piles":
        b.pile(origin, 600, 300)
        b.add(origin + 100, origin + 50000)
        b.pile(origin + 49000, 600, 300 + rng.randint(0, 900))
        if rng.random() < 0.5:
            e = max(a[1] for a in b.alns)
            b.add(e - 1, e + rng.choice([0, 1, 200]))
    elif kind == "thin_long":
        # >= 32 kb covered by a chain of reads with single-read links: valleys of coverage 1 everywhere
        cur = origin
        end = origin + rng.choice([33000, 66000, 99000])
        while cur < end:
            ln = rng.choice([257, 512, 1000, 3000])
            b.add(cur, cur + ln)
            if rng.random() < 0.3:
                b.pile(cur + ln // 2, rng.randint(2, 40), rng.choice([10, 200]))
            cur += ln - rng.choice([1, 1, 2, 100])
    else:  # random_profile: random walk of depth over bins, valleys at arbitrary offsets
        cur = origin
        nb = rng.choice([130, 140, 260, 300, 400])
        depth = rng.choice([1, 3, 10])
        spine_end = origin + nb * BIN + rng.randint(0, 255)
        # a spine of overlapping reads keeps the cluster connected
        while cur < spine_end:
            ln = rng.choice([300, 700, 5000])
            b.add(cur, min(cur + ln, spine_end))
            cur += max(1, ln - rng.randint(1, 50))
        for _ in range(rng.randint(3, 12)):
            s = origin + rng.randint(0, nb * BIN)
            b.pile(s, rng.choice([5, 50, 150, 400]), rng.choice([30, 200, 600, 3000]), jitter=rng.choice([1, 9, 300]))
    # sometimes add a far-away small cluster before/after and special-flag records
    if rng.random() < 0.4:
        e = max(a[1] for a in b.alns)
        b.add(e + rng.choice([0, 1, 2, 300]), e + 500)
    if rng.random() < 0.3:
        for _ in range(rng.randint(1, 5)):
            a = rng.choice(b.alns)
            b.alns.append(aln(a[0], a[1], 0, rng.choice([1, 2, 4]), rng.choice([0, 60])))
    return kind, b.done()


def coverage_of(alns):
    cov = {}
    for a in alns:
        for i in range(a[0] // BIN, (a[1] - 1) // BIN + 1):
            cov[i] = cov.get(i, 0) + 1
    return cov


def rand_cov_case(rng):
    """(R, count, cov) for `split_coverage_regions` driven directly by a synthetic coverage dictionary"""
    first = rng.choice([0, 1, 3, 4, 1000])
    nb = rng.choice([1, 1, 2, 3, 127, 128, 129, 130, 131, 200, 255, 256, 257, 258, 300, 390, 520])
    last = first + nb - 1
    r0 = first * BIN + rng.choice([0, 0, 1, 100, 255])
    r1 = last * BIN + rng.choice([0, 1, 100, 255, 255])
    if r1 < r0:
        r1 = r0
    base = rng.choice([1, 2, 50, 100, 101, 1000, 20000])
    style = rng.choice(["flat", "noise", "valleys", "edge", "edge"])
    cov = []
    mx = base
    for i in range(nb):
        if style == "flat":
            v = base
        elif style == "noise":
            v = rng.randint(1, base)
        elif style == "valleys":
            v = base if rng.random() < 0.9 else rng.choice([1, 1, 2, max(1, base // 100), max(1, base // 100) + 1])
        else:   # threshold boundary relative to the running maximum
            v = rng.choice([mx, mx, mx, 1, 2, mx // 100, mx // 100 + 1, max(1, mx // 100 - 1), (mx + 99) // 100])
            v = max(1, v)
        mx = max(mx, v)
        cov.append([first + i, v])
    if rng.random() < 0.5 and nb > 1:
        cov[-1][1] = rng.choice([1, 1, 2, max(1, mx // 100)])       # final bin valley
    count = rng.choice([0, 1, 1023, 1024, 1025, 5000])
    if rng.random() < 0.5:
        rng.shuffle(cov)     # dict insertion order is irrelevant
    return {"R": [r0, r1], "count": count, "cov": cov}


def malformed_cov_case(rng):
    c = rand_cov_case(rng)
    k = rng.choice(["empty", "gap", "shiftR", "zero"])
    if k == "empty":
        c["cov"] = []
        c["count"] = 5000
    elif k == "gap" and len(c["cov"]) > 3:
        del c["cov"][len(c["cov"]) // 2]
    elif k == "shiftR":
        c["R"] = [c["R"][0] + rng.choice([-600, 600]), c["R"][1] + rng.choice([-600, 600, 3000])]
        if c["R"][1] < c["R"][0]:
            c["R"][1] = c["R"][0]
    else:
        for p in c["cov"]:
            if rng.random() < 0.1:
                p[1] = 0
    return c


ATYPES = ["unique", "noninformative", "intergenic", "ambiguous", "unique_minor_difference", "inconsistent",
          "inconsistent_non_intronic", "inconsistent_ambiguous"]


def rand_records(rng, n=None, twins=True):
    """records of ONE read as the resolver sees them: [rid, chr, start, stop, isoforms, region, atype, multimapper, penalty]"""
    n = rng.randint(0, 6) if n is None else n
    recs = []
    for i in range(n):
        if twins and recs and rng.random() < 0.45:
            r = list(rng.choice(recs))
            r = [r[0], r[1], r[2], r[3], list(r[4]), list(r[5]), r[6], r[7], r[8]]
            w = rng.choice(["same", "region", "iso", "type", "coord"])
            if w == "region":
                r[5] = [r[5][1] + 1, r[5][1] + 5000]
            elif w == "iso":
                r[4] = rng.choice([[], [1], [2], [1, 2], [2, 1]])
            elif w == "type":
                r[6] = rng.choice(ATYPES)
                r[7] = rng.random() < 0.5
            elif w == "coord":
                r[rng.choice([2, 3])] += rng.choice([-1, 1])
            recs.append(r)
            continue
        st = rng.choice([100, 1000, 5000]) + rng.randint(0, 3)
        recs.append([7, rng.choice([0, 0, 0, 1]), st, st + rng.choice([100, 1000]),
                     rng.choice([[], [1], [2], [1, 2]]), [rng.choice([1, 100, 900]), rng.choice([1200, 6000])],
                     rng.choice(ATYPES), rng.random() < 0.4, rng.choice([0, 0, 1048576, 2097152, 524288])])
    return recs
