"""Interface-hypothesis monitor for the kept `<prefix>.save_<chr>` dumps of a real pipeline run (G6 of the hypothesis
audit).  The end-to-end theorems of C12 (`end_to_end_partition_invariant`, `downstream_blockwise_invariant`,
`loaded_records_spec`) and C15 (`memory_modes_same_saved_files`, Props/C15Reuse.lean) assume about the records the
collecting stage writes - i.e. about what the per-alignment function (filters, profiles, LongReadAssigner, exon
correction: not modelled) produces -

  hNS  / `NoSuspendedInput` : no record carries the type `suspended` (only the multimapper resolver assigns it, later);
  hinj                       : the assignment ids of the records of one chromosome are pairwise different.

(`MemoryModeOk` / `NonNegFirst`, the third hypothesis of that kind, cannot be watched on the dumps: `write_int` refuses a
negative scaled penalty - the run crashes - and a penalty in (-2^-20, 0) is stored as 0.  It is proved for the modelled
assigner in Props/C15Penalty.lean and watched in memory by harness/mon_wrap.py `penalty`.)

Both are evaluated here on every record of every per-chromosome dump, read back with the REAL loader
(`BasicReadAssignmentLoader`, the one `resolve_multimappers` itself uses; tied to the model by C15's correspondence).
"""
import importlib
import os

import vlib


def chromosome_dumps(aux_dir, prefix):
    """-> [(chr_id, path)]: the chromosome ids are read off the `<prefix>_multimappers_<chr>` file names (one per
    chromosome that was processed), so that side files (`_groups`, `_read_stat`, ...) are never mistaken for dumps"""
    res = []
    mm = prefix + "_multimappers_"
    for fn in sorted(os.listdir(aux_dir)):
        if fn.startswith(mm):
            chr_id = fn[len(mm):]
            p = os.path.join(aux_dir, prefix + "_" + chr_id)
            if os.path.isfile(p):
                res.append((chr_id, p))
    return res


def dump_records(path):
    """[(assignment_id, read_id, assignment type name, gene assignment type name, penalty)] through the real loader"""
    vlib.repo_on_path()
    DP = importlib.import_module("src.dataset_processor")
    ld = DP.BasicReadAssignmentLoader(path)
    res = []
    try:
        while ld.has_next():
            for b in ld.get_next():
                if b is not None:
                    res.append((b.assignment_id, b.read_id, b.assignment_type.name, b.gene_assignment_type.name, b.penalty_score))
    finally:
        ld.unpickler.loader.close()
    return res


def record_problems(chr_id, recs):
    """pure predicate on the records of one dump -> [(kind, detail)]"""
    res = []
    susp = [(x[0], x[1]) for x in recs if x[2] == "suspended" or x[3] == "suspended"]
    if susp:
        res.append(("hyp_suspended_in_dump", "%d record(s) of the dump of %s carry type `suspended` before multimapper "
                    "resolution, e.g. assignment %s of read %s (hypothesis hNS / NoSuspendedInput)" %
                    (len(susp), chr_id, susp[0][0], susp[0][1])))
    seen = {}
    dup = []
    for a, r in [(x[0], x[1]) for x in recs]:
        if a in seen:
            dup.append((a, seen[a], r))
        seen[a] = r
    if dup:
        res.append(("hyp_assignment_id_repeated", "%d assignment id(s) occur twice in the dump of %s, e.g. id %s for reads "
                    "%s and %s (hypothesis hinj: ids injective per chromosome)" % (len(dup), chr_id, dup[0][0], dup[0][1], dup[0][2])))
    return res


def check_dumps(aux_dir, prefix="S.save"):
    """-> (stats {"files", "records"}, problems [(kind, detail)])"""
    stats = {"files": 0, "records": 0}
    problems = []
    if not os.path.isdir(aux_dir):
        return stats, problems
    for chr_id, path in chromosome_dumps(aux_dir, prefix):
        try:
            recs = dump_records(path)
        except Exception as ex:      # an unreadable dump is C15's business (its correspondence compares the loaders)
            stats["unreadable"] = stats.get("unreadable", 0) + 1
            stats["unreadable_example"] = "%s: %r" % (path, ex)
            continue
        stats["files"] += 1
        stats["records"] += len(recs)
        problems += record_problems(chr_id, recs)
    return stats, problems


def selftest():
    """the predicate rejects what it is there to reject -> None or a description"""
    good = [(1, "r1", "unique", "unique", 0.0), (3, "r2", "ambiguous", "unique", 0.0), (4, "r2", "inconsistent", "inconsistent", 0.0)]
    if record_problems("c", good):
        return "clean records flagged: %s" % record_problems("c", good)
    k1 = [k for k, _ in record_problems("c", good + [(7, "r9", "suspended", "unique", 0.0)])]
    k2 = [k for k, _ in record_problems("c", good + [(3, "r9", "unique", "unique", 0.0)])]
    if k1 != ["hyp_suspended_in_dump"] or k2 != ["hyp_assignment_id_repeated"]:
        return "bad records not flagged: %s %s" % (k1, k2)
    return None
