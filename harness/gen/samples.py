"""Multi-experiment inputs for C10: one synthetic world (reference + annotation) and several experiments
(read sets) over it, written as BAM files; list / YAML description files; everything random comes from the
seed that is passed in.

An experiment is described by a small spec dict
    {"name": "E1", "seed": 11, "tails": 1.0, "unmapped": 3, "depth": [4, 8], "files": 1}
`tails`  – fraction of reads that carry a soft-clipped polyA (3' end, '+') / polyT (5' end, '-') tail,
`unmapped` – number of unaligned records in (the first of) its BAM file(s),
`files`  – number of BAM files (libraries) the reads are dealt into,
`dups`   – number of spliced reads whose record is written twice (exact duplicates).
"""
import os
import random

from gen import synth


class World:
    def __init__(self, ds, novel_loci, mono_genes):
        self.ds = ds
        self.novel_loci = novel_loci      # (chr, strand, exons)
        self.mono_genes = mono_genes      # (chr, strand, tid, exons)
        self.paths = None


def make_world(seed, n_chroms=2, genes_per_chrom=3, chrom_len=60000):
    """multi-isoform genes on both strands + one annotated mono-exon gene + one un-annotated 2-exon locus per chromosome"""
    ds = synth.Dataset(seed)
    rng = ds.rng
    novel, mono = [], []
    for c in range(n_chroms):
        chrom = "chr%d" % (c + 1)
        ds.add_chrom(chrom, chrom_len - 5000 * c)       # distinct lengths: get_chr_list sorts by length
        pos = 1000
        for gi in range(genes_per_chrom):
            strand = rng.choice("+-")
            nex = rng.randint(3, 6)
            exons = []
            p = pos
            for _ in range(nex):
                ln = rng.randint(150, 400)
                exons.append((p, p + ln - 1))
                p += ln + rng.randint(300, 1200)
            skip = rng.randint(1, nex - 2)
            txs = [("T%d_%d_a" % (c + 1, gi), exons), ("T%d_%d_b" % (c + 1, gi), exons[:skip] + exons[skip + 1:])]
            ds.add_gene(chrom, "G%d_%d" % (c + 1, gi), strand, txs)
            pos = p + 2500
        # annotated mono-exon gene
        strand = rng.choice("+-")
        ex = [(pos, pos + rng.randint(600, 900))]
        ds.add_gene(chrom, "GM%d" % (c + 1), strand, [("TM%d" % (c + 1), ex)])
        mono.append((chrom, strand, "TM%d" % (c + 1), ex))
        pos = ex[0][1] + 3000
        # un-annotated 2-exon locus (canonical sites planted)
        strand = rng.choice("+-")
        e1 = (pos, pos + rng.randint(250, 400))
        e2 = (e1[1] + rng.randint(500, 900), 0)
        e2 = (e2[0], e2[0] + rng.randint(250, 400))
        ds.plant_sites(chrom, [(e1[1] + 1, e2[0] - 1)], strand)
        novel.append((chrom, strand, [e1, e2]))
        assert e2[1] + 1000 < len(ds.chroms[chrom])
    return World(ds, novel, mono)


def _tailed(ds, name, chrom, strand, exons, tail):
    ds.read_from_exons(name, chrom, exons, polya=20 if (tail and strand == "+") else 0,
                       polyt=20 if (tail and strand == "-") else 0)


def make_reads(world, spec):
    """read dicts of one experiment (deterministic in spec['seed'])"""
    ds = world.ds
    rng = random.Random(spec["seed"])
    saved = ds.reads
    ds.reads = []
    lo, hi = spec.get("depth", [4, 8])
    tails = spec.get("tails", 0.0)
    nm = spec.get("tag", spec["name"])
    n = 0
    for g in ds.genes:
        for tid, ex in g["transcripts"]:
            if len(ex) > 1 and rng.random() > spec.get("express", 0.85):
                continue        # (annotated mono-exon genes are expressed in every experiment)
            for _ in range(rng.randint(lo, hi)):
                e = list(ex)
                full = True
                if len(e) > 2 and rng.random() < 0.25:
                    if rng.random() < 0.5:
                        e = e[1:]
                        full = g["strand"] == "+"
                    else:
                        e = e[:-1]
                        full = g["strand"] == "-"
                e[0] = (e[0][0] + rng.randint(0, 30), e[0][1])
                e[-1] = (e[-1][0], e[-1][1] - rng.randint(0, 30))
                if e[0][0] > e[0][1] or e[-1][0] > e[-1][1]:
                    continue
                n += 1
                _tailed(ds, "%s_r%d_%s" % (nm, n, tid), g["chr"], g["strand"], e, full and rng.random() < tails)
    for chrom, strand, ex in world.novel_loci:
        if rng.random() > spec.get("express_novel", 1.0):
            continue
        for _ in range(rng.randint(max(lo, 4), max(hi, 6))):
            e = [(ex[0][0] + rng.randint(0, 3), ex[0][1]), (ex[1][0], ex[1][1] - rng.randint(0, 3))]
            n += 1
            _tailed(ds, "%s_r%d_nov" % (nm, n), chrom, strand, e, rng.random() < tails)
    # exactly duplicated records (the same alignment of the same read written twice, as in carelessly
    # concatenated BAM files): `dups` distinct spliced reads are written a second time
    if spec.get("dups", 0):
        spliced = [r for r in ds.reads if "N" in r["cigar"] and not r["name"].endswith("_nov")]
        step = max(1, len(spliced) // spec["dups"])
        for r in spliced[::step][:spec["dups"]]:
            ds.reads.append(dict(r))
    for i in range(spec.get("unmapped", 0)):
        ds.add_read("%s_u%d" % (nm, i), "chr1", 0, "", flag=4, seq="ACGTTGCA" * 8)
    reads = ds.reads
    ds.reads = saved
    return reads


def write_world(world, d):
    os.makedirs(d, exist_ok=True)
    world.paths = world.ds.write(d, bam_name="_empty.bam", reads=[])
    return world.paths


def write_experiment(world, d, spec):
    """-> list of BAM paths of the experiment"""
    reads = make_reads(world, spec)
    k = max(1, spec.get("files", 1))
    mapped = [r for r in reads if not r["flag"] & 4]
    unm = [r for r in reads if r["flag"] & 4]
    parts = [mapped[i::k] for i in range(k)]
    parts[0] = parts[0] + unm
    res = []
    for i, part in enumerate(parts):
        bn = "%s%s.bam" % (spec["name"], "" if k == 1 else "_lib%d" % (i + 1))
        world.ds.write(d, bam_name=bn, reads=part, write_ref=False)
        res.append(os.path.join(d, bn))
    return res


def write_list_file(path, order, bams):
    """--bam_list format: '#NAME' header line, then one line per library"""
    with open(path, "w") as f:
        for nm in order:
            f.write("#%s\n" % nm)
            for b in bams[nm]:
                f.write("%s\n" % b)
    return path


def write_yaml_file(path, order, bams, illumina=None):
    """`illumina`: optional {experiment name: [short-read BAM paths]} -> the per-experiment `illumina bam` key"""
    illumina = illumina or {}
    with open(path, "w") as f:
        f.write('[\n  data format: "bam",\n')
        ents = []
        for nm in order:
            e = '  {\n    name: "%s",\n    long read files: [\n%s\n    ]' % (nm, ",\n".join('      "%s"' % b for b in bams[nm]))
            if illumina.get(nm):
                e += ',\n    illumina bam: [%s]' % ", ".join('"%s"' % b for b in illumina[nm])
            ents.append(e + '\n  }')
        f.write(",\n".join(ents) + "\n]\n")
    return path


def write_short_read_bam(long_bams, short_bam, shift=4, flank=50, copies=3):
    """short spliced reads whose introns end `shift` bp after the introns of the long reads: the shape of
    junction IlluminaExonCorrector moves a long-read junction to.  Returns the number of junctions written."""
    import pysam
    introns = set()
    header = None
    for lb in long_bams:
        inf = pysam.AlignmentFile(lb, "rb")
        header = header or inf.header
        for r in inf:
            if r.is_unmapped or r.is_secondary or r.is_supplementary:
                continue
            pos = r.reference_start
            for op, ln in r.cigartuples:
                if op == 3:
                    introns.add((r.reference_name, pos, pos + ln))
                if op in (0, 2, 3, 7, 8):
                    pos += ln
        inf.close()
    segs = []
    out = pysam.AlignmentFile(short_bam, "wb", header=header)
    n = 0
    for chrom, s, e in sorted(introns, key=lambda x: (out.get_tid(x[0]), x[1] - flank, x[2])):
        if s - flank < 0:
            continue
        for k in range(copies):
            a = pysam.AlignedSegment(out.header)
            a.query_name = "short_%d_%d" % (n, k)
            a.query_sequence = "A" * (2 * flank)
            a.flag = 0
            a.reference_id = out.get_tid(chrom)
            a.reference_start = s - flank
            a.mapping_quality = 60
            a.cigartuples = [(0, flank), (3, e + shift - s), (0, flank)]
            a.query_qualities = pysam.qualitystring_to_array("I" * (2 * flank))
            segs.append(a)
        n += 1
    segs.sort(key=lambda a: (a.reference_id, a.reference_start))
    for a in segs:
        out.write(a)
    out.close()
    pysam.index(short_bam)
    return n


def random_specs(rng, n, quick=True):
    """n experiment specs: a polyA-rich one, a tail-less one, then random; some share a seed (same data twice)"""
    specs = []
    kinds = [1.0, 0.0] + [rng.choice([0.0, 0.4, 1.0]) for _ in range(max(0, n - 2))]
    rng.shuffle(kinds)
    for i in range(n):
        specs.append({"name": "E%d" % (i + 1), "seed": rng.randint(1, 10 ** 6), "tails": kinds[i],
                      "unmapped": rng.choice([0, 2, 5]), "depth": [4, 8] if quick else [5, 12], "files": 1})
    if n >= 2 and rng.random() < 0.5:
        # same data twice under two names
        j = rng.randrange(1, n)
        twin = dict(specs[0])
        twin["tag"] = specs[0]["name"]
        twin["name"] = specs[j]["name"]
        specs[j] = twin
    return specs
