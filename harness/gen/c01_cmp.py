"""C01, JunctionComparator.compare_junctions: the real comparator behind a thin wrapper, the literal corpus of
/repo/tests/test_long_read_assigner.py (extracted from the test file's AST, never imported), exhaustive small universes of
read / isoform intron chains and seeded random ones.  Everything random comes from the `rng` passed in.

A comparator case is a dict
  {"params": {...}, "cparams": {...}, "known": [[a, b], ...], "gene_region": [s, e],
   "read_junctions": [...], "read_region": [s, e], "iso_junctions": [...], "iso_region": [s, e]}
exactly the request of driver op `C01.compare`.
"""
import ast
import itertools
import os
import types
from collections import namedtuple
from fractions import Fraction

import vlib

P_FIELDS = ["delta", "minor_exon_extension", "major_exon_extension", "min_abs_exon_overlap", "apa_delta",
            "minimal_exon_overlap", "minimal_intron_absence_overlap", "max_fake_terminal_exon_len",
            "max_missed_exon_len"]
Q_INT = ["max_intron_shift", "micro_intron_length", "max_intron_abs_diff", "max_suspicious_intron_abs_len"]
Q_FRAC = ["max_intron_rel_diff", "min_rel_exon_overlap", "max_suspicious_intron_rel_len"]

ERRS = (IndexError, AssertionError, ZeroDivisionError, KeyError, ValueError, TypeError, AttributeError)

IntronProfiles = namedtuple("IntronProfiles", ("features",))
GeneInfoTuple = namedtuple("GeneInfo", ("intron_profiles", "start", "end"))


def _mods():
    vlib.repo_on_path()
    import logging
    logging.getLogger("IsoQuant").setLevel(logging.CRITICAL)
    import src.long_read_assigner as LA
    import src.isoform_assignment as IA
    import src.junction_comparator as JC
    import src.long_read_profiles as LP
    return LA, IA, JC, LP


def frac_of(x):
    """the float parameter as the small fraction it was written as (0.2 -> 1/5); the model computes with the fraction"""
    f = Fraction(x).limit_denominator(10 ** 6)
    if float(f) != float(x):
        raise ValueError("parameter %r is not a small fraction" % (x,))
    return f


def cparams_json(p):
    d = {k: int(getattr(p, k)) for k in Q_INT}
    for k in Q_FRAC:
        f = frac_of(getattr(p, k))
        d[k] = [f.numerator, f.denominator]
    return d


def params_json(p):
    d = {k: int(getattr(p, k)) for k in P_FIELDS}
    d["resolve_ambiguous"] = getattr(getattr(p, "resolve_ambiguous", None), "name", "none")
    if d["resolve_ambiguous"] not in ("none", "monoexon_only", "monoexon_and_fsm", "all"):
        d["resolve_ambiguous"] = "none"
    return d


def event_json(e):
    return [e.event_type.name, [int(e.isoform_region[0]), int(e.isoform_region[1])],
            [int(e.read_region[0]), int(e.read_region[1])], int(e.event_info)]


def mk_params(**kw):
    base = dict(delta=0, minor_exon_extension=50, major_exon_extension=300, min_abs_exon_overlap=10,
                min_rel_exon_overlap=0.2, max_suspicious_intron_abs_len=0, max_suspicious_intron_rel_len=0.0,
                max_fake_terminal_exon_len=0, micro_intron_length=50, max_intron_abs_diff=30, max_intron_rel_diff=0.2,
                apa_delta=50, minimal_exon_overlap=5, minimal_intron_absence_overlap=20, max_intron_shift=60,
                max_missed_exon_len=100, correct_minor_errors=True, count_exons=False)
    base.update(kw)
    return types.SimpleNamespace(**base)


class RealComparator:
    """the comparator exactly as LongReadAssigner.__init__ builds it, over an arbitrary known-intron list / gene region"""

    def __init__(self, params, known, gene_region):
        LA, IA, JC, LP = _mods()
        self.IA = IA
        gi = GeneInfoTuple(IntronProfiles([tuple(k) for k in known]), gene_region[0], gene_region[1])
        asg = LA.LongReadAssigner.__new__(LA.LongReadAssigner)
        # the constructor also builds a PolyAVerifier (needs a full GeneInfo); the comparator part is copied verbatim
        from functools import partial
        from src.common import equal_ranges
        self.cmp = JC.JunctionComparator(
            params, LP.OverlappingFeaturesProfileConstructor(gi.intron_profiles.features, (gi.start, gi.end),
                                                             comparator=partial(equal_ranges, delta=params.delta)))
        self.trace = {}
        cmp_ = self.cmp
        trace = self.trace
        orig_detect = cmp_.detect_contradiction_type
        orig_extra = cmp_.add_extra_out_exon_events

        def detect(read_region, read_junctions, isoform_region, isoform_junctions, pairs):
            trace["pairs"] = [pair_json(p, IA) for p in pairs]
            return orig_detect(read_region, read_junctions, isoform_region, isoform_junctions, pairs)

        def extra(match_events, profile, read_region, read_introns, isoform_start):
            trace["read_profile"] = [int(x) for x in profile]
            return orig_extra(match_events, profile, read_region, read_introns, isoform_start)

        cmp_.detect_contradiction_type = detect
        cmp_.add_extra_out_exon_events = extra

    def compare(self, rj, rr, ij, ir):
        self.trace.clear()
        ev = self.cmp.compare_junctions([tuple(x) for x in rj], tuple(rr), [tuple(x) for x in ij], tuple(ir))
        return [event_json(e) for e in ev]


def pair_json(p, IA):
    ab = IA.SupplementaryMatchConstants.absent_position
    (r0, r1), (i0, i1) = p
    if r0 == ab:
        return ["retention", r1, i0]
    if i0 == ab:
        return ["extra", r0, i1]
    return ["both", r0, r1, i0, i1]


def assigner_ctor_matches():
    """the wrapper above must build the comparator the way LongReadAssigner.__init__ does; checked on the source text"""
    src_path = os.path.join(os.environ.get("VERIF_REPO", "/repo"), "src", "long_read_assigner.py")
    with open(src_path) as f:
        tree = ast.parse(f.read())
    for n in ast.walk(tree):
        if isinstance(n, ast.Assign) and isinstance(n.targets[0], ast.Attribute) and n.targets[0].attr == "intron_comparator":
            txt = ast.unparse(n.value).replace(" ", "")
            want = ("JunctionComparator(params,OverlappingFeaturesProfileConstructor(self.gene_info.intron_profiles.features,"
                    "(self.gene_info.start,self.gene_info.end),comparator=partial(equal_ranges,delta=self.params.delta)))")
            return txt == want
    return False


def impl_compare(kw, params):
    try:
        rc = RealComparator(params, kw["known"], kw["gene_region"])
        return rc.compare(kw["read_junctions"], kw["read_region"], kw["iso_junctions"], kw["iso_region"]), dict(rc.trace)
    except ERRS as ex:
        return {"error": "error", "exc": type(ex).__name__}, {}


def impl_compare_exact(kw, params):
    """the same run with the float parameters replaced by exact fractions (Fraction arithmetic in the real code)"""
    p2 = types.SimpleNamespace(**vars(params))
    for k in Q_FRAC:
        setattr(p2, k, frac_of(getattr(params, k)))
    return impl_compare(kw, p2)[0]


def case(params, known, gene_region, rj, rr, ij, ir):
    return {"params": params_json(params), "cparams": cparams_json(params), "known": [list(k) for k in known],
            "gene_region": list(gene_region), "read_junctions": [list(x) for x in rj], "read_region": list(rr),
            "iso_junctions": [list(x) for x in ij], "iso_region": list(ir)}


# ------------------------------------------------------------------------------------------------
# the literal corpus of tests/test_long_read_assigner.py (class TestCompareJunctions)

def test_corpus():
    """-> list of (test name, params, known, gene_region, rj, rr, ij, ir, expected event name or None)"""
    LA, IA, JC, LP = _mods()
    path = os.path.join(os.environ.get("VERIF_REPO", "/repo"), "tests", "test_long_read_assigner.py")
    with open(path) as f:
        tree = ast.parse(f.read())
    env = {"MatchEventSubtype": IA.MatchEventSubtype}
    cls = next(n for n in tree.body if isinstance(n, ast.ClassDef) and n.name == "TestCompareJunctions")
    pcls = next(n for n in tree.body if isinstance(n, ast.ClassDef) and n.name == "Params")
    base = {}
    for n in ast.walk(pcls):
        if isinstance(n, ast.Assign) and isinstance(n.targets[0], ast.Attribute) and isinstance(n.value, ast.Constant):
            base[n.targets[0].attr] = n.value.value
    known, gene_region = None, None
    for n in cls.body:
        if isinstance(n, ast.Assign) and n.targets[0].id == "gene_info":
            call = n.value
            known = ast.literal_eval(call.args[0].args[0])
            gene_region = (ast.literal_eval(call.args[1]), ast.literal_eval(call.args[2]))
    out = []
    for fn in cls.body:
        if not isinstance(fn, ast.FunctionDef):
            continue
        uses = any(isinstance(n, ast.Attribute) and n.attr == "compare_junctions" for n in ast.walk(fn))
        if not uses:
            continue
        over = {}
        for n in ast.walk(fn):
            if isinstance(n, ast.Assign) and isinstance(n.targets[0], ast.Attribute) and \
                    isinstance(n.targets[0].value, ast.Attribute) and n.targets[0].value.attr == "params" and \
                    isinstance(n.value, ast.Constant):
                over[n.targets[0].attr] = n.value.value
        for dec in fn.decorator_list:
            if not (isinstance(dec, ast.Call) and ast.unparse(dec.func).endswith("parametrize")):
                continue
            names = [s.strip() for s in ast.literal_eval(dec.args[0]).split(",")]
            rows = eval(compile(ast.Expression(dec.args[1]), "<corpus>", "eval"), env)
            for row in rows:
                d = dict(zip(names, row))
                pd = dict(base)
                pd.update(over)
                pd["delta"] = d["delta"]
                pd.pop("resolve_ambiguous", None)
                params = mk_params(**pd)
                exp = d.get("expected")
                out.append((fn.name, params, known, gene_region, d["read_junctions"], d["read_region"],
                            d["isoform_junctions"], d["isoform_region"],
                            exp.name if isinstance(exp, IA.MatchEventSubtype) else None))
    return out


# ------------------------------------------------------------------------------------------------
# small universes

def chains(lo, hi, max_introns):
    """all intron chains as junctions_from_blocks produces them (a <= b, next start >= previous end + 2) inside [lo, hi]"""
    res = [[]]

    def rec(prefix, start, left):
        if left == 0:
            return
        for a in range(start, hi + 1):
            for b in range(a, hi + 1):
                ch = prefix + [(a, b)]
                res.append(ch)
                rec(ch, b + 2, left - 1)

    rec([], lo, max_introns)
    return res


def tiny_param_sets(rng, n):
    sets = []
    for _ in range(n):
        d = rng.choice([0, 0, 1, 1, 2])
        sets.append(mk_params(
            delta=d, minor_exon_extension=rng.choice([1, 2, 3]), major_exon_extension=6,
            min_abs_exon_overlap=rng.choice([0, 1, 2, 3]), min_rel_exon_overlap=rng.choice([0.2, 0.5, 0.25]),
            max_suspicious_intron_abs_len=rng.choice([0, 1, 2, 3]),
            max_suspicious_intron_rel_len=rng.choice([0.0, 1.0, 0.5]),
            max_fake_terminal_exon_len=rng.choice([0, 1, 2]), micro_intron_length=rng.choice([0, 1, 2, 3]),
            max_intron_abs_diff=rng.choice([0, 1, 2, 4]), max_intron_rel_diff=rng.choice([0.2, 0.5, 1.0]),
            minimal_exon_overlap=rng.choice([0, 1, 2]), minimal_intron_absence_overlap=rng.choice([0, 1, 2]),
            max_intron_shift=rng.choice([0, 1, 2, 3]), max_missed_exon_len=rng.choice([0, 2, 3, 5])))
    return sets


def small_universe(rng, hi, max_introns, param_sets, sample=None):
    """(params, case) for every pair of chains in [2, hi] x a few region choices; `sample` = keep that many at random"""
    chs = chains(2, hi, max_introns)
    pairs = list(itertools.product(chs, chs))
    if sample is not None and sample < len(pairs):
        pairs = rng.sample(pairs, sample)
    out = []
    for rj, ij in pairs:
        # regions as the assigner passes them: an exon of at least one base on both sides of the chain; for chains that
        # start later also a region that starts well before
        def regions(ch):
            if not ch:
                return [(rng.randint(1, hi), rng.randint(1, hi) + hi // 2)]
            lo_ = ch[0][0] - 1
            hi_ = ch[-1][1] + 1
            return [(lo_, hi_), (max(0, lo_ - rng.randint(0, 3)), hi_ + rng.randint(0, 3))]
        params = rng.choice(param_sets)
        for rr in regions(rj):
            for ir in regions(ij):
                pool = sorted(set(ij) | set(rng.sample(rj, rng.randint(0, len(rj)))) |
                              {(a, a + rng.randint(0, 2)) for a in rng.sample(range(1, hi + 1), rng.randint(0, 2))})
                gr = (min([rr[0], ir[0]] + [k[0] for k in pool]) - rng.choice([0, 1]),
                      max([rr[1], ir[1]] + [k[1] for k in pool]) + rng.choice([0, 1]))
                if rng.random() < 0.15:
                    gr = (ir[0], ir[1])
                out.append((params, case(params, pool, gr, rj, rr, ij, ir)))
    return out


# ------------------------------------------------------------------------------------------------
# random chains at genome scale around the thresholds of the presets

def _rand_chain(rng, start, n, exon_len, intron_len):
    ch = []
    p = start
    for _ in range(n):
        p += rng.randint(*exon_len)
        ln = rng.randint(*intron_len)
        ch.append((p, p + ln - 1))
        p += ln
    return ch, p + rng.randint(*exon_len)


def mutate_chain(rng, ch, scale):
    """read chain derived from an isoform chain: jitter, shifts at the thresholds, skipped / extra / split introns"""
    ch = [list(x) for x in ch]
    small = [0, 1, 2, 3, 4, 5, 6, 7, 8, 11, 12, 13, 24, 25]
    big = [29, 30, 31, 59, 60, 61, 99, 100, 101, 150, 400]
    for _ in range(rng.randint(0, 3)):
        if not ch:
            break
        kind = rng.choice(["jit", "shift_l", "shift_r", "move", "drop", "merge", "split", "extra_in", "extra_out", "trunc"])
        i = rng.randrange(len(ch))
        d = int(rng.choice(small + big) * scale) * rng.choice([-1, 1])
        if kind == "jit":
            ch[i][0] += rng.randint(-6, 6)
            ch[i][1] += rng.randint(-6, 6)
        elif kind == "shift_l":
            ch[i][0] += d
        elif kind == "shift_r":
            ch[i][1] += d
        elif kind == "move":
            ch[i][0] += d
            ch[i][1] += d + rng.choice([0, 0, 1, -2, 5])
        elif kind == "drop":
            del ch[i]
        elif kind == "merge" and i + 1 < len(ch):
            ch[i:i + 2] = [[ch[i][0], ch[i + 1][1]]]
        elif kind == "split" and ch[i][1] - ch[i][0] > 8:
            a = rng.randint(ch[i][0] + 1, ch[i][1] - 4)
            b = rng.randint(a + 1, min(ch[i][1] - 2, a + int(rng.choice([3, 20, 100, 150]))))
            ch[i:i + 1] = [[ch[i][0], a], [b, ch[i][1]]]
        elif kind == "extra_in":
            # an extra intron inside an exon (short = suspicious, or long)
            prev_end = ch[i - 1][1] if i > 0 else ch[i][0] - int(200 * scale) - 10
            if ch[i][0] - prev_end > 12:
                a = rng.randint(prev_end + 3, ch[i][0] - 6)
                b = min(ch[i][0] - 3, a + rng.choice([1, 3, 20, 59, 60, 61, 200]))
                if b >= a:
                    ch.insert(i, [a, b])
        elif kind == "extra_out":
            if rng.random() < 0.5:
                a = ch[0][0] - rng.choice([10, 21, 41, 42, 100, 300]) - rng.randint(50, 300)
                ch.insert(0, [a, a + rng.randint(20, 200)])
            else:
                a = ch[-1][1] + rng.choice([10, 21, 41, 42, 100, 300])
                ch.append([a, a + rng.randint(20, 200)])
        elif kind == "trunc":
            if rng.random() < 0.5:
                ch = ch[rng.randint(0, len(ch) - 1):]
            else:
                ch = ch[:rng.randint(1, len(ch))]
    out = []
    for a, b in sorted(map(tuple, ch)):
        if a > b:
            continue
        if out and a < out[-1][1] + 2:
            continue
        out.append((a, b))
    return out


def random_cases(rng, n, preset_params):
    out = []
    for _ in range(n):
        params = rng.choice(preset_params)
        scale = rng.choice([1.0, 1.0, 0.3])
        nint = rng.randint(0, 5)
        ij, iend = _rand_chain(rng, rng.randint(1000, 2000), nint, (int(20 * scale) + 1, int(300 * scale) + 2),
                               (int(30 * scale) + 1, int(900 * scale) + 2))
        istart = (ij[0][0] if ij else iend) - rng.randint(1, int(300 * scale) + 1)
        ir = (istart, iend)
        others = []
        for _ in range(rng.randint(0, 2)):
            o, _e = _rand_chain(rng, istart + rng.randint(-200, 200), rng.randint(1, 4), (20, 300), (30, 900))
            others += o
        rj = mutate_chain(rng, ij, scale)
        if rng.random() < 0.1:
            rj = mutate_chain(rng, rng.choice([others, ij]) if others else ij, scale)
        if rj:
            rr = (rj[0][0] - rng.choice([1, 5, 20, 21, 40, 41, 42, 150]), rj[-1][1] + rng.choice([1, 5, 20, 21, 40, 41, 42, 150]))
        else:
            a = rng.randint(ir[0] - 100, ir[1])
            rr = (a, a + rng.randint(1, 1500))
        known = sorted(set(ij) | set(others) | set(rng.sample(rj, rng.randint(0, len(rj)))))
        gr = (min([ir[0]] + [k[0] for k in known]) - rng.choice([0, 1, 100]),
              max([ir[1]] + [k[1] for k in known]) + rng.choice([0, 1, 100]))
        out.append((params, case(params, known, gr, rj, rr, ij, ir)))
    return out


def malformed_cases(rng, n, param_sets):
    """arbitrary interval lists (a <= b, but unsorted / overlapping / touching) and arbitrary regions: the comparator is
    compared on them too (no claim of the property depends on them)"""
    out = []
    for _ in range(n):
        params = rng.choice(param_sets)
        hi = rng.choice([8, 12, 30])

        def ivs(k):
            res = []
            for _ in range(k):
                a = rng.randint(0, hi)
                res.append((a, a + rng.randint(0, hi // 2)))
            if rng.random() < 0.6:
                res.sort()
            return res

        def reg():
            a = rng.randint(0, hi)
            return (a, a + rng.randint(0, hi))

        rj, ij = ivs(rng.randint(0, 4)), ivs(rng.randint(0, 4))
        known = sorted(set(ivs(rng.randint(0, 4)) + rng.sample(ij, rng.randint(0, len(ij)))))
        out.append((params, case(params, known, reg(), rj, reg(), ij, reg())))
    return out


# ------------------------------------------------------------------------------------------------
# the hypotheses of the Lean theorems of Props/C01Compare / C01Converse, re-stated on positions (independent of the
# driver: the oracle must work without it; the correspondence compares this with driver op C01.tolerance)

def py_equal(k, r, d):
    return abs(k[0] - r[0]) <= d and abs(k[1] - r[1]) <= d


def py_overlaps(a, b):
    return not (a[1] < b[0] or a[0] > b[1])


def py_chains_wf(d, rj, rr, ij, ir):
    def sd(l):
        return all(l[i][1] < l[i + 1][0] for i in range(len(l) - 1))
    return (d >= 0 and sd(rj) and sd(ij) and all(2 * d <= r[1] - r[0] for r in rj) and all(2 * d <= k[1] - k[0] for k in ij)
            and all(rr[0] <= r[0] and r[1] <= rr[1] for r in rj) and all(ir[0] <= k[0] and k[1] <= ir[1] for k in ij))


def py_tolerance(kw):
    """-> the value driver op C01.tolerance returns, minus `no_contradiction`"""
    p, q = kw["params"], kw["cparams"]
    rj, rr, ij, ir = kw["read_junctions"], kw["read_region"], kw["iso_junctions"], kw["iso_region"]
    d = p["delta"]
    ln = lambda x: x[1] - x[0] + 1
    first = lambda reg, J: (J[0][0] - reg[0]) if J else 0
    last = lambda reg, J: (reg[1] - J[-1][1]) if J else 0
    rows = []
    for i, r in enumerate(rj):
        far = all(not py_equal(k, r, d) for k in ij)
        susp = ln(r) <= q["max_suspicious_intron_abs_len"]
        shift = any(abs(k[0] - r[0]) <= q["max_intron_shift"] and abs(ln(r) - ln(k)) <= q["max_intron_abs_diff"] for k in ij)
        missed = any(ij[t + 1][0] - ij[t][1] + 1 <= p["max_missed_exon_len"] for t in range(len(ij) - 1))
        fake = (i == 0 and first(rr, rj) <= p["max_fake_terminal_exon_len"]) or \
               (i + 1 == len(rj) and last(rr, rj) <= p["max_fake_terminal_exon_len"])
        term = len(rj) > 1 and ((i == 0 and abs(first(rr, rj) - first(ir, ij)) < 2 * d) or
                                (i + 1 == len(rj) and abs(last(rr, rj) - last(ir, ij)) < 2 * d))
        rows.append({"far": far, "tolerated": bool(susp or shift or missed or fake or term),
                     "terminal_misalignment_class": bool(term)})
    return {"chains_wf": py_chains_wf(d, rj, rr, ij, ir), "introns": rows}


def py_no_contradiction_rhs(kw):
    """right-hand side of `no_contradiction_iff`"""
    d = kw["params"]["delta"]
    rj, rr, ij, ir = kw["read_junctions"], kw["read_region"], kw["iso_junctions"], kw["iso_region"]
    return all((not py_overlaps(ir, r)) or any(py_equal(k, r, d) for k in ij) for r in rj) and \
        all((not py_overlaps(rr, k)) or any(py_equal(k, r, d) for r in rj) for k in ij)


def wf_cases(rng, n, preset_params):
    """random chains inside the domain of the theorems (`ChainsWF`): kept only when py_chains_wf holds"""
    out = []
    tries = 0
    while len(out) < n and tries < 20 * n:
        tries += 1
        params, c = random_cases(rng, 1, preset_params)[0]
        if c["read_junctions"] and py_chains_wf(params.delta, c["read_junctions"], c["read_region"], c["iso_junctions"],
                                                c["iso_region"]):
            out.append((params, c))
    return out


def blocks_of(region, junctions):
    """exon blocks of a chain inside a region"""
    bl = []
    s = region[0]
    for a, b in junctions:
        bl.append((s, a - 1))
        s = b + 1
    bl.append((s, region[1]))
    return bl
