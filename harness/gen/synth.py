"""Synthetic genome / annotation / alignment writers (pysam only; no external binaries).

A `Dataset` holds chromosomes (random sequence), genes -> transcripts (exon lists, strand) and reads
(name, chr, 0-based start, cigar string, flag, mapq, tags).  `write(dir)` produces ref.fa(+.fai), ann.gtf,
reads.bam(+.bai) (coordinate sorted) and returns the paths.
"""
import os
import random
import re

COMP = {"A": "T", "C": "G", "G": "C", "T": "A", "N": "N"}


def revcomp(s):
    return "".join(COMP[c] for c in reversed(s))


class Dataset:
    def __init__(self, seed=1):
        self.rng = random.Random(seed)
        self.chroms = {}      # name -> sequence (str)
        self.genes = []       # dict(chr, gene_id, strand, transcripts=[(tid, exons)])
        self.reads = []       # dict(name, chr, start0, cigar, flag, mapq, tags, seq=None)
        # transcript id -> the exon records AS WRITTEN into the GTF when they differ from the transcript's exon list: a line
        # listed twice (concatenated annotations), overlapping exons, another order (descending on '-' as Ensembl writes them)
        self.exon_lines = {}

    def add_chrom(self, name, length):
        self.chroms[name] = "".join(self.rng.choice("ACGT") for _ in range(length))

    def plant_sites(self, chrom, introns, strand="+"):
        """make every intron (1-based closed) canonical GT-AG on `strand`"""
        s = list(self.chroms[chrom])
        for a, b in introns:
            l, r = ("GT", "AG") if strand == "+" else ("CT", "AC")
            s[a - 1:a + 1] = l
            s[b - 2:b] = r
        self.chroms[chrom] = "".join(s)

    def add_gene(self, chrom, gene_id, strand, transcripts, plant=True):
        self.genes.append({"chr": chrom, "gene_id": gene_id, "strand": strand, "transcripts": transcripts})
        if plant:
            for _, exons in transcripts:
                introns = [(exons[i][1] + 1, exons[i + 1][0] - 1) for i in range(len(exons) - 1)]
                self.plant_sites(chrom, introns, strand)

    def add_read(self, name, chrom, start0, cigar, flag=0, mapq=60, tags=None, seq=None):
        self.reads.append({"name": name, "chr": chrom, "start0": start0, "cigar": cigar, "flag": flag, "mapq": mapq,
                           "tags": tags or [], "seq": seq})

    def add_raw_record(self, name, chrom, start0, cigar=None, flag=0, mapq=60, seq=None):
        """a record written LITERALLY: reference id / position are kept whatever the flag says (flag 4 + `chrom` = the
        placed unmapped mate of the SAM convention), `cigar=None` = no CIGAR ('*'); `cigar` may be a string over
        MIDNSHP=XB (zero lengths allowed) or a list of (op code, length) pairs"""
        self.reads.append({"name": name, "chr": chrom, "start0": start0, "cigar": cigar, "flag": flag, "mapq": mapq,
                           "tags": [], "seq": seq, "raw": True})

    def read_from_exons(self, name, chrom, exons, flag=0, mapq=60, tags=None, polya=0, polyt=0):
        """alignment following 1-based closed exon blocks; optional soft-clipped polyA (3') / polyT (5') tail"""
        parts = []
        for i, (a, b) in enumerate(exons):
            if i > 0:
                parts.append("%dN" % (a - exons[i - 1][1] - 1))
            parts.append("%dM" % (b - a + 1))
        cig = ("%dS" % polyt if polyt else "") + "".join(parts) + ("%dS" % polya if polya else "")
        ref = self.chroms[chrom]
        seq = "T" * polyt + "".join(ref[a - 1:b] for a, b in exons) + "A" * polya
        self.add_read(name, chrom, exons[0][0] - 1, cig, flag, mapq, tags, seq)

    def _seq_for(self, r):
        if r["seq"] is not None:
            return r["seq"]
        ref = self.chroms[r["chr"]]
        pos = r["start0"]
        s = ""
        for n, op in re.findall(r"(\d+)([MIDNSHP=X])", r["cigar"]):
            n = int(n)
            if op in "M=X":
                s += ref[pos:pos + n]
                pos += n
            elif op in "DN":
                pos += n
            elif op in "IS":
                s += "C" * n
        return s

    def gtf_lines(self):
        out = []
        for g in sorted(self.genes, key=lambda g: (g["chr"], min(e[0] for _, ex in g["transcripts"] for e in ex))):
            allex = [e for _, ex in g["transcripts"] for e in ex]
            gs, ge = min(e[0] for e in allex), max(e[1] for e in allex)
            out.append('%s\tsyn\tgene\t%d\t%d\t.\t%s\t.\tgene_id "%s";' % (g["chr"], gs, ge, g["strand"], g["gene_id"]))
            for tid, ex in g["transcripts"]:
                out.append('%s\tsyn\ttranscript\t%d\t%d\t.\t%s\t.\tgene_id "%s"; transcript_id "%s";'
                           % (g["chr"], ex[0][0], ex[-1][1], g["strand"], g["gene_id"], tid))
                for a, b in self.exon_lines.get(tid, ex):
                    out.append('%s\tsyn\texon\t%d\t%d\t.\t%s\t.\tgene_id "%s"; transcript_id "%s";'
                               % (g["chr"], a, b, g["strand"], g["gene_id"], tid))
        return out

    def write(self, d, bam_name="reads.bam", reads=None, write_ref=True, header=None, fasta_len=None):
        """header: [(name, length)..] = the @SQ lines of the BAM file when they are not the chromosomes of the data set in
        their order (a part that lists fewer sequences / another order / another length; every read written must lie on a
        listed sequence); fasta_len: {name: n} = only the first n bases of that chromosome go into ref.fa (a truncated /
        older reference: the BAM header then declares a longer sequence than the FASTA holds, as tests/simple_data does)"""
        import pysam
        os.makedirs(d, exist_ok=True)
        names = list(self.chroms)
        fasta_names = names
        if header is not None:
            names = [n for n, _ in header]
        paths = {"ref": os.path.join(d, "ref.fa"), "gtf": os.path.join(d, "ann.gtf"), "bam": os.path.join(d, bam_name)}
        if write_ref:
            with open(paths["ref"], "w") as f:
                for n in fasta_names:
                    s = self.chroms[n]
                    if fasta_len and n in fasta_len:
                        s = s[:fasta_len[n]]
                    f.write(">%s\n" % n)
                    for i in range(0, len(s), 60):
                        f.write(s[i:i + 60] + "\n")
            pysam.faidx(paths["ref"])
            with open(paths["gtf"], "w") as f:
                f.write("\n".join(self.gtf_lines()) + "\n")
        hdr = {"HD": {"VN": "1.6", "SO": "coordinate"}, "SQ": [{"SN": n, "LN": len(self.chroms[n])} for n in names]}
        if header is not None:
            hdr["SQ"] = [{"SN": n, "LN": ln} for n, ln in header]
        segs = []
        for r in (self.reads if reads is None else reads):
            a = pysam.AlignedSegment()
            a.query_name = r["name"]
            a.flag = r["flag"]
            if r.get("raw"):
                a.reference_id = names.index(r["chr"]) if r["chr"] is not None else -1
                a.reference_start = r["start0"]
                a.mapping_quality = r["mapq"]
                if isinstance(r["cigar"], str):
                    a.cigarstring = r["cigar"]
                elif r["cigar"] is not None:
                    a.cigartuples = [tuple(x) for x in r["cigar"]]
                s = r["seq"] if r["seq"] is not None else (self._seq_for(r) if isinstance(r["cigar"], str) else "") or "ACGT" * 10
                a.query_sequence = s
                a.query_qualities = pysam.qualitystring_to_array("I" * len(s))
                segs.append((a.reference_id if a.reference_id >= 0 else len(names), a.reference_start, a))
                continue
            if r["flag"] & 4:
                a.reference_id = -1
                a.reference_start = -1
                s = r["seq"] or "ACGT" * 10
                a.query_sequence = s
                a.query_qualities = pysam.qualitystring_to_array("I" * len(s))
                segs.append((len(names), 0, a))
                continue
            a.reference_id = names.index(r["chr"])
            a.reference_start = r["start0"]
            a.mapping_quality = r["mapq"]
            a.cigarstring = r["cigar"]
            s = self._seq_for(r)
            if "H" in r["cigar"] or not s:
                s = s or "A"
            a.query_sequence = s
            a.query_qualities = pysam.qualitystring_to_array("I" * len(s))
            for t in r["tags"]:
                a.set_tag(*t)
            segs.append((a.reference_id, a.reference_start, a))
        segs.sort(key=lambda x: (x[0], x[1]))
        with pysam.AlignmentFile(paths["bam"], "wb", header=hdr) as out:
            for _, _, a in segs:
                out.write(a)
        pysam.index(paths["bam"])
        return paths


def simple_dataset(seed=1, n_chroms=2, genes_per_chrom=3, reads_per_tx=6, chrom_len=40000, polya=True):
    """multi-isoform genes on both strands with reads that follow the isoforms (truncation, polyA tails)"""
    ds = Dataset(seed)
    rng = ds.rng
    for c in range(n_chroms):
        chrom = "chr%d" % (c + 1)
        ds.add_chrom(chrom, chrom_len)
        pos = 1000
        for gi in range(genes_per_chrom):
            strand = rng.choice("+-")
            nex = rng.randint(2, 6)
            exons = []
            p = pos
            for _ in range(nex):
                ln = rng.randint(120, 400)
                exons.append((p, p + ln - 1))
                p += ln + rng.randint(300, 1500)
            txs = [("T%d_%d_a" % (c + 1, gi), exons)]
            if nex >= 3:
                skip = rng.randint(1, nex - 2)
                txs.append(("T%d_%d_b" % (c + 1, gi), exons[:skip] + exons[skip + 1:]))
            ds.add_gene(chrom, "G%d_%d" % (c + 1, gi), strand, txs)
            for tid, ex in txs:
                for k in range(reads_per_tx):
                    e = list(ex)
                    if rng.random() < 0.3 and len(e) > 2:
                        e = e[1:] if rng.random() < 0.5 else e[:-1]
                    e[0] = (e[0][0] + rng.randint(0, 40), e[0][1])
                    e[-1] = (e[-1][0], e[-1][1] - rng.randint(0, 40))
                    pa = 20 if (polya and strand == "+" and e[-1] == ex[-1][:1] + (e[-1][1],) and rng.random() < 0.6) else 0
                    pt = 20 if (polya and strand == "-" and rng.random() < 0.6 and e[0][0] - ex[0][0] <= 40) else 0
                    ds.read_from_exons("r_%s_%d" % (tid, k), chrom, e, polya=pa, polyt=pt)
            pos = p + 2000
    return ds
