"""Pipeline datasets whose read cluster is CUT into sub-regions (C04 growth `c04split`).

`AlignmentCollector.split_coverage_regions` cuts a cluster of >= 32768 bp (or >= 1024 reads) at the first 256-bp coverage bin, at
least 128 bins after the sub-region start, whose coverage is <= max(1, 1 % of the running maximum).  Every alignment that
OVERLAPS a sub-region is processed there, so an alignment bridging the cut is handed to two `GraphBasedModelConstructor`s; the
multimap resolver keeps it in the sub-region it overlaps most (noninformative records) / whose annotation explains it best.

A split locus here = a deep 2-exon neighbour `F` (hundreds of reads, its intron spans the first ~24 kb) whose second exon
overlaps the first exon of a lowly expressed isoform `N` that reaches beyond the cut.  Reads of `N` get two (or more) groups of
5' ends so that the resolver distributes them over both sub-regions.
"""
import random

from gen import synth

BIN = 256
MAX_REGION_LEN = 32768


def junctions(ex):
    return [(ex[i][1] + 1, ex[i + 1][0] - 1) for i in range(len(ex) - 1)]


def expected_cut(cluster_start0):
    """first base (1-based) of the second sub-region when the valley starts right after bin `start_bin + 128`"""
    return (cluster_start0 // BIN + MAX_REGION_LEN // BIN) * BIN


def split_dataset(seed=11, chrom_len=60000, n_fill=700, f_exons=((1000, 1500), (25000, 25600)),
                  n_exons=((25300, 25800), (40000, 40300), (41000, 41500)), starts=(25300, 25700), per_start=3,
                  strand="+", annotate_f=False, genes=(), with_filler=True, far_gene=True, ends=None):
    """-> synth.Dataset.  `starts`: 5' coordinates of the read groups of isoform N (first exon start replaced);
    `genes`: extra annotated genes [(gene_id, strand, [(tid, exons)])]; `per_start`: number of reads per group (int or one per group);
    `ends`: high-coordinate end of the last exon per group (None = as `n_exons`)"""
    ds = synth.Dataset(seed)
    ds.add_chrom("chr1", chrom_len)
    F = [tuple(e) for e in f_exons]
    N = [tuple(e) for e in n_exons]
    ds.plant_sites("chr1", junctions(F) + junctions(N), strand)
    flag = 0 if strand == "+" else 16
    tail = {"polya": 25} if strand == "+" else {"polyt": 25}
    if with_filler:
        for k in range(n_fill):
            ds.read_from_exons("F%d" % k, "chr1", F, flag=flag, **tail)
    for j, s in enumerate(starts):
        for k in range(per_start[j] if isinstance(per_start, (tuple, list)) else per_start):
            ex = [(s, N[0][1])] + N[1:]
            if ends is not None and ends[j] is not None:
                # round c04rep2: read groups that also differ at the high-coordinate end (3' end of a '+' isoform)
                ex = ex[:-1] + [(ex[-1][0], ends[j])]
            ds.read_from_exons("N%d_%d" % (s, k), "chr1", ex, flag=flag, **tail)
    if annotate_f:
        ds.add_gene("chr1", "GF", strand, [("TF", F)], plant=False)
    for gid, gstrand, txs in genes:
        ds.add_gene("chr1", gid, gstrand, [(t, [tuple(e) for e in ex]) for t, ex in txs], plant=True)
    if far_gene and chrom_len >= 58000:
        ds.add_gene("chr1", "Gfar", "+", [("Tfar", [(chrom_len - 5000, chrom_len - 4700), (chrom_len - 4000, chrom_len - 3700)])])
    return ds


def random_split_dataset(seed, with_filler=True):
    """a split locus with random geometry: position and depth of the neighbour, exon structure of N (3-5 exons), 2-3 groups of
    5' ends on both sides of the balance point of the resolver's overlap rule, +/- annotation of the neighbour.
    -> (Dataset, info)"""
    rng = random.Random(seed)
    base = rng.choice([1000, 1300, 2049, 5000])
    f1 = (base, base + rng.randint(300, 600))
    f2s = base + rng.randint(22000, 26000)
    f2 = (f2s, f2s + rng.randint(400, 700))
    cut = expected_cut(base - 1)
    # a read [s, end] overlaps sub-region 1 by cut - s + 1 bases and sub-region 2 by end - cut: balanced at s = bal
    bal = rng.randint(f2[0] + 100, f2[1] - 50)
    end = 2 * cut - bal - 1
    nex = rng.randint(3, 5)
    rest = []
    q = end
    for _ in range(nex - 1):
        ln = rng.randint(200, 400)
        rest.insert(0, (q - ln + 1, q))
        q -= ln + rng.randint(500, 900)
    n1e = f2[1] + rng.randint(100, 300)
    lo = bal - rng.randint(100, 400)
    hi = min(bal + rng.randint(100, 400), n1e - 60)
    starts = sorted({lo, hi} | ({bal + rng.choice([-40, 40])} if rng.random() < 0.3 else set()))
    per_start = rng.choice([3, 3, 4, 5])
    annotate_f = rng.random() < 0.5
    # round c04rep2: (a) the LATER groups (higher 5' coordinate -> resolved into the later sub-region) may hold fewer reads than
    # any novel cutoff (1 or 2: no model is built there; the first group keeps >= 3 so that the isoform is reported at all);
    # (b) '-' loci: the varying low-coordinate end is then the polyT (3') end; (c) a later group whose 3' end lies further out
    # than the first group's (the class `split_region_apa_variant`: the uncut run reports the other APA variant)
    counts = [per_start] * len(starts)
    if rng.random() < 0.45:
        counts = [max(3, per_start + rng.choice([0, 2, 7]))] + [rng.choice([1, 2]) for _ in starts[1:]]
    strand = "-" if rng.random() < 0.3 else "+"
    ends = None
    if rng.random() < 0.15:
        ends = [None] * (len(starts) - 1) + [end + rng.choice([300, 900])]
    total = sum(counts)
    ds = split_dataset(seed=seed, chrom_len=max(60000, end + 9000), n_fill=max(500, 100 * total + 100), f_exons=(f1, f2),
                       n_exons=[(lo, n1e)] + rest, starts=starts, per_start=counts, strand=strand,
                       annotate_f=annotate_f, far_gene=True, with_filler=with_filler, ends=ends)
    info = {"cut": cut, "balance": bal, "starts": starts, "n_exons": [(lo, n1e)] + rest, "reads_of_N": total, "per_start": counts,
            "strand": strand, "ends": ends}
    return ds, info
