"""Seeded generators for C16: CIGAR operation lists, sorted exon lists with polyA/polyT positions,
synthetic reads (sequence + CIGAR) with A/T-rich ends.  Everything random comes from the `rng` argument."""
import itertools

M, I, D, N, S, H, P, EQ, X = 0, 1, 2, 3, 4, 5, 6, 7, 8
ALL_KINDS = [M, I, D, N, S, H, P, EQ, X]
LETTER = "MIDNSHP=X"


def cigar_str(c):
    return "".join("%d%s" % (l, LETTER[k]) for k, l in c)


def exhaustive(kinds, nops, lens):
    """all CIGARs with exactly `nops` operations over `kinds` x `lens`"""
    for ks in itertools.product(kinds, repeat=nops):
        for ls in itertools.product(lens, repeat=nops):
            yield [list(p) for p in zip(ks, ls)]


def exhaustive_kinds_random_lens(rng, kinds, nops, lens):
    """every kind sequence once, lengths drawn at random"""
    for ks in itertools.product(kinds, repeat=nops):
        yield [[k, rng.choice(lens)] for k in ks]


def rand_cigar(rng, nops, maxlen=50, kinds=ALL_KINDS, weights=None):
    weights = weights or [6, 2, 2, 3, 1, 1, 1, 1, 1]
    ks = rng.choices(kinds, weights=weights[:len(kinds)], k=nops)
    return [[k, rng.randint(1, maxlen) if rng.random() < 0.8 else rng.randint(1, 3)] for k in ks]


def sam_like_cigar(rng, max_exons=6, big=False):
    """a CIGAR an aligner could emit: [H][S] exon (N exon)* [S][H]; exons are M/=/X runs with interior I/D,
    sometimes with an indel next to an N (minimap2 does that)"""
    c = []
    if rng.random() < 0.15:
        c.append([H, rng.randint(1, 30)])
    if rng.random() < 0.5:
        c.append([S, rng.randint(1, 80)])
    nex = rng.randint(1, max_exons)
    for e in range(nex):
        if e > 0:
            c.append([N, rng.randint(20, 100000 if big else 3000)])
        parts = rng.randint(1, 5)
        if rng.random() < 0.1:
            c.append([rng.choice([I, D]), rng.randint(1, 5)])
        for p_ in range(parts):
            if p_ > 0:
                c.append([rng.choice([I, D]), rng.randint(1, 12)])
            c.append([rng.choice([M, M, M, EQ, X]), rng.randint(1, 400 if big else 60)])
        if rng.random() < 0.1:
            c.append([rng.choice([I, D]), rng.randint(1, 5)])
    if rng.random() < 0.5:
        c.append([S, rng.randint(1, 80)])
    if rng.random() < 0.15:
        c.append([H, rng.randint(1, 30)])
    return c


def query_len(c):
    return sum(l for k, l in c if k in (M, I, S, EQ, X))


# ------------------------------------------------------------------------------------------------
# exon lists and polyA positions

def all_sd_lists(U, maxlen, min_gap=0):
    """all sorted disjoint lists of <= maxlen closed intervals over 1..U (touching allowed when min_gap=0)"""
    res = [[]]

    def rec(prefix, lo):
        if len(prefix) == maxlen:
            return
        for a in range(lo, U + 1):
            for b in range(a, U + 1):
                l = prefix + [[a, b]]
                res.append(l)
                rec(l, b + 1 + min_gap)
    rec([], 1)
    return res


def rand_sd_exons(rng, n, start=1000, maxlen=300, maxgap=2000):
    ex = []
    p = start + rng.randint(0, 500)
    for _ in range(n):
        ln = rng.choice([1, 2, 3, rng.randint(1, 40), rng.randint(1, maxlen)])
        ex.append([p, p + ln - 1])
        p += ln + rng.choice([0, 1, rng.randint(1, 50), rng.randint(20, maxgap)])
    return ex


def rand_pos_near(rng, exons):
    """a tail position: absent, on an exon boundary, inside an exon, in a gap, or outside"""
    r = rng.random()
    if r < 0.2 or not exons:
        return -1
    e = rng.choice(exons)
    if r < 0.45:
        return rng.choice([e[0], e[1], e[0] - 1, e[1] + 1, e[0] + 1, e[1] - 1])
    if r < 0.75:
        return rng.randint(e[0], e[1])
    if r < 0.9:
        return rng.randint(exons[0][0] - 60, exons[-1][1] + 60)
    return rng.choice([0, 1, exons[-1][1] + rng.randint(1, 500)])


# ------------------------------------------------------------------------------------------------
# reads (sequence + CIGAR) for the real PolyAFinder

def rich(rng, base, n, purity):
    other = [b for b in "ACGT" if b != base]
    return "".join(base if rng.random() < purity else rng.choice(other) for _ in range(n))


def block_read(rng):
    """sequence made of long A-rich / T-rich / random blocks, introns placed near block boundaries;
    this family contains the reads whose polyA and polyT exon counts overlap"""
    nblocks = rng.randint(2, 6)
    seq = ""
    bounds = []
    for _ in range(nblocks):
        kind = rng.choice("ATATR")
        n = rng.choice([12, 16, 20, 28, 32, 36, 48, rng.randint(4, 70)])
        pur = rng.choice([1.0, 1.0, 0.9, 0.8])
        seq += rich(rng, kind, n, pur) if kind != "R" else rich(rng, "C", n, 0.3)
        bounds.append(len(seq))
    L = len(seq)
    # choose exon boundaries (in read coordinates) near block bounds
    cuts = sorted({min(L - 1, max(1, b + rng.choice([0, 0, 0, -1, 1, -3, 3, rng.randint(-8, 8)])))
                   for b in bounds[:-1] if rng.random() < 0.8})
    cig = []
    prev = 0
    for c in cuts + [L]:
        if c <= prev:
            continue
        if cig:
            cig.append([N, rng.choice([60, 100, 500, 2000])])
        seglen = c - prev
        # occasional indel inside the exon
        if seglen >= 6 and rng.random() < 0.25:
            a = rng.randint(1, seglen - 2)
            if rng.random() < 0.5:
                il = rng.randint(1, min(30, seglen - a - 1))
                cig += [[M, a], [I, il], [M, seglen - a - il]] if seglen - a - il > 0 else [[M, seglen]]
            else:
                cig += [[M, a], [D, rng.randint(1, 40)], [M, seglen - a]]
        else:
            cig.append([M, seglen])
        prev = c
    # optional clips
    if rng.random() < 0.3:
        n = rng.randint(1, 40)
        seq = rich(rng, "T", n, 0.9) + seq
        cig.insert(0, [S, n])
    if rng.random() < 0.3:
        n = rng.randint(1, 40)
        seq = seq + rich(rng, "A", n, 0.9)
        cig.append([S, n])
    return seq, cig


def tailed_read(rng):
    """ordinary read: random exons, soft-clipped or aligned polyA tail / polyT head"""
    nex = rng.randint(1, 5)
    cig = []
    seq = ""
    for e in range(nex):
        if e:
            cig.append([N, rng.randint(50, 3000)])
        n = rng.choice([rng.randint(5, 40), rng.randint(40, 300)])
        cig.append([M, n])
        seq += rich(rng, "C", n, 0.25)
    L = len(seq)
    s = list(seq)
    if rng.random() < 0.6:      # aligned A-rich tail (fake terminal exons)
        n = min(L, rng.randint(10, 70))
        s[L - n:] = rich(rng, "A", n, rng.choice([1.0, 0.9, 0.8]))
    if rng.random() < 0.4:      # aligned T-rich head
        n = min(L, rng.randint(10, 70))
        s[:n] = rich(rng, "T", n, rng.choice([1.0, 0.9, 0.8]))
    seq = "".join(s)
    if rng.random() < 0.5:
        n = rng.randint(5, 40)
        seq += rich(rng, "A", n, 0.95)
        cig.append([S, n])
    if rng.random() < 0.3:
        n = rng.randint(5, 40)
        seq = rich(rng, "T", n, 0.95) + seq
        cig.insert(0, [S, n])
    return seq, cig


def overlap_read(rng):
    """T-rich / A-rich / T-rich / A-rich read whose exon boundaries sit at the block boundaries: the family in which
    the internal polyA start precedes the internal polyT end (overlapping exon counts)"""
    a = rng.randint(24, 44)
    b = rng.randint(10, 20)
    c = rng.randint(10, 20)
    d = rng.randint(24, 44)
    pur = rng.choice([1.0, 1.0, 0.95])
    seq = rich(rng, "T", a, pur) + rich(rng, "A", b, pur) + rich(rng, "T", c, pur) + rich(rng, "A", d, pur)
    j = lambda: rng.choice([0, 0, 0, -1, 1, -2, 2])
    cuts = sorted({a + j(), a + b + c + j()} | ({a + b + j()} if rng.random() < 0.3 else set()))
    cig, prev = [], 0
    for x in cuts + [len(seq)]:
        if cig:
            cig.append([N, rng.choice([70, 100, 1000])])
        cig.append([M, x - prev])
        prev = x
    return seq, cig


# the BAM record that crashed the pinned tree (IndexError in shift_polyt)
WITNESS_READ = ("T" * 32 + "A" * 12 + "T" * 16 + "A" * 36, [[M, 32], [N, 100], [M, 28], [N, 100], [M, 36]])


# ------------------------------------------------------------------------------------------------
# clip variants and reads for the tail finder's projection (move_ref_coord / find_polya_tail / find_polyt_head)

# what may stand before the first / after the last non-clip operation, read from the outside in:
# SAM-valid: nothing, S, H, H S; not valid but accepted by the code: S H, S S, H H
LEAD_CLIPS = [[], [[S, 2]], [[H, 2]], [[H, 1], [S, 2]], [[S, 1], [H, 1]], [[S, 1], [S, 1]], [[H, 1], [H, 1]]]


def clip_variants(core):
    """core CIGAR x every leading clip variant x every trailing clip variant (trailing = leading mirrored)"""
    for lead in LEAD_CLIPS:
        for trail in LEAD_CLIPS:
            yield [list(x) for x in lead] + [list(x) for x in core] + [list(x) for x in reversed(trail)]


def finder_read(rng):
    """a record for find_polya_tail / find_polyt_head: [H][S] body [S][H] with indels (also right at the alignment
    ends), =/X, an occasional P; the sequence is T-rich at the 5' end and A-rich at the 3' end over a random stretch
    that may reach into the aligned part"""
    cig = []
    if rng.random() < 0.2:
        cig.append([H, rng.randint(1, 20)])
    lead_s = rng.choice([0, 0, rng.randint(1, 12), rng.randint(12, 50)])
    if lead_s:
        cig.append([S, lead_s])
    if rng.random() < 0.12:
        cig.append([rng.choice([I, D]), rng.randint(1, 6)])
    nex = rng.randint(1, 4)
    for e in range(nex):
        if e:
            cig.append([N, rng.randint(20, 2000)])
        for p_ in range(rng.randint(1, 4)):
            if p_:
                cig.append([rng.choice([I, D, I, D, P]), rng.randint(1, 8)])
            cig.append([rng.choice([M, M, M, EQ, X]), rng.choice([rng.randint(1, 6), rng.randint(6, 80)])])
    if rng.random() < 0.15:
        cig.append([rng.choice([I, I, D]), rng.randint(1, 8)])
    trail_s = rng.choice([0, 0, rng.randint(1, 12), rng.randint(12, 50)])
    if trail_s:
        cig.append([S, trail_s])
    if rng.random() < 0.2:
        cig.append([H, rng.randint(1, 20)])
    L = query_len(cig)
    s = [rng.choice("ACGT") if rng.random() < 0.7 else rng.choice("CG") for _ in range(L)]
    if rng.random() < 0.8:
        n = min(L, trail_s + rng.choice([0, 0, 1, 2, 3, rng.randint(0, 70)]))
        if n:
            s[L - n:] = rich(rng, "A", n, rng.choice([1.0, 1.0, 0.9, 0.8, 0.6]))
    if rng.random() < 0.6:
        n = min(L, lead_s + rng.choice([0, 0, 1, 2, 3, rng.randint(0, 70)]))
        if n:
            s[:n] = rich(rng, "T", n, rng.choice([1.0, 1.0, 0.9, 0.8, 0.6]))
    return "".join(s), cig


COMP = {"A": "T", "C": "G", "G": "C", "T": "A", "N": "N", "a": "t", "c": "g", "g": "c", "t": "a", "n": "n"}


def revcomp(seq):
    return "".join(COMP[c] for c in reversed(seq))


def clean_tail_read(rng):
    """a read ending in `k` soft-clipped A's (k >= 20) preceded by >= 4 non-A aligned bases"""
    cig = []
    seq = ""
    for e in range(rng.randint(1, 3)):
        if e:
            cig.append([N, rng.randint(80, 500)])
        n = rng.randint(40, 200)
        cig.append([M, n])
        seq += "".join(rng.choice("ACGT") for _ in range(n))
    k = rng.randint(20, 60)
    seq = seq[:-4] + "".join(rng.choice("CGT") for _ in range(4)) + "A" * k
    cig.append([S, k])
    return seq, cig


# ------------------------------------------------------------------------------------------------
# boundary inputs for the window scan (find_polya) and the two tail finders: windows exactly at / one below the
# count threshold, the window that ends exactly at the end of the sequence (never accepted by the code), sequences
# shorter than / as long as the window, lower case, N

def place(rng, n, k, no_pairs=False):
    """n flags with exactly k set; `no_pairs`: no two adjacent set flags when that is possible"""
    k = max(0, min(n, k))
    if no_pairs and 2 * k <= n + 1:
        idx = set(range(0, 2 * k, 2))
        shift = rng.randint(0, n - (2 * k - 1)) if k else 0
        idx = {i + shift for i in idx}
    else:
        idx = set(rng.sample(range(n), k))
    return [i in idx for i in range(n)]


def threshold_flags(rng, w, c):
    """(flags, tag): a flag list for find_polya(window w, count c) built around one window whose count is c-1, c or
    c+1, placed at the start, as the last accepted window (start len-w-1), as the excluded last window (start
    len-w) or in the middle; the background holds no dense window unless the tag says so"""
    kind = rng.choice(["short", "exact_len", "one_more", "first", "last_accepted", "last_excluded", "middle", "two"])
    delta = rng.choice([-1, 0, 0, 1])
    k = max(0, min(w, c + delta))
    no_pairs = rng.random() < 0.3
    win = place(rng, w, k, no_pairs)
    bg = lambda n: place(rng, n, rng.choice([0, 0, n // 4]) if n else 0)
    if kind == "short":
        L = rng.randint(0, max(0, w - 1))
        return place(rng, L, rng.randint(0, L)), "short"
    if kind == "exact_len":
        return win, "len=w:%+d" % delta
    if kind == "one_more":
        return win + [rng.random() < 0.5], "len=w+1:%+d" % delta
    if kind == "first":
        return win + bg(rng.randint(1, w + 3)), "first:%+d" % delta
    if kind == "last_accepted":
        return bg(rng.randint(0, w + 3)) + win + [rng.random() < 0.5], "last_accepted:%+d" % delta
    if kind == "last_excluded":
        return bg(rng.randint(0, w + 3)) + win, "last_excluded:%+d" % delta
    if kind == "middle":
        return bg(rng.randint(0, w + 3)) + win + bg(rng.randint(1, w + 3)), "middle:%+d" % delta
    win2 = place(rng, w, max(0, min(w, c + rng.choice([-1, 0]))), rng.random() < 0.3)
    return bg(rng.randint(0, 4)) + win + bg(rng.randint(0, 3)) + win2 + bg(rng.randint(0, 3)), "two:%+d" % delta


def flags_to_seq(rng, flags, base="A", mode="upper"):
    """render flags as bases: set = `base`; unset = another base; `mode`: upper / lower (everything lower case) /
    mixed (random case per base) / n (unset bases are N)"""
    other = [b for b in "ACGT" if b != base]
    out = []
    for f in flags:
        ch = base if f else ("N" if mode == "n" else rng.choice(other))
        if mode == "lower" or (mode == "mixed" and rng.random() < 0.5):
            ch = ch.lower()
        out.append(ch)
    return "".join(out)


def boundary_tail_read(rng, w, num, den):
    """(seq, cigar, from, to, chk, tag) for find_polya_tail: the checked sequence seq[max(0, end-from) : min(n, end+to+1)]
    (end = start of the soft-clipped tail) is a `threshold_flags` list; body before it is random; the aligned part
    carries an indel now and then; sometimes the whole read is shorter than the window"""
    c = w * num // den
    flags, tag = threshold_flags(rng, w, c)
    R = len(flags)
    if R == 0:
        flags, R = [False], 1
    mode = rng.choice(["upper", "upper", "lower", "mixed", "n"])
    # split the region between aligned part (frm bases) and clip (to+1 bases)
    in_clip = rng.randint(0, R)
    aligned_part = R - in_clip
    extra_body = rng.choice([0, 0, rng.randint(1, 30)])          # aligned bases before the region
    extra_clip = rng.choice([0, 0, rng.randint(1, 10)]) if in_clip else 0   # clipped bases after the region
    if aligned_part + extra_body == 0:
        extra_body = 1
    frm = aligned_part if extra_body else rng.choice([aligned_part, aligned_part + rng.randint(0, 5)])
    to = in_clip - 1 if extra_clip else rng.choice([in_clip - 1, in_clip - 1 + rng.randint(0, 5)])
    to = max(0, to)                # to_pos >= 0: with an empty clip no base exists beyond the aligned part
    body = "".join(rng.choice("CGT") for _ in range(extra_body))
    seq = body + flags_to_seq(rng, flags, "A", mode) + "".join(rng.choice("ACGT") for _ in range(extra_clip))
    nal = extra_body + aligned_part
    cig = []
    if nal >= 4 and rng.random() < 0.3:
        a = rng.randint(1, nal - 2)
        if rng.random() < 0.5:
            il = rng.randint(1, min(3, nal - a - 1))
            cig += [[M, a], [I, il], [M, nal - a - il]]
        else:
            cig += [[M, a], [rng.choice([D, N]), rng.randint(1, 30)], [M, nal - a]]
    else:
        cig.append([M, nal])
    if in_clip + extra_clip:
        cig.append([S, in_clip + extra_clip])
        if rng.random() < 0.15:
            cig.append([H, rng.randint(1, 5)])
    return seq, cig, frm, to, rng.random() < 0.5, tag + ":" + mode


def boundary_head_read(rng, w, num, den):
    """mirror image for find_polyt_head: checked sequence = reverse of seq[max(0, clip-to) : min(n, clip+from+1)],
    looked at for T"""
    seq, cig, frm, to, chk, tag = boundary_tail_read(rng, w, num, den)
    seq = revcomp(seq)
    cig = [list(x) for x in reversed(cig)]
    # find_polyt_head reads `to` clipped bases and `from + 1` aligned bases; find_polya_tail reads `to + 1` and `from`
    return seq, cig, max(0, frm - 1), to + 1, chk, tag


def fake_tail_read(rng, three_prime=True):
    """body exon(s), an N gap, a short terminal exon that is (mostly) aligned tail — optionally with a few non-tail bases in
    front — and optionally a soft-clipped continuation of the tail (audit2-D G-C16-1: `201M299N31M30S`).  With the clip
    both the internal and the external finder report a position; mirror image for the 5' end."""
    nb = rng.randint(1, 2)
    body, cig = "", []
    for i in range(nb):
        if i:
            cig.append([N, rng.randint(80, 900)])
        n = rng.randint(60, 250)
        cig.append([M, n])
        body += "".join(rng.choice("CGT" if three_prime else "CGA") for _ in range(n))
    pre = rng.choice([0, 0, 0, 1, 3, 8])              # non-tail bases at the inner end of the fake exon
    fake = rng.choice([17, 20, 31, 31, 45, 60])
    clip = rng.choice([0, 5, 20, 30, 30, 40])
    purity = rng.choice([1.0, 1.0, 0.95])
    gap = rng.randint(60, 1200)
    if three_prime:
        cig += [[N, gap], [M, pre + fake]] + ([[S, clip]] if clip else [])
        seq = body + "".join(rng.choice("CGT") for _ in range(pre)) + rich(rng, "A", fake, purity) + "A" * clip
        return seq, cig
    cig = ([[S, clip]] if clip else []) + [[M, fake + pre], [N, gap]] + cig
    seq = "T" * clip + rich(rng, "T", fake, purity) + "".join(rng.choice("CGA") for _ in range(pre)) + body
    return seq, cig
