#!/venv/bin/python
"""Runs the real AssignedFeatureCounter of $VERIF_REPO on JSON cases (stdin) and prints one JSON observation per case.

Executed as a subprocess by harness/props/C09.py with PYTHONHASHSEED set, so that the iteration order of the
`read_groups` set (and of the feature sets) differs between runs.  Nothing here decides anything: it only records
what the real code did (state before dump, parsed dump files, the iteration order of the set it was given, and the
per-call increments of an ungrouped twin counter fed the same calls).
"""
import json
import os
import shutil
import sys
import tempfile

REPO = os.environ.get("VERIF_REPO", "/repo")
sys.path.insert(0, REPO)

import logging  # noqa: E402
logging.disable(logging.CRITICAL)

from src.isoform_assignment import ReadAssignmentType  # noqa: E402
from src.long_read_counter import AssignedFeatureCounter, ReadWeightCounter, GroupedOutputFormat  # noqa: E402

ERRORS = (KeyError, IndexError, ZeroDivisionError, TypeError, ValueError, AttributeError, AssertionError)


class FakeMatch:
    def __init__(self, t):
        self.assigned_transcript = t
        self.assigned_gene = "G"


class FakeRA:
    def __init__(self, c):
        self.c = c
        self.read_id = "read"
        self.assignment_type = ReadAssignmentType[c["raw_type"]]
        self.gene_assignment_type = ReadAssignmentType[c["atype"]]
        self.isoform_matches = [FakeMatch(None if c["first_none"] else "T")] if c["has_matches"] else []
        self.read_group = c["group"]


class StubExtractor:
    """the extractor's three answers are inputs of the case (they are inputs of the model too)"""

    @staticmethod
    def get_features(ra):
        return set(ra.c["features"])

    @staticmethod
    def get_assignment_type(ra):
        return ReadAssignmentType[ra.c["atype"]]

    @staticmethod
    def confirms_feature(ra):
        return ra.c["confirms"]


def apply_call(counter, call):
    k = call["k"]
    if k == "info":
        counter.add_read_info(FakeRA(call) if call["present"] else None)
    elif k == "raw":
        counter.add_read_info_raw("read" if call["has_id"] else "", list(call["features"]), call["group"])
    elif k == "confirm":
        counter.add_confirmed_features(list(call["features"]))
    else:
        raise RuntimeError("unknown call " + k)


def snapshot(c):
    return {"ignore": c.ignore_read_groups, "ordered": list(c.ordered_groups),
            "ids": sorted([k, v] for k, v in c.group_numeric_ids.items()),
            "fc": {f: [[k, v] for k, v in d.data.items()] for f, d in c.feature_counter.items()},
            "all_features": sorted(c.all_features), "confirmed": sorted(c.confirmed_features),
            "counts": [c.ambiguous_reads, c.not_assigned_reads, c.not_aligned_reads, c.reads_for_tpm]}


def parse_matrix(path):
    if not os.path.exists(path):
        return None
    with open(path) as f:
        txt = f.read()
    if txt == "":
        return None
    lines = txt.split("\n")
    if lines[-1] == "":
        lines.pop()
    hdr = lines[0].split("\t")
    rows = []
    for l in lines[1:]:
        p = l.split("\t")
        rows.append([p[0], [float(x) for x in p[1:]]])
    return {"header": hdr[1:], "rows": rows, "first": hdr[0]}


def parse_linear(path):
    if not os.path.exists(path):
        return None
    with open(path) as f:
        txt = f.read()
    if txt == "":
        return None
    lines = txt.split("\n")
    if lines[-1] == "":
        lines.pop()
    res = []
    for l in lines[1:]:
        p = l.split("\t")
        res.append([p[0], p[1], float(p[2])])
    return {"header": lines[0], "rows": res}


def run_case(case, d):
    rg_list = case["rg"]
    rg = None if rg_list is None else set(rg_list)
    obs = {"pi": None if rg is None else list(rg)}
    prefix = os.path.join(d, "c")
    for fn in os.listdir(d):
        os.remove(os.path.join(d, fn))
    try:
        c = AssignedFeatureCounter(prefix, StubExtractor, rg, ReadWeightCounter(case["strategy"]),
                                   list(case["all_features"]), case["output_zeroes"],
                                   GroupedOutputFormat[case["fmt"]])
        for call in case["calls"]:
            apply_call(c, call)
        obs["state"] = snapshot(c)
        if case.get("dump", True):
            c.dump()
            obs["matrix"] = parse_matrix(prefix + "_counts.tsv")
            obs["linear"] = parse_linear(prefix + "_counts_linear.tsv")
            c.convert_counts_to_tpm()
            tp = parse_matrix(prefix + "_tpm.tsv")
            obs["tpm_header"] = tp["header"] if tp else None
            st = prefix + "_counts.tsv.stats"
            if os.path.exists(st):
                with open(st) as f:
                    obs["stats"] = [int(l.split("\t")[1]) for l in f.read().strip().split("\n")]
            else:
                obs["stats"] = None
    except ERRORS as ex:
        obs["error"] = "error"
        obs["exc"] = type(ex).__name__
    if case.get("twin"):
        # ungrouped twin: same calls, read_groups=None; per-call increments of its single column
        tw = {}
        try:
            u = AssignedFeatureCounter(prefix + "_u", StubExtractor, None, ReadWeightCounter(case["strategy"]),
                                       list(case["all_features"]), case["output_zeroes"], GroupedOutputFormat[case["fmt"]])
            deltas = []
            for call in case["calls"]:
                feats = list(call.get("features", [])) if call["k"] != "confirm" else []
                before = {f: u.feature_counter[f].get(0) if f in u.feature_counter else 0.0 for f in feats}
                apply_call(u, call)
                deltas.append({f: (u.feature_counter[f].get(0) if f in u.feature_counter else 0.0) - before[f] for f in feats})
            tw["deltas"] = deltas
            tw["state"] = snapshot(u)
            u.dump()
            tw["matrix"] = parse_matrix(prefix + "_u_counts.tsv")
        except ERRORS as ex:
            tw["error"] = "error"
            tw["exc"] = type(ex).__name__
        obs["twin"] = tw
    return obs


def main():
    d = tempfile.mkdtemp(prefix="isoverif_c09h_")
    try:
        for line in sys.stdin:
            line = line.strip()
            if not line:
                continue
            case = json.loads(line)
            sys.stdout.write(json.dumps(run_case(case, d)) + "\n")
    finally:
        shutil.rmtree(d, ignore_errors=True)


if __name__ == "__main__":
    main()
