"""C18 generators: reference sequences with planted splice-site dinucleotides, intron query histories, and
synthetic pipeline datasets with antisense gene pairs that share introns.

Everything random comes from the `rng` that is passed in (ctx.rng or a Random derived from it).
"""
import random

from gen import synth

# the canonical pairs of the *statement* (U2 GT-AG / GC-AG, U12 AT-AC) as they read on the forward strand of the
# reference, and their reverse complements for transcripts on the reverse strand.  Deliberately NOT imported from /repo.
FWD_PAIRS = [("GT", "AG"), ("GC", "AG"), ("AT", "AC")]
REV_PAIRS = [(synth.revcomp(r), synth.revcomp(l)) for l, r in FWD_PAIRS]     # CT-AC, CT-GC, GT-AT
NEAR_MISS = [("GT", "AC"), ("CT", "AG"), ("GG", "AG"), ("GT", "AA"), ("AT", "AG"), ("GC", "AC"), ("CT", "AT"),
             ("GT", "GC"), ("NN", "NN"), ("GN", "AG"), ("TG", "GA"), ("AC", "CT")]
ALPHABET = "ACGTN"


def rand_case(rng, s, p_lower):
    return "".join(c.lower() if rng.random() < p_lower else c for c in s)


def rand_seq(rng, n, p_lower=0.0, alphabet=ALPHABET):
    w = [4, 4, 4, 4, 1][:len(alphabet)]
    return rand_case(rng, "".join(rng.choices(alphabet, weights=w, k=n)), p_lower)


def plant(seq, intron, pair, start=1):
    """write the dinucleotide pair at the ends of the 1-based closed intron (coordinates relative to `start`)"""
    s = list(seq)
    a, b = intron[0] - start, intron[1] - start
    if 0 <= a and a + 2 <= len(s):
        s[a:a + 2] = pair[0]
    if 1 <= b and b + 1 <= len(s):
        s[b - 1:b + 1] = pair[1]
    return "".join(s)


def rand_intron(rng, lo, hi, min_len=4, max_len=None):
    max_len = max_len or (hi - lo)
    a = rng.randint(lo, max(lo, hi - min_len))
    b = min(hi, a + rng.randint(min_len - 1, max(min_len - 1, max_len)))
    return (a, b)


def planted_sequence(rng, n=None, n_introns=None, p_lower=None, start=1):
    """-> (sequence, introns): random sequence of length n with planted canonical / near-miss pairs.
    Introns may overlap or share an end (later plantings overwrite earlier ones: the sequence is what counts)."""
    n = n or rng.choice([12, 20, 40, 80, 200])
    p_lower = rng.choice([0.0, 0.0, 0.15, 1.0]) if p_lower is None else p_lower
    seq = rand_seq(rng, n)
    k = n_introns if n_introns is not None else rng.randint(1, 6)
    introns = []
    for _ in range(k):
        it = rand_intron(rng, start, start + n - 1, 4, min(n - 1, 30))
        kind = rng.random()
        if kind < 0.35:
            pair = rng.choice(FWD_PAIRS)
        elif kind < 0.7:
            pair = rng.choice(REV_PAIRS)
        elif kind < 0.85:
            pair = rng.choice(NEAR_MISS)
        else:
            pair = None
        if pair:
            seq = plant(seq, it, pair, start)
        introns.append(it)
    seq = rand_case(rng, seq, p_lower)
    return seq, introns


def odd_introns(rng, n, start=1):
    """introns that poke outside the sequence or are degenerate (slice semantics of the real code)"""
    res = []
    for _ in range(rng.randint(0, 2)):
        res.append(rng.choice([(start - 2, start + 3), (start, start + 1), (start + n - 2, start + n + 3),
                               (start + n + 2, start + n + 9), (start - 5, start - 1), (start + 3, start + 2),
                               (start + 1, start + 1), (start - 1, start + n)]))
    return res


def query_history(rng, introns, n_queries=None, strands="+-."):
    """random order of canonical queries: [(intron list, strand)]; introns are re-used across strands on purpose"""
    n_queries = n_queries or rng.randint(1, 8)
    hist = []
    for _ in range(n_queries):
        k = rng.randint(0, min(4, len(introns)))
        q = [rng.choice(introns) for _ in range(k)]
        hist.append((q, rng.choice(strands)))
    return hist


# ------------------------------------------------------------------------------------------------
# pipeline datasets

def _exons_from(rng, pos, nex, exon_len=(120, 300), intron_len=(200, 900)):
    exons = []
    p = pos
    for _ in range(nex):
        ln = rng.randint(*exon_len)
        exons.append((p, p + ln - 1))
        p += ln + rng.randint(*intron_len)
    return exons, p


def introns_of(exons):
    return [(exons[i][1] + 1, exons[i + 1][0] - 1) for i in range(len(exons) - 1)]


def antisense_dataset(seed, n_chroms=2, loci_per_chrom=4, reads_per_tx=5, lower_frac=0.0, chrom_len=None):
    """Loci of several kinds on every chromosome:
      * antisense pair: gene A (+) and gene B (-) with the *same* exons, hence the same introns; the sites are planted
        for one of the two strands (or one intron each), so the flag of the other gene must be False;
      * plain genes on either strand with canonical / non-canonical / minor (GC-AG, AT-AC) sites;
      * a novel locus: reads with planted sites but no annotated gene (novel models get their strand from the sites
        or from the polyA/polyT tail).
    Reads follow the isoforms (with start/end jitter and optional tails)."""
    ds = synth.Dataset(seed)
    rng = ds.rng
    truth = {"loci": []}
    for c in range(n_chroms):
        chrom = "chr%d" % (c + 1)
        # build loci first, then the sequence
        # contig borders: most contigs have their first locus starting within the first 25 bases and their last locus
        # ending on (or a few bases before) the last base, as on small contigs / organelle and viral genomes
        edge_start = rng.random() < 0.75
        edge_end = rng.random() < 0.6
        pos = rng.choice([1, 2, 5, rng.randint(1, 25), rng.randint(1, 25)]) if edge_start else 800
        loci = []
        for li in range(loci_per_chrom):
            kind = rng.choice(["antisense", "antisense", "plain", "novel", "mixed"]) if li else \
                rng.choice(["antisense", "antisense", "plain", "novel"])
            nex = rng.randint(2, 5)
            exons, end = _exons_from(rng, pos, nex)
            loci.append((kind, exons))
            pos = end + rng.randint(1500, 3000)
        if not any(k == "antisense" for k, _ in loci):
            loci[1] = ("antisense", loci[1][1])
        last_end = loci[-1][1][-1][1]
        length = chrom_len or ((last_end + rng.randint(0, 3)) if edge_end else (pos + 1000))
        ds.add_chrom(chrom, length)
        seq = ds.chroms[chrom]
        for li, (kind, exons) in enumerate(loci):
            ins = introns_of(exons)
            gid = "G%d_%d" % (c + 1, li)
            if kind == "antisense":
                # per intron: planted for +, for -, or for neither
                mode = rng.random()   # whole locus canonical on +, on -, or decided per intron
                for it in ins:
                    ch = rng.random() if mode >= 0.8 else (0.0 if mode < 0.4 else 0.5)
                    pair = rng.choice(FWD_PAIRS) if ch < 0.45 else (rng.choice(REV_PAIRS) if ch < 0.9 else rng.choice(NEAR_MISS))
                    seq = plant(seq, it, pair)
                ds.chroms[chrom] = seq
                # half of the pairs are exact mirror images; in the others the '-' gene has one more (private) 3' exon, so
                # that reads are assigned uniquely to either gene and the shared introns are queried on both strands
                ex_p = exons[1:] if (len(exons) >= 3 and rng.random() < 0.5) else exons
                ds.add_gene(chrom, gid + "p", "+", [(gid + "p_t", ex_p)], plant=False)
                ds.add_gene(chrom, gid + "m", "-", [(gid + "m_t", exons)], plant=False)
                strands = ["+", "-"]
                locus_exons = {"+": ex_p, "-": exons}
            elif kind == "plain":
                strand = rng.choice("+-")
                for it in ins:
                    ch = rng.random()
                    tbl = FWD_PAIRS if strand == "+" else REV_PAIRS
                    pair = tbl[0] if ch < 0.6 else (rng.choice(tbl) if ch < 0.85 else rng.choice(NEAR_MISS))
                    seq = plant(seq, it, pair)
                ds.chroms[chrom] = seq
                txs = [(gid + "_a", exons)]
                if len(exons) >= 3:
                    k = rng.randint(1, len(exons) - 2)
                    ex2 = exons[:k] + exons[k + 1:]
                    it2 = (exons[k - 1][1] + 1, exons[k + 1][0] - 1)
                    seq = plant(seq, it2, (FWD_PAIRS if strand == "+" else REV_PAIRS)[0])
                    # re-plant the inner ones the skip may have touched (it does not: ends differ), keep sequence
                    ds.chroms[chrom] = seq
                    txs.append((gid + "_b", ex2))
                ds.add_gene(chrom, gid, strand, txs, plant=False)
                strands = [strand]
            elif kind == "mixed":
                # annotated gene whose introns carry sites of both strands (majority vote / tie cases)
                strand = rng.choice("+-")
                for it in ins:
                    seq = plant(seq, it, rng.choice(FWD_PAIRS + REV_PAIRS))
                ds.chroms[chrom] = seq
                ds.add_gene(chrom, gid, strand, [(gid + "_a", exons)], plant=False)
                strands = [strand]
            else:
                strand = rng.choice("+-")
                tbl = FWD_PAIRS if strand == "+" else REV_PAIRS
                for it in ins:
                    seq = plant(seq, it, tbl[0] if rng.random() < 0.8 else rng.choice(NEAR_MISS + REV_PAIRS + FWD_PAIRS))
                ds.chroms[chrom] = seq
                strands = [strand]
            truth["loci"].append({"chr": chrom, "kind": kind, "exons": exons, "strands": strands,
                                  "at_contig_start": li == 0 and edge_start, "at_contig_end": li == len(loci) - 1 and edge_end})
            # reads
            for s in strands:
                for k in range(reads_per_tx):
                    e = list(locus_exons[s]) if kind == "antisense" else list(exons)
                    # at a contig border the reads start / end (almost) on the border too
                    e[0] = (e[0][0] + rng.randint(0, 3 if (li == 0 and edge_start) else 30), e[0][1])
                    e[-1] = (e[-1][0], e[-1][1] - rng.randint(0, 3 if (li == len(loci) - 1 and edge_end) else 30))
                    tail = rng.random() < 0.7
                    pa = 25 if (tail and s == "+") else 0
                    pt = 25 if (tail and s == "-") else 0
                    ds.read_from_exons("r_%s_%d_%s%d" % (chrom, li, "p" if s == "+" else "m", k), chrom, e, polya=pa, polyt=pt)
            # reads that reach BEYOND the annotated gene span: a novel exon ~600 bp upstream of the first / downstream of
            # the last annotated exon (the gene info saved for the second pass carries the gene span only, so the splice
            # sites of the linking intron lie outside the window it loads first)
            if kind != "novel" and rng.random() < 0.5:
                first, last = exons[0], exons[-1]
                can_up = first[0] > 900 and not (li == 0 and edge_start)
                can_dn = last[1] + 760 < length and not (li == len(loci) - 1)
                for side in ("up", "dn"):
                    if (side == "up" and not can_up) or (side == "dn" and not can_dn) or rng.random() < 0.3:
                        continue
                    s0 = rng.choice(strands)
                    tbl = FWD_PAIRS if s0 == "+" else REV_PAIRS
                    pair = tbl[0] if rng.random() < 0.7 else rng.choice(NEAR_MISS + FWD_PAIRS + REV_PAIRS)
                    base = list(locus_exons[s0]) if kind == "antisense" else list(exons)
                    if side == "up":
                        extra = (first[0] - 700, first[0] - 520)
                        link = (extra[1] + 1, base[0][0] - 1)
                    else:
                        extra = (last[1] + 520, last[1] + 700)
                        link = (base[-1][1] + 1, extra[0] - 1)
                    # only bases outside every exon of the locus are touched (the link intron's own two ends)
                    if any(a <= p <= b for a, b in exons for p in (link[0], link[0] + 1, link[1] - 1, link[1])):
                        continue
                    seq = plant(ds.chroms[chrom], link, pair)
                    ds.chroms[chrom] = seq
                    e = ([extra] + base) if side == "up" else (base + [extra])
                    truth.setdefault("beyond_gene_span", 0)
                    for k in range(3):
                        truth["beyond_gene_span"] += 1
                        ds.read_from_exons("r_%s_%d_%s%s%d" % (chrom, li, side, "p" if s0 == "+" else "m", k), chrom, e)
            # a mono-exonic read per locus (Unspliced)
            e0 = exons[0]
            ds.read_from_exons("r_%s_%d_mono" % (chrom, li), chrom, [(e0[0] + 5, e0[1] - 5)])
        if lower_frac > 0:
            s = ds.chroms[chrom]
            # soft-mask whole windows (as RepeatMasker does), reads keep their upper-case bases
            out = list(s)
            i = 0
            while i < len(out):
                w = rng.randint(200, 1500)
                if rng.random() < lower_frac:
                    out[i:i + w] = [ch.lower() for ch in out[i:i + w]]
                i += w
            ds.chroms[chrom] = "".join(out)
    return ds, truth


def strand_evidence_dataset(seed):
    """crafted novel loci for the strand clause of C18 (audit-2 G-C18-3): unannotated 3-4-exon loci, 8 identical reads each,
      * uninformative splice sites + polyT / polyA tails            -> the tail decides
      * sites of one strand + the tail of the other                  -> the sites decide (if the model is reported at all)
      * a 1:1 tie of the sites + polyA / polyT                       -> the tail decides
      * a 1:1 tie without tails                                      -> nothing is demanded
      * 2 sites against 1 + the tail of the minority                 -> the majority of the sites
    plus one annotated gene far away (so that runs with --genedb work).
    -> (dataset, truth) with truth["strand_loci"] = [{chr, kind, exons, pairs, polya, polyt, expected, by}]"""
    ds = synth.Dataset(seed)
    rng = ds.rng
    kinds = [("uninf_polyT", "nn", 0, 25, "-", "tail"), ("uninf_polyA", "nn", 25, 0, "+", "tail"),
             ("plus_sites_polyT", "ff", 0, 25, "+", "sites"), ("minus_sites_polyA", "rr", 25, 0, "-", "sites"),
             ("tie_polyA", "fr", 25, 0, "+", "tail"), ("tie_polyT", "rf", 0, 25, "-", "tail"),
             ("tie_notail", "fr", 0, 0, None, None), ("2plus1minus_polyT", "ffr", 0, 25, "+", "sites"),
             ("2minus1plus_polyA", "rfr", 25, 0, "-", "sites")]
    rng.shuffle(kinds)
    loci, pos = [], rng.randint(900, 1500)
    for name, pat, pa, pt, exp, by in kinds:
        exons, end = _exons_from(rng, pos, len(pat) + 1, exon_len=(150, 260), intron_len=(300, 600))
        loci.append((name, pat, pa, pt, exp, by, exons))
        pos = end + rng.randint(1500, 2500)
    g_ex, end = _exons_from(rng, pos + 3000, 3)
    # a gene ANNOTATED with strand '.' (legal GTF) whose introns are canonical on one strand: its reads and its transcript model
    # are reported with strand '.' (audit-2 C11-G3: the flag was looked up as for '-')
    d_loci = []
    for d_strand in "+-":
        d_ex, end = _exons_from(rng, end + 3000, 3)
        d_loci.append((d_strand, d_ex))
    ds.add_chrom("chr1", end + 1500)
    ds.add_gene("chr1", "G0", "+", [("G0_t", g_ex)])
    for k in range(4):
        ds.read_from_exons("r_G0_%d" % k, "chr1", g_ex, polya=25)
    for d_strand, d_ex in d_loci:
        nm = "Gdot" + ("p" if d_strand == "+" else "m")
        ds.add_gene("chr1", nm, ".", [(nm + "_t", d_ex)], plant=False)
        ds.plant_sites("chr1", introns_of(d_ex), d_strand)
        for k in range(5):
            ds.read_from_exons("r_%s_%d" % (nm, k), "chr1", d_ex, polya=25 if (k < 2 and d_strand == "+") else 0,
                               polyt=25 if (k < 2 and d_strand == "-") else 0)
    truth = {"strand_loci": []}
    uninformative = [p for p in NEAR_MISS if p not in FWD_PAIRS and p not in REV_PAIRS]
    for name, pat, pa, pt, exp, by, exons in loci:
        seq = ds.chroms["chr1"]
        pairs = []
        for it, c in zip(introns_of(exons), pat):
            pair = rng.choice(FWD_PAIRS) if c == "f" else (rng.choice(REV_PAIRS) if c == "r" else rng.choice(uninformative))
            pairs.append(list(pair))
            seq = plant(seq, it, pair)
        ds.chroms["chr1"] = seq
        for k in range(8):
            ds.read_from_exons("r_%s_%d" % (name, k), "chr1", exons, polya=pa, polyt=pt)
        truth["strand_loci"].append({"chr": "chr1", "kind": name, "exons": exons, "pairs": pairs, "polya": pa, "polyt": pt,
                                     "expected": exp, "by": by})
    return ds, truth


# ------------------------------------------------------------------------------------------------
# printed attribute lists of transcript lines (C18 canonical_attr_unique)

ATTR_KEYS = ["Canonical", "Canonical", "Canonical", "exons", "level", "ID", "Parent", "tag", "transcript_name", "transcript_type",
             "similar_reference_id", "alternatives", "transcripts", "exon_number", "empty", "canonical", "Canonical_sites"]
_WORD = "ABCDEFGHIJKLMNOPQRSTUVWXYZabcdefghijklmnopqrstuvwxyz0123456789_.:-"


def rand_attr_value(rng, key):
    if key == "Canonical":
        return rng.choice(["True", "False", "Unspliced", "True", "False", "NA"])
    if key == "exons":
        return str(rng.randint(1, 9))
    if key == "empty":
        return ""
    w = "".join(rng.choice(_WORD) for _ in range(rng.randint(1, 8)))
    return w if rng.random() < 0.85 else w + " " + w[:2]


def rand_ref_attrs(rng, p_canonical=0.7):
    """attribute items of a reference transcript line after gene_id / transcript_id: repeated keys (also a repeated,
    contradicting `Canonical`) on purpose"""
    items = []
    if rng.random() < p_canonical:
        items.append(["Canonical", rand_attr_value(rng, "Canonical")])
    for _ in range(rng.randint(0, 5)):
        k = rng.choice(ATTR_KEYS)
        items.append([k, rand_attr_value(rng, k)])
    rng.shuffle(items)
    return items


def _chain_exons(rng, introns, a, b):
    inside = sorted(it for it in set(introns) if a < it[0] and it[1] < b and it[0] <= it[1])
    chain = []
    for it in inside:
        if rng.random() < 0.7 and (not chain or chain[-1][1] + 1 < it[0]):
            chain.append(it)
    bounds = [a] + [x for it in chain for x in (it[0] - 1, it[1] + 1)] + [b]
    return [[bounds[i], bounds[i + 1]] for i in range(0, len(bounds), 2)]


def attr_case(rng):
    """a small reference annotation (1-3 genes with 1-2 transcripts each, random attributes incl. stale / repeated `Canonical`),
    0-2 novel models (fresh, with model-constructor attributes, or already carrying `Canonical`/`exons` as in the
    extended-annotation pass), a chromosome with planted splice sites; `path`: `extended` (whole-chromosome gene info through
    create_extended_storage) or `locus` (GeneInfo of the genes + set_reference_sequence on a window that may end beyond the
    contig)"""
    n = rng.choice([60, 90, 140])
    chrom, introns = planted_sequence(rng, n=n, start=1)
    genes, lo_all, hi_all = [], n, 1
    tcount = 0
    for gi_ in range(rng.randint(1, 3)):
        strand = rng.choice("+-")
        txs = []
        for _ in range(rng.randint(1, 2)):
            a = rng.randint(1, n - 12)
            b = rng.randint(a + 8, n)
            ex = _chain_exons(rng, introns, a, b)
            tcount += 1
            tid = rng.choice(["T%d", "transcript%d.chr1.nic", "transcript%d.chr1.nnic"]) % tcount
            t = {"id": tid, "exons": ex, "attrs": rand_ref_attrs(rng)}
            if rng.random() < 0.3:
                t["exon_attrs"] = [["Canonical", rand_attr_value(rng, "Canonical")]]
            txs.append(t)
            lo_all, hi_all = min(lo_all, a), max(hi_all, b)
        genes.append({"gene_id": "G%d" % gi_, "strand": strand, "transcripts": txs,
                      "attrs": [[k, rand_attr_value(rng, k)] for k in rng.sample(["transcripts", "gene_name", "level", "tag"], rng.randint(0, 2))]})
    novel = []
    for k in range(rng.randint(0, 2)):
        a = rng.randint(1, n - 12)
        b = rng.randint(a + 8, n)
        ex = _chain_exons(rng, introns, a, b)
        info = []
        if rng.random() < 0.4:
            info += [["similar_reference_id", genes[0]["transcripts"][0]["id"]], ["alternatives", rand_attr_value(rng, "tag")]]
        if rng.random() < 0.35:      # dumped once already (per-locus pass) -> carries Canonical and exons
            info += [["Canonical", rng.choice(["True", "False", "Unspliced"])], ["exons", str(len(ex))]]
        novel.append({"gene_id": rng.choice([genes[0]["gene_id"], "novel_gene_chr1_%d" % k]),
                      "transcript_id": "transcript%d.chr1.%s" % (900 + k, rng.choice(["nic", "nnic"])),
                      "exons": ex, "strand": rng.choice("+-"), "info": info})
        lo_all, hi_all = min(lo_all, a), max(hi_all, b)
    path = rng.choice(["extended", "locus", "locus"])
    if path == "extended":
        start, end = 1, n
    else:
        start = max(1, lo_all - rng.choice([0, 0, 1, 5]))
        end = hi_all + rng.choice([0, 0, 1, 5, 40, 1000])       # also beyond the end of the contig
    return {"chrom": chrom, "start": start, "end": end, "path": path, "check": rng.random() < 0.85, "genes": genes, "novel": novel}
