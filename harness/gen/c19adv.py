"""C19 audit-2 G4: ugly-but-legal data sets for the all-callers monitor (`harness/mon_wrap.py` `listfns`).

Annotation: genes on both strands whose transcripts have touching exons, 1-bp introns, 1-3 bp exons, alternative variants whose
splice sites differ by less than delta, sometimes overlapping genes.  Reads: derived from the transcripts (touching exons merged,
as an aligner reports them), truncated, with jittered internal splice sites, 0-2 bp terminal exons, reads reaching beyond the
gene, polyA / polyT tails.  Everything is inside DESIGN §6 (every exon list of the annotation and every read is sorted and
pairwise disjoint); what is watched is what the REAL code derives from it and hands to the list functions."""
from gen import synth


def adversarial_dataset(seed):
    ds = synth.Dataset(seed)
    rng = ds.rng
    ds.add_chrom("chr1", 60000)
    pos = 1000
    for g in range(6):
        strand = rng.choice("+-")
        exons = []
        p = pos
        for _ in range(rng.randint(3, 7)):
            ln = rng.choice([1, 2, 3, 5, 30, 120, 300])
            exons.append((p, p + ln - 1))
            p += ln + rng.choice([0, 1, 2, 5, 60, 400, 900])       # 0 = touching exons, 1 = 1-bp intron
        txs = [("T%d_a" % g, exons)]
        if len(exons) > 3:
            txs.append(("T%d_b" % g, exons[:1] + exons[2:]))
            alt = list(exons)
            a, b = alt[1]
            alt[1] = (a + rng.choice([0, 2, 4]), b + rng.choice([0, 3, 6]))
            if alt[1][0] <= alt[1][1] and all(alt[i][1] < alt[i + 1][0] for i in range(len(alt) - 1)) and alt != exons:
                txs.append(("T%d_c" % g, alt))
        ds.add_gene("chr1", "G%d" % g, strand, txs, plant=False)
        for tid, ex in txs:
            m = []                                   # a read cannot have touching blocks
            for a, b in ex:
                if m and m[-1][1] + 1 == a:
                    m[-1] = (m[-1][0], b)
                else:
                    m.append((a, b))
            for k in range(8):
                e = list(m)
                if rng.random() < 0.3 and len(e) > 2:
                    e = e[1:] if rng.random() < 0.5 else e[:-1]
                e[0] = (max(1, e[0][1] - rng.choice([0, 1, 2, 30, 500])) if rng.random() < 0.5 else e[0][0], e[0][1])
                e[-1] = (e[-1][0], e[-1][0] + rng.choice([0, 1, 2, 30, 500]) if rng.random() < 0.5 else e[-1][1])
                e = [(a + rng.choice([0, 0, 1, -1, 4]), b + rng.choice([0, 0, 1, -1, -4])) if 0 < i < len(e) - 1 else (a, b)
                     for i, (a, b) in enumerate(e)]
                if not all(x[0] <= x[1] for x in e) or not all(e[i][1] + 1 < e[i + 1][0] for i in range(len(e) - 1)):
                    continue
                ds.read_from_exons("r_%s_%d" % (tid, k), "chr1", e, polya=rng.choice([0, 0, 25]) if strand == "+" else 0,
                                   polyt=rng.choice([0, 0, 25]) if strand == "-" else 0)
        pos = p + rng.choice([-200, 500, 3000]) if p > pos + 400 else p + 500      # sometimes overlapping genes
        pos = max(pos, 1000)
    return ds
