"""Seeded generators for C13: annotations with overlapping / contained / multi-gene features, reads derived
from isoforms, counter histories."""
import itertools

from gen import intervals as G

STRANDS = ["+", "-"]


def small_isoform_sets(rng, quick):
    """annotations over a tiny coordinate universe: lists of isoforms {tid, strand, gene, feats(exon blocks)}"""
    U = 9
    ivs = [(a, b) for a in range(1, U + 1) for b in range(a, U + 1)]
    gapped = [l for l in G.all_sd_lists(U, 3) if l and all(l[i][1] + 1 < l[i + 1][0] for i in range(len(l) - 1))]
    res = []
    n = 250 if quick else 2500
    for _ in range(n):
        k = rng.randint(1, 4)
        isos = []
        ngenes = rng.randint(1, 2)
        gstr = [rng.choice(STRANDS) for _ in range(ngenes)]
        for t in range(k):
            g = rng.randrange(ngenes)
            isos.append({"tid": "t%d" % t, "strand": gstr[g] if rng.random() < 0.9 else rng.choice(STRANDS + ["."]),
                         "gene": "g%d" % g, "feats": rng.choice(gapped)})
        res.append(isos)
    return res


def genome_gene(rng, base, gid, n_iso=None, micro=False):
    """one gene with alternative isoforms at genome scale: exon skipping, alternative 5'/3' sites (some within a
    few bases: ties within delta), contained exons, retained introns.  Returns list of isoform dicts."""
    nex = rng.randint(2, 7)
    exons = []
    p = base
    for _ in range(nex):
        ln = rng.choice([3, 5, 8]) if (micro and rng.random() < 0.3) else rng.randint(30, 300)
        exons.append((p, p + ln - 1))
        p += ln + (rng.choice([2, 4, 9]) if (micro and rng.random() < 0.3) else rng.randint(60, 900))
    strand = rng.choice(STRANDS)
    isos = [{"tid": "%s.t0" % gid, "strand": strand, "gene": gid, "feats": list(exons)}]
    for t in range(1, (n_iso or rng.randint(1, 4))):
        e = list(exons)
        r = rng.random()
        if r < 0.3 and len(e) > 2:
            del e[rng.randint(1, len(e) - 2)]
        elif r < 0.6:
            i = rng.randrange(len(e))
            sh = rng.choice([1, 2, 3, 5, 7, 13, 25])
            a, b = e[i]
            if rng.random() < 0.5:
                a = a + sh if a + sh < b else a
            else:
                b = b - sh if b - sh > a else b
            e[i] = (a, b)
        elif r < 0.75 and len(e) > 1:
            i = rng.randrange(len(e) - 1)
            e[i:i + 2] = [(e[i][0], e[i + 1][1])]
        elif r < 0.9 and len(e) > 1:
            e = e[1:] if rng.random() < 0.5 else e[:-1]
        isos.append({"tid": "%s.t%d" % (gid, t), "strand": strand, "gene": gid, "feats": e})
    return isos


def genome_annotation(rng, micro=False):
    """a GeneInfo-sized cluster: 1-3 genes, possibly overlapping / sharing exons (multi-gene features)"""
    base = rng.randint(1000, 10 ** 6)
    genes = []
    n = rng.randint(1, 3)
    isos = []
    for g in range(n):
        gi = genome_gene(rng, base, "G%d" % g, micro=micro)
        isos += gi
        r = rng.random()
        if r < 0.4:
            pass                                    # next gene overlaps this one (same start region)
        else:
            base = max(e[1] for t in gi for e in t["feats"]) + rng.randint(50, 3000)
    if n > 1 and rng.random() < 0.5:
        # a second gene re-using an isoform of the first: shared exons and introns (flag M)
        src = rng.choice(isos)
        isos.append({"tid": "GS.t0", "strand": rng.choice(STRANDS), "gene": "GS", "feats": list(src["feats"])})
    return isos


def read_from_isoform(rng, feats, delta, micro=False):
    """alignment blocks derived from an isoform: truncation, terminal jitter, splice-site jitter around delta,
    exon skipping"""
    e = list(feats)
    if len(e) > 2 and rng.random() < 0.3:
        k = rng.randint(1, len(e) - 1)
        e = e[:k] if rng.random() < 0.5 else e[len(e) - k:]
    if len(e) > 2 and rng.random() < 0.2:
        del e[rng.randint(1, len(e) - 2)]
    out = []
    for i, (a, b) in enumerate(e):
        ja = rng.choice([0, 0, 0, 1, -1, delta, -delta, delta + 1, -delta - 1, 2])
        jb = rng.choice([0, 0, 0, 1, -1, delta, -delta, delta + 1, -delta - 1, 2])
        if i == 0 and rng.random() < 0.7:
            ja = rng.randint(-20, 40)
        if i == len(e) - 1 and rng.random() < 0.7:
            jb = -rng.randint(-20, 40)
        a2, b2 = a + ja, b + jb
        if a2 > b2:
            a2, b2 = a, b
        if out and a2 <= out[-1][1] + 1:
            a2 = out[-1][1] + 2
            if a2 > b2:
                continue
        out.append((max(1, a2), max(1, a2, b2)))
    return out or [e[0]]


def pipeline_case(rng, quick, micro=False, split=False):
    """one in-process 'chromosome': several GeneInfo loads (the same gene may be loaded several times, as the real
    pipeline does once per read cluster) and reads assigned to a load.
    split=True: a read cluster is cut into two sub-regions at a random position (AlignmentCollector.split_coverage_regions);
    each sub-region loads the genes overlapping the EXTENT of the alignments processed in it (the repaired forward_alignments;
    the real computation of that region is corresponded at the chromosome level, `chromosome_case`), a read bridging the cut is
    handed to both and counted through the first: the same annotated feature is still described by gene infos built from
    different gene subsets, and the expectations of the oracle come from the WHOLE annotation"""
    d = rng.choice([0, 4, 6, 12, 1, 2]) if not micro else rng.choice([1, 2, 4])
    ann = genome_annotation(rng, micro)
    gids = sorted({t["gene"] for t in ann})
    grange = {g: (min(e[0] for t in ann if t["gene"] == g for e in t["feats"]),
                  max(e[1] for t in ann if t["gene"] == g for e in t["feats"])) for g in gids}
    loads = []
    reads = []
    groups = ["A", "B", "C", "NA"]
    for li in range(rng.randint(1, 3)):
        # one read cluster: reads drawn from some of the genes; the load holds every gene overlapping the cluster
        # region (AlignmentCollector.get_gene_info_for_region), so the same gene is usually loaded several times
        chosen = [g for g in gids if rng.random() < 0.6] or [rng.choice(gids)]
        src = [t for t in ann if t["gene"] in chosen]
        cluster = []
        for _ in range(rng.randint(1, 6 if quick else 12)):
            t = rng.choice(src)
            blocks = read_from_isoform(rng, t["feats"], d, micro)
            polya = rng.choice([-1, -1, -1, blocks[-1][1]])
            polyt = rng.choice([-1, -1, -1, blocks[0][0]])
            cluster.append({"gene": li, "blocks": blocks, "polya": polya, "polyt": polyt, "group": rng.choice(groups)})
        region = (min(r["blocks"][0][0] for r in cluster), max(r["blocks"][-1][1] for r in cluster))
        subregions = [(region, cluster)]
        if split and region[1] - region[0] > 10:
            cut = rng.randint(region[0] + 1, region[1] - 1)
            left, right = (region[0], cut), (cut + 1, region[1])
            parts = {left: [], right: []}
            for r in cluster:
                inl = r["blocks"][0][0] <= cut
                inr = r["blocks"][-1][1] > cut
                # a read overlapping both sub-regions (it bridges the cut) is processed in BOTH; after the repair of audit2
                # GAP 1 both records are built against every gene the read overlaps, they are equal and the resolver keeps the
                # FIRST one: the read is counted through the left sub-region
                parts[left if inl else right].append(r)
                if inl and inr:
                    r["bridging"] = True
                    parts[right].append(dict(r, twin=True))
            subregions = [(reg, rs) for reg, rs in parts.items() if rs]
        for reg, rs in subregions:
            # repaired loading (forward_alignments): the genes overlapping the extent of the alignments processed in the
            # sub-region, not only those overlapping the sub-region itself
            ext = (min([reg[0]] + [r["blocks"][0][0] for r in rs]), max([reg[1]] + [r["blocks"][-1][1] for r in rs]))
            loaded = [g for g in gids if not (grange[g][1] < ext[0] or ext[1] < grange[g][0])]
            rs = [r for r in rs if not r.get("twin")]          # the twin record is suspended by the resolver
            if not loaded or not rs:
                continue
            for r in rs:
                r["gene"] = len(loads)
            loads.append([t for t in ann if t["gene"] in loaded])
            reads += rs
    if not loads:
        loads.append(list(ann))
    reads = [r for r in reads if r["gene"] < len(loads) and isinstance(r["gene"], int)]
    return {"chr": "chr1", "d": d, "abs_d": rng.choice([20, 20, 1, 5]), "default_group": "NA", "loads": loads, "reads": reads,
            "annotation": ann, "split": bool(split)}


def profile_cases(rng, quick):
    """exon_profile / intron_profile wrapper cases: small universe (gapped blocks) + genome scale"""
    cases = []
    U = 8
    ivs = [(a, b) for a in range(1, U + 1) for b in range(a, U + 1)]
    blocks_all = [l for l in G.all_sd_lists(U, 3) if l and all(l[i][1] + 1 < l[i + 1][0] for i in range(len(l) - 1))]
    known_sets = [sorted(c) for n in (1, 2) for c in itertools.combinations(ivs, n)]
    known_sets = rng.sample(known_sets, 150 if quick else 600)
    for known in known_sets:
        for blocks in rng.sample(blocks_all, 12 if quick else 40):
            for d in (0, 1, 2):
                gr = (known[0][0], max(k[1] for k in known))
                pa = rng.choice([-1, -1, rng.randint(1, U)])
                pt = rng.choice([-1, -1, rng.randint(1, U)])
                cases.append(("exon_profile", {"known": known, "gene_region": gr, "d": d, "blocks": blocks, "polya": pa, "polyt": pt}))
                cases.append(("intron_profile", {"known": known, "gene_region": gr, "d": d, "abs_d": rng.choice([0, 1, 2, 3]),
                                                 "blocks": blocks, "polya": pa, "polyt": pt}))
    for _ in range(150 if quick else 1500):
        isos = genome_annotation(rng, micro=rng.random() < 0.3)
        d = rng.choice([0, 4, 6, 12])
        exons = sorted({tuple(e) for t in isos for e in t["feats"]})
        introns = sorted({j for t in isos for j in junctions(t["feats"])})
        gr = (min(e[0] for e in exons), max(e[1] for e in exons))
        blocks = read_from_isoform(rng, rng.choice(isos)["feats"], d)
        pa = rng.choice([-1, blocks[-1][1]])
        pt = rng.choice([-1, blocks[0][0]])
        cases.append(("exon_profile", {"known": exons, "gene_region": gr, "d": d, "blocks": blocks, "polya": pa, "polyt": pt}))
        if introns:
            cases.append(("intron_profile", {"known": introns, "gene_region": gr, "d": d, "abs_d": 20, "blocks": blocks,
                                             "polya": pa, "polyt": pt}))
    # loci with 128..400+ annotated features (seed C01_a4): both constructors, both absence conditions
    cases += G.big_locus_profile_cases(rng, 4 if quick else 40)
    cases.append(("exon_profile", {"known": [(1, 2)], "gene_region": (1, 2), "d": 0, "blocks": [], "polya": -1, "polyt": -1}))
    cases.append(("intron_profile", {"known": [(1, 2)], "gene_region": (1, 2), "d": 0, "abs_d": 1, "blocks": [], "polya": -1, "polyt": -1}))
    return cases


def junctions(blocks):
    return [(blocks[i][1] + 1, blocks[i + 1][0] - 1) for i in range(len(blocks) - 1) if blocks[i][1] + 1 < blocks[i + 1][0]]


def history_case(rng, quick, malformed=False):
    """a counter history: property maps (the same coordinates may occur in several maps under different running
    ids, as when a gene is loaded repeatedly) and events (profile, map index, group)"""
    coords = [(rng.choice(["chr1", "chr2"]), s, s + rng.randint(0, 3), rng.choice(["+", "-", "+-"])) for s in range(1, rng.randint(3, 9))]
    pmaps = []
    nid = 1
    relabel = rng.random() < 0.5      # the same feature described by gene infos built from different gene subsets
    for _ in range(rng.randint(1, 4)):
        sub = [c for c in coords if rng.random() < 0.8] or coords[:1]
        pm = []
        for (c, s, e, st) in sub:
            genes = sorted(rng.sample(["g1", "g2", "g3", "G10", "g"], rng.randint(1, 2)))
            if relabel and rng.random() < 0.5:
                st = rng.choice(["+", "-", "+-", ".", "+.", "-."])
            pm.append({"id": nid, "chr": c, "start": s, "end": e, "strand": st,
                       "type": rng.choice(["X", "IU", "TSC", "IM", "XU", "XM", "T", "I", "TSM", "ICU", "XSCU", "TU"]),
                       "genes": genes})
            nid += 1
        pmaps.append(pm)
    events = []
    for _ in range(rng.randint(0, 12)):
        pi = rng.randrange(len(pmaps))
        n = len(pmaps[pi])
        if malformed and rng.random() < 0.3:
            n += rng.randint(1, 2)
        elif rng.random() < 0.1:
            n = max(0, n - 1)
        events.append({"profile": [rng.choice([1, 1, -1, -1, 0, -2]) for _ in range(n)], "pmap": pi,
                       "group": rng.choice(["A", "B", "NA", "zz", "a"])})
    return {"pmaps": pmaps, "events": events, "default_group": "NA"}


FLAG_STRINGS = [b + sflag + c + m for b in "XTI" for sflag in ("", "S") for c in ("", "C") for m in ("", "U", "M")]


def label_pairs(rng, quick):
    """pairs of FeatureInfo descriptions of one feature (FeatureInfo.merge): well-formed flag strings, sorted gene lists,
    strand strings over + - . ; plus a malformed stream (empty / unknown flags, unsorted genes, repeated characters)"""
    res = []
    genes_all = ["g1", "g2", "G10", "g", "gA", "gB", "ENSG01.2"]
    strands = ["+", "-", ".", "+-", "+.", "-.", "+-."]
    for i in range(300 if quick else 3000):
        labs = []
        for _ in range(2):
            if i % 9 == 0:
                labs.append({"strand": rng.choice(strands + ["", "-+", "++", "x"]),
                             "type": rng.choice(FLAG_STRINGS + ["", "S", "UM", "Q", "MX", "XX"]),
                             "genes": [rng.choice(genes_all) for _ in range(rng.randint(0, 3))]})
            else:
                g = sorted(rng.sample(genes_all, rng.randint(1, 3)))
                t = rng.choice(FLAG_STRINGS)
                if len(g) > 1:
                    t = t.rstrip("UM") + "M"
                else:
                    t = t.rstrip("M")
                labs.append({"strand": rng.choice(strands), "type": t, "genes": g})
        if rng.random() < 0.15:
            labs[1] = dict(labs[0])
        s = rng.randint(1, 10 ** 6)
        res.append(tuple(dict(l, id=j + 1, chr="chr1", start=s, end=s + 10) for j, l in enumerate(labs)))
    return res


def _passes(a, no_secondary, min_mapq):
    """the records process_genic / process_intergenic assign (their first two `continue`s)"""
    f = a[2]
    return not (f & 4) and not (f & 2) and not (no_secondary and (f & 1)) and not (min_mapq and a[3] < min_mapq)


def chromosome_case(rng, quick, small=False):
    """one chromosome for the region-splitting level (C13 chromosome model): a read cluster long enough to be cut by
    split_coverage_regions (> 32768 bp with coverage valleys), genes scattered over it (some nested in valleys, some beyond
    the last alignment of a sub-region), reads bridging the cuts (some of them several cuts), plus small clusters that are not
    cut.  Alignments are [start0, stop (exclusive), flags, mapq, rid]; genes [gid, start, end] (1-based, closed); the
    per-alignment answers of the assigner / profile constructors are TABLES over the whole annotation: hits[rid] = [(isoform id,
    gene id)], marks[rid] = [(gene id, start, end, +1 | -1)] - an isoform / a feature is visible to a record iff its gene is
    loaded.  A feature belongs to one gene here (label merging is the subject of the row theorems); an alignment marks only
    features of genes it overlaps: its 1-based interval [start0 + 1, stop] against the 1-based gene record.
    Widened (p13local follow-up): (1) genes whose FIRST base is the LAST aligned base of an alignment (`last_base`: [gid, rid];
    the alignment overlaps them and marks their features) and genes whose last base is the base BEFORE an alignment (not
    overlapped: never named) or its FIRST base (overlapped); (2) records that are never assigned - supplementary, MAPQ below `min_mapq`, secondary under
    `no_secondary` - as the bridging record of a valley or reaching 60-400 kb beyond the cluster, with genes under their tails;
    they get no answers."""
    alns, genes, hits, marks = [], [], {}, {}
    no_secondary = rng.random() < 0.4
    min_mapq = rng.choice([0, 10])

    def unassigned_flags():
        kinds = [(2, 60)]
        if no_secondary:
            kinds.append((1, 60))
        if min_mapq:
            kinds.append((0, rng.randint(0, min_mapq - 1)))
        return rng.choice(kinds)
    rid = 0
    pos = rng.randint(0, 5000)
    n_cl = 1 if small else rng.randint(1, 3)
    gid = 0
    for c in range(n_cl):
        big = small or rng.random() < 0.75
        if not big:
            # a small cluster: not cut
            cl_start = pos
            for _ in range(rng.randint(1, 6)):
                s = cl_start + rng.randint(0, 800)
                alns.append([s, s + rng.randint(50, 1500), 0, 60, rid])
                rid += 1
            end = max(a[1] for a in alns)
            pos = end + rng.randint(300, 3000)
            continue
        # dense blocks separated by valleys of 33-60 kb crossed by 0-1 bridging reads... a valley is only a cut when its
        # coverage is <= 1, and the cluster only stays one cluster if something crosses it: exactly one bridging read per valley
        nblocks = rng.randint(2, 4)
        block_spans = []
        p = pos
        for b in range(nblocks):
            blen = rng.randint(1500, 6000)
            block_spans.append((p, p + blen))
            p += blen + rng.randint(33000, 50000)
        for (bs, be) in block_spans:
            for _ in range(rng.randint(3, 9)):
                s = rng.randint(bs, be - 200)
                alns.append([s, min(be, s + rng.randint(100, 2500)), 0, 60, rid])
                rid += 1
        # bridging records: one per valley; sometimes ONE over several valleys instead; sometimes a record that is never assigned
        v = 0
        while v < nblocks - 1:
            k = 1
            if v + 2 <= nblocks - 1 and rng.random() < 0.3:
                k = 2
            s = rng.randint(block_spans[v][0], block_spans[v][1] - 100)
            e = rng.randint(block_spans[v + k][0] + 50, block_spans[v + k][1])
            fl, mq = unassigned_flags() if rng.random() < 0.35 else (0, 60)
            alns.append([s, e, fl, mq, rid])
            rid += 1
            v += k
        tail_end = block_spans[-1][1]
        tail = None
        if rng.random() < 0.5:
            # a never-assigned record reaching far beyond the cluster (a supplementary alignment with a huge gap)
            s = rng.randint(block_spans[-1][0], block_spans[-1][1] - 100)
            tail_end = block_spans[-1][1] + rng.randint(60000, 400000)
            fl, mq = unassigned_flags()
            alns.append([s, tail_end, fl, mq, rid])
            rid += 1
            tail = (block_spans[-1][1] + 2000, tail_end)
        pos = tail_end + rng.randint(300, 3000)
        # genes: inside blocks, nested in valleys, spanning several blocks, under the tail of the far-reaching record
        for (bs, be) in block_spans:
            for _ in range(rng.randint(0, 2)):
                s = rng.randint(bs - 500, be)
                genes.append([gid, max(1, s), s + rng.randint(200, 4000)])
                gid += 1
        for b in range(nblocks - 1):
            for _ in range(rng.randint(0, 2)):
                s = rng.randint(block_spans[b][1] + 1000, block_spans[b + 1][0] - 3000)
                genes.append([gid, s, s + rng.randint(200, 2000)])
                gid += 1
        if tail:
            for _ in range(rng.randint(1, 3)):
                s = rng.randint(tail[0], tail[1])
                genes.append([gid, s, s + rng.randint(200, 2000)])
                gid += 1
        if rng.random() < 0.5:
            genes.append([gid, block_spans[0][0] + 100, block_spans[-1][1] - 100])
            gid += 1
    alns.sort(key=lambda a: (a[0], a[4]))
    # (1) genes at the two ends of an assigned alignment: first base = its last base (overlapped), last base = the base before it
    last_base = []
    assigned = [a for a in alns if _passes(a, no_secondary, min_mapq)]
    for a in rng.sample(assigned, min(len(assigned), rng.randint(1, 3))):
        genes.append([gid, a[1], a[1] + rng.randint(200, 1500)])
        last_base.append([gid, a[4]])
        gid += 1
    for a in rng.sample(assigned, min(len(assigned), rng.randint(0, 2))):
        if a[0] > 300:
            # last base = the base before the alignment (a[0], not overlapped) or = its first base (a[0] + 1, overlapped)
            genes.append([gid, a[0] - rng.randint(100, 250), a[0] + rng.randint(0, 1)])
            gid += 1
    # annotated features: a few per gene, coordinates unique on the chromosome
    used, feats = set(), {}
    for g in genes:
        fl = []
        for _ in range(rng.randint(1, 4)):
            s_ = rng.randint(g[1], g[2])
            f = (s_, s_ + rng.randint(0, 300))
            if f not in used:
                used.add(f)
                fl.append(f)
        feats[g[0]] = fl
    # answers: an assigned alignment matches isoforms / marks features of genes it overlaps
    iso = 0
    for a in alns:
        if not _passes(a, no_secondary, min_mapq):
            hits[a[4]], marks[a[4]] = [], []
            continue
        ov = [g for g in genes if g[1] <= a[1] and g[2] >= a[0] + 1]
        h, m = [], []
        for g in ov:
            if rng.random() < 0.5:
                h.append([iso, g[0]])
                iso += 1
            for f in feats[g[0]]:
                if rng.random() < 0.7:
                    m.append([g[0], f[0], f[1], rng.choice([1, -1])])
        hits[a[4]] = h
        marks[a[4]] = m
    return {"alns": alns, "genes": genes, "hits": [[r, hits[r]] for r in sorted(hits)], "marks": [[r, marks[r]] for r in sorted(marks)],
            "no_secondary": no_secondary, "min_mapq": min_mapq, "last_base": last_base}


def _gene_exons(rng, s, e, gap):
    """exon blocks inside the gene record [s, e]; consecutive coordinates at least `gap` apart"""
    L = e - s + 1
    if L < 4 * gap:
        return [(s, e)]
    for _ in range(20):
        n = rng.randint(1, max(1, min(5, L // (3 * gap))))
        pts = sorted(rng.sample(range(s, e + 1), 2 * n))
        if all(b - a >= gap for a, b in zip(pts, pts[1:])):
            ex = [(pts[2 * i], pts[2 * i + 1]) for i in range(n)]
            if rng.random() < 0.6:
                ex[0] = (s, ex[0][1])
                ex[-1] = (ex[-1][0], e)
            return ex
    return [(s, e)]


def chromosome_profile_case(rng, quick, small=False, micro=False):
    """a chromosome of `chromosome_case` (clusters cut into sub-regions, bridging reads, genes in valleys) with a REAL
    annotation and REAL read blocks (closure p13local): per gene 1-3 isoforms (exon skipping, alternative sites within and
    beyond delta), exons inside the gene record; per alignment [start0, stop) blocks inside [start0 + 1, stop] derived from an
    isoform of an overlapped gene (clipped, splice sites jittered around delta) or free.  Without `micro`: annotated exons /
    introns and read blocks / introns are >= 30 - 2*delta long (the hypotheses `ExonHyp` / `IntronHyp`).  The genes
    `chromosome_case` plants at the LAST aligned base of a read get a first exon of delta + 1 bases there and the read a last
    block of delta + 1 bases ending there (the two are equal within delta: the read includes the exon); never-assigned
    records (supplementary / low MAPQ / secondary) get blocks too but no record.  hits = the assigner table as in
    `chromosome_case`."""
    base = chromosome_case(rng, quick, small)
    d = rng.choice([0, 2, 4, 6])
    abs_d = rng.choice([10, 20])
    gap = 3 if micro else 30
    alns = base["alns"]
    genes = [list(g) for g in base["genes"]]
    planted = {g: r for g, r in base["last_base"]}     # gene whose first base is the last aligned base of read r
    isoforms = {}
    for gid, s, e in genes:
        ex = _gene_exons(rng, s, e, gap)
        if gid in planted and e - s > d + 120:
            # first exon = d + 1 bases starting at the read's last base: the read's last block (below) equals it within delta
            ex = [(s, s + d), (s + d + 60, e)]
        strand = rng.choice(["+", "-"])
        isos = [{"tid": "T%d.0" % gid, "strand": strand, "gene": "G%06d" % gid, "feats": [list(x) for x in ex]}]
        for t in range(1, rng.randint(1, 3)):
            e2 = list(ex)
            r = rng.random()
            if r < 0.4 and len(e2) > 2:
                del e2[rng.randint(1, len(e2) - 2)]
            elif r < 0.8:
                i = rng.randrange(len(e2))
                sh = rng.choice([1, 2, d, d + 1, 7]) if d else rng.choice([1, 2, 7])
                a, b = e2[i]
                if rng.random() < 0.5 and i > 0:
                    a += sh
                elif i < len(e2) - 1:
                    b -= sh
                if b - a >= (gap - 2 * 6 if not micro else 0):
                    e2[i] = (a, b)
            isos.append({"tid": "T%d.%d" % (gid, t), "strand": strand, "gene": "G%06d" % gid, "feats": [list(x) for x in e2]})
        isoforms[gid] = isos
    reads = {}
    last_block_reads = set(planted.values())
    for a in alns:
        lo, hi = a[0] + 1, a[1]
        ov = [g for g in genes if g[1] <= a[1] and g[2] >= a[0] + 1 and g[0] not in planted]
        blocks = []
        if ov and rng.random() < 0.85:
            g = rng.choice(ov)
            feats = rng.choice(isoforms[g[0]])["feats"]
            for (x, y) in feats:
                jx = rng.choice([0, 0, 1, -1, d, -d, d + 1, -d - 1]) if rng.random() < 0.5 else 0
                jy = rng.choice([0, 0, 1, -1, d, -d, d + 1, -d - 1]) if rng.random() < 0.5 else 0
                x2, y2 = max(lo, x + jx), min(hi, y + jy)
                if y2 - x2 >= (gap - 2 * 6 - 2 if not micro else 0) and (not blocks or x2 - blocks[-1][1] > (d + 2 if not micro else 1)):
                    blocks.append([x2, y2])
            if blocks and rng.random() < 0.2 and len(blocks) > 2:
                del blocks[rng.randint(1, len(blocks) - 2)]
        if not blocks:
            blocks = [[lo, hi]]
        # an alignment starts with its first block and ends with its last one
        if lo <= blocks[0][1] - (0 if micro else 8):
            blocks[0][0] = lo
        if hi >= blocks[-1][0] + (0 if micro else 8):
            blocks[-1][1] = hi
        if a[4] in last_block_reads and hi - lo > 3 * d + 120:
            # a last block of d + 1 bases ending at the last aligned base
            blocks = [b for b in blocks if b[1] <= hi - 3 * d - 60] or [[lo, hi - 3 * d - 60]]
            blocks.append([hi - d, hi])
        pa = pt = -1
        if a[4] in last_block_reads:
            pass
        elif rng.random() < 0.12:
            pa = blocks[-1][1] - rng.randint(0, 50)
        elif rng.random() < 0.12:
            pt = blocks[0][0] + rng.randint(0, 50)
        reads[a[4]] = {"blocks": blocks, "polya": pa, "polyt": pt, "group": "NA"}
    return {"alns": alns, "genes": genes, "hits": base["hits"], "chr": "chrF", "d": d, "abs_d": abs_d,
            "no_secondary": base["no_secondary"], "min_mapq": base["min_mapq"],
            "isoforms": [[g, isoforms[g]] for g in sorted(isoforms)], "reads": [[r, reads[r]] for r in sorted(reads)]}
