"""Seeded pipeline scenarios for C03 / C05: reference transcripts the pipeline cannot digest, and inputs whose contig
sets (annotation / BAM header / reference FASTA) differ.

A `Scenario` wraps a `synth.Dataset` (which always writes FASTA, BAM header and GTF from ONE chromosome list) and
re-writes the three files with their own contig sets:

  exonless           a reference transcript without exon records (plain, and with a CDS child only) in a gene with reads
  ann_only_chrom     a gene on a chromosome that exists only in the annotation
  fasta_only_chrom   a chromosome in the FASTA (and the annotation) that the BAM header does not list
  bam_only_contig    a BAM contig (with primary alignments) that the FASTA lacks
  contig_sets        random subsets of four contigs as BAM header / FASTA keys, reads incl. secondary / supplementary records
  gene_two_chroms    exon-only GTF (gene / transcript records inferred by gffutils) with one gene_id on two chromosomes
  dup_exon_line      a reference transcript whose GTF lists one exon line twice (two annotation files concatenated)
  overlap_exons      a reference transcript whose exon records overlap: (a, b), (b - 50, c)
  control            the same data with equal contig sets and a clean annotation

Everything random comes from the seed.
"""
import os
import random

from gen import synth


class Scenario:
    def __init__(self, name, seed):
        self.name = name
        self.seed = seed
        self.ds = synth.Dataset(seed)
        self.fasta = None            # contig names of the FASTA (None = all of ds.chroms)
        self.bam = None              # contig names of the BAM header (None = all of ds.chroms)
        self.extra_genes = []        # genes on chromosomes that have no sequence in ds (same dict format as ds.genes)
        self.exonless = []           # (chrom, gene_id, strand, tid, start, end, cds or None)
        self.complete_genedb = True
        self.with_annotation = True
        self.shared_gene = None      # gene id used on two chromosomes
        self.exon_lines = {}         # tid -> exon records as written (default: the transcript's exon list)
        self.bad_exon_tx = None      # (tid, 'dup' | 'overlap'): the transcript whose exon records are malformed
        self.clean_exons = {}        # tid -> exon list after the correction the input check offers (dup: first copies)

    # ---- views used by the validators
    def fasta_names(self):
        return list(self.ds.chroms) if self.fasta is None else list(self.fasta)

    def bam_names(self):
        return list(self.ds.chroms) if self.bam is None else list(self.bam)

    def all_genes(self):
        return list(self.ds.genes) + list(self.extra_genes)

    def annotation_chroms(self):
        return sorted({g["chr"] for g in self.all_genes()})

    def primary_reads(self):
        return [r for r in self.ds.reads if not (r["flag"] & (4 | 256 | 2048))]


def _gtf_lines(sc):
    ds = sc.ds
    genes = sc.all_genes()
    out = []
    order = sorted(genes, key=lambda g: (g["chr"], min(e[0] for _, ex in g["transcripts"] for e in ex)))
    for g in order:
        allex = [e for _, ex in g["transcripts"] for e in ex]
        spans = [(s, e) for (c, gid, st, tid, s, e, cds) in sc.exonless if gid == g["gene_id"] and c == g["chr"]]
        gs = min([e[0] for e in allex] + [s for s, _ in spans])
        ge = max([e[1] for e in allex] + [e for _, e in spans])
        attr_g = 'gene_id "%s";' % g["gene_id"]
        if sc.complete_genedb:
            out.append('%s\tsyn\tgene\t%d\t%d\t.\t%s\t.\t%s' % (g["chr"], gs, ge, g["strand"], attr_g))
        for tid, ex in g["transcripts"]:
            attr = 'gene_id "%s"; transcript_id "%s";' % (g["gene_id"], tid)
            if sc.complete_genedb:
                out.append('%s\tsyn\ttranscript\t%d\t%d\t.\t%s\t.\t%s' % (g["chr"], ex[0][0], ex[-1][1], g["strand"], attr))
            for a, b in sc.exon_lines.get(tid, ex):
                out.append('%s\tsyn\texon\t%d\t%d\t.\t%s\t.\t%s' % (g["chr"], a, b, g["strand"], attr))
        for (c, gid, st, tid, s, e, cds) in sc.exonless:
            if gid != g["gene_id"] or c != g["chr"]:
                continue
            attr = 'gene_id "%s"; transcript_id "%s";' % (gid, tid)
            out.append('%s\tsyn\ttranscript\t%d\t%d\t.\t%s\t.\t%s' % (c, s, e, st, attr))
            if cds:
                out.append('%s\tsyn\tCDS\t%d\t%d\t.\t%s\t0\t%s' % (c, cds[0], cds[1], st, attr))
    return out


def write(sc, d):
    """-> paths (ref, gtf, bam) with the scenario's own contig sets"""
    import pysam
    ds = sc.ds
    paths = ds.write(d)
    if sc.bam is not None and list(sc.bam) != list(ds.chroms):
        sub = synth.Dataset(0)
        sub.chroms = {n: ds.chroms[n] for n in sc.bam}
        sub.reads = [r for r in ds.reads if (r["flag"] & 4) or r["chr"] in sub.chroms]
        for p in (paths["bam"], paths["bam"] + ".bai"):
            if os.path.exists(p):
                os.remove(p)
        sub.write(d, write_ref=False)
    if sc.fasta is not None and list(sc.fasta) != list(ds.chroms):
        for p in (paths["ref"], paths["ref"] + ".fai"):
            if os.path.exists(p):
                os.remove(p)
        with open(paths["ref"], "w") as f:
            for n in sc.fasta:
                s = ds.chroms[n]
                f.write(">%s\n" % n)
                for i in range(0, len(s), 60):
                    f.write(s[i:i + 60] + "\n")
        pysam.faidx(paths["ref"])
    with open(paths["gtf"], "w") as f:
        f.write("\n".join(_gtf_lines(sc)) + "\n")
    return paths


def _base(sc, rng, second_gene=True):
    """two chromosomes; chr1: gene GA with two annotated isoforms + reads of a novel isoform with a further exon;
    chr2: gene GB (one isoform, '-' strand)"""
    ds = sc.ds
    ds.add_chrom("chr1", 40000)
    ds.add_chrom("chr2", 20000)
    o = rng.randint(0, 400)
    t1 = [(1000 + o, 1200 + o), (1500 + o, 1700 + o), (2000 + o, 2300 + o)]
    t2 = [t1[0], t1[2]]
    ds.add_gene("chr1", "GA", "+", [("TA1", t1), ("TA2", t2)])
    nov = t1 + [(2600 + o, 2900 + o)]
    ds.plant_sites("chr1", [(2301 + o, 2599 + o)], "+")
    n = rng.randint(8, 11)
    for k in range(n):
        ds.read_from_exons("a%d" % k, "chr1", t1, polya=25)
        ds.read_from_exons("b%d" % k, "chr1", t2, polya=25)
        ds.read_from_exons("c%d" % k, "chr1", nov, polya=25)
    if second_gene:
        p = rng.randint(0, 300)
        t3 = [(500 + p, 800 + p), (1200 + p, 1500 + p)]
        ds.add_gene("chr2", "GB", "-", [("TB1", t3)])
        for k in range(rng.randint(6, 9)):
            ds.read_from_exons("d%d" % k, "chr2", t3, polyt=25)
    return t1


def build(name, seed):
    sc = Scenario(name, seed)
    rng = random.Random(seed * 7919 + 13)
    ds = sc.ds
    if name in ("control", "exonless", "ann_only_chrom", "fasta_only_chrom"):
        t1 = _base(sc, rng)
        if name == "exonless":
            # a transcript record of GA without any exon record, and one that has only a CDS child
            sc.exonless.append(("chr1", "GA", "+", "TX_noexon", t1[0][0], t1[-1][1], None))
            if rng.random() < 0.7:
                sc.exonless.append(("chr1", "GA", "+", "TX_cdsonly", t1[0][0], t1[1][1], (t1[0][0] + 20, t1[0][1] - 5)))
            if rng.random() < 0.5:
                g = [g for g in ds.genes if g["gene_id"] == "GB"][0]
                ex = g["transcripts"][0][1]
                sc.exonless.append(("chr2", "GB", "-", "TY_noexon", ex[0][0], ex[-1][1], None))
        elif name == "ann_only_chrom":
            z = rng.choice(["chrZ", "chrUn_1", "MT"])
            a = rng.randint(200, 600)
            sc.extra_genes.append({"chr": z, "gene_id": "GZ", "strand": rng.choice("+-"),
                                   "transcripts": [("TZ", [(a, a + 200), (a + 400, a + 600)])]})
        elif name == "fasta_only_chrom":
            ds.add_chrom("chr3", 5000)
            a = rng.randint(200, 600)
            ds.add_gene("chr3", "GZ", "+", [("TZ", [(a, a + 200), (a + 400, a + 600)])])
            sc.bam = ["chr1", "chr2"]
    elif name in ("dup_exon_line", "overlap_exons"):
        # audit2-A F3: gene GU / TU (three exons, reads follow the true chain), a second clean gene on chr2; the GTF of TU
        # repeats one exon line / widens one exon into its neighbour.  Either strand, either complete or exon-only GTF.
        ds.add_chrom("chr1", 30000)
        ds.add_chrom("chr2", 20000)
        o = rng.randint(0, 400)
        strand = rng.choice("+-")
        e = [(2001 + o, 2300 + o), (2601 + o, 3000 + o), (3501 + o, 3800 + o)]
        if rng.random() < 0.5:
            e.append((4201 + o, 4500 + o))
        sc.complete_genedb = rng.random() < 0.7
        tail = {"polya": 25} if strand == "+" else {"polyt": 25}
        k = rng.randrange(len(e) - 1)
        if name == "dup_exon_line":
            j = rng.randrange(len(e))
            written = e[:j + 1] + [e[j]] + e[j + 1:] if rng.random() < 0.6 else e + [e[j]]
            ds.add_gene("chr1", "GU", strand, [("TU", e)])
            sc.bad_exon_tx = ("TU", "dup")
            sc.clean_exons["TU"] = e
        else:
            # exon k+1 starts inside exon k
            written = list(e)
            written[k + 1] = (e[k][1] - rng.randint(0, 60), e[k + 1][1])
            ds.add_gene("chr1", "GU", strand, [("TU", written)], plant=False)
            ds.plant_sites("chr1", [(e[i][1] + 1, e[i + 1][0] - 1) for i in range(len(e) - 1)], strand)
            sc.bad_exon_tx = ("TU", "overlap")
        if strand == "-" and rng.random() < 0.5:
            written = written[::-1]           # Ensembl lists the exons of a '-' transcript in descending order
        sc.exon_lines["TU"] = written
        for i in range(rng.randint(6, 9)):
            ds.read_from_exons("u%d" % i, "chr1", e, **tail)
        p = rng.randint(0, 300)
        t3 = [(500 + p, 800 + p), (1200 + p, 1500 + p)]
        ds.add_gene("chr2", "GB", "-", [("TB1", t3)])
        for i in range(rng.randint(5, 8)):
            ds.read_from_exons("d%d" % i, "chr2", t3, polyt=25)
    elif name == "bam_only_contig":
        # unspliced reads on two contigs; the FASTA holds the first one only
        sc.with_annotation = False
        ds.add_chrom("chrA", 12000)
        ds.add_chrom("chrB", 9000)
        na, nb = rng.randint(12, 18), rng.randint(7, 12)
        for i in range(na):
            pos = 500 + 300 * i + rng.randint(0, 40)
            ds.add_read("a%d" % i, "chrA", pos, "200M")
        for i in range(nb):
            pos = 700 + 300 * i + rng.randint(0, 40)
            ds.add_read("b%d" % i, "chrB", pos, "200M")
        sc.fasta = ["chrA"]
    elif name == "contig_sets":
        # random contig sets: BAM header and FASTA are two subsets of four contigs with a non-empty intersection; unspliced
        # reads (some secondary / supplementary records) on the contigs of the header
        sc.with_annotation = False
        names = ["ctgA", "ctgB", "ctgC", "ctgD"]
        for n in names:
            ds.add_chrom(n, rng.choice([7000, 9000, 12000]))
        both = rng.choice(names)
        header = [n for n in names if n == both or rng.random() < 0.55]
        fasta = [n for n in names if n == both or rng.random() < 0.55]
        k = 0
        for n in header:
            for i in range(rng.randint(0, 9) if n != both else rng.randint(4, 9)):
                pos = rng.randint(100, len(ds.chroms[n]) - 400)
                flag = rng.choice([0] * 8 + [256, 2048])
                ds.add_read("r%d" % k, n, pos, "200M", flag=flag)
                k += 1
        sc.bam = header
        sc.fasta = fasta
    elif name == "gene_two_chroms":
        # UCSC-style exon-only GTF: the same gene_id on two chromosomes (PAR genes, alt haplotypes)
        sc.complete_genedb = False
        sc.shared_gene = "SHARED"
        ds.add_chrom("chr1", 30000)
        ds.add_chrom("chr2", 30000)
        o = rng.randint(0, 300)
        e1 = [(1000 + o, 1200 + o), (1500 + o, 1700 + o), (2000 + o, 2300 + o)]
        e2 = [(4000 + o, 4250 + o), (4600 + o, 4800 + o)]
        ds.add_gene("chr1", "SHARED", "+", [("TS_chr1", e1)])
        ds.add_gene("chr2", "SHARED", "+", [("TS_chr2", e2)])
        ds.add_gene("chr1", "GP1", "+", [("TP1", [(8000, 8200), (8600, 8900)])])
        ds.add_gene("chr2", "GP2", "-", [("TP2", [(9000, 9300), (9700, 9900)])])
        for k in range(rng.randint(7, 10)):
            ds.read_from_exons("s1_%d" % k, "chr1", e1, polya=25)
            ds.read_from_exons("s2_%d" % k, "chr2", e2, polya=25)
            ds.read_from_exons("p1_%d" % k, "chr1", [(8000, 8200), (8600, 8900)], polya=25)
            ds.read_from_exons("p2_%d" % k, "chr2", [(9000, 9300), (9700, 9900)], polyt=25)
    else:
        raise ValueError("unknown scenario %s" % name)
    return sc


SCENARIOS = ["control", "exonless", "ann_only_chrom", "fasta_only_chrom", "bam_only_contig", "contig_sets", "gene_two_chroms",
             "dup_exon_line", "overlap_exons"]


# ------------------------------------------------------------------------------------------------------------------
# exon lines for the input annotation check (check_gtf_duplicates): duplicated lines, overlapping / nested / touching exons,
# equal coordinates in different transcripts, one transcript id on two sequences, any line order


def exon_line_case(rng):
    """-> dict(lines=[(seq, tid, start, end)...] in file order, records=bool (gene / transcript records written))
    seq in 1..2, tid small; most transcripts are clean (sorted disjoint exons), then anomalies are injected"""
    nseq = rng.choice([1, 1, 2])
    records = rng.random() < 0.6
    lines = []
    tids = {}
    ntx = rng.randint(1, 4)
    for t in range(1, ntx + 1):
        seq = rng.randint(1, nseq)
        tid = t if (records or rng.random() < 0.7 or not tids) else rng.choice(list(tids))
        if records and tid in tids:
            continue
        tids[tid] = seq
        p = rng.choice([1, 1, 50, 900])
        ex = []
        for _ in range(rng.randint(1, 5)):
            ln = rng.choice([1, 1, 5, 40, 300])
            ex.append((p, p + ln - 1))
            p += ln + rng.choice([0, 0, 1, 7, 120])        # gap 0 = touching exons (legal: they share no position)
        r = rng.random()
        if r < 0.25 and ex:
            j = rng.randrange(len(ex))
            for _ in range(rng.choice([1, 1, 2])):
                ex.insert(rng.randint(0, len(ex)), ex[j])        # a line listed twice / three times
        elif r < 0.5 and ex:
            j = rng.randrange(len(ex))
            a, b = ex[j]
            kind = rng.choice(["into_next", "nested", "one_base", "same_start", "same_end"])
            if kind == "into_next" and j + 1 < len(ex):
                ex[j] = (a, ex[j + 1][0] + rng.randint(0, 3))
            elif kind == "nested":
                ex.insert(rng.randint(0, len(ex)), (a + (b - a) // 3, b - (b - a) // 3))
            elif kind == "one_base":
                ex.insert(rng.randint(0, len(ex)), (b, b + rng.randint(0, 4)))
            elif kind == "same_start":
                ex.insert(rng.randint(0, len(ex)), (a, b + 2))
            else:
                ex.insert(rng.randint(0, len(ex)), (max(1, a - 2), b))
        if rng.random() < 0.3:
            rng.shuffle(ex)
        elif rng.random() < 0.2:
            ex = ex[::-1]
        lines += [(seq, tid, a, b) for a, b in ex]
    if not records and rng.random() < 0.3:
        rng.shuffle(lines)                                   # interleaved transcripts
    return {"lines": lines, "records": records}


def exon_line_gtf(case, strand="+"):
    """GTF text of an `exon_line_case` (+ 1-based line number of every exon line)"""
    out = []
    where = []
    seen = set()
    for (seq, tid, a, b) in case["lines"]:
        gid = "G%d_%d" % (seq, tid)
        attr = 'gene_id "%s"; transcript_id "T%d";' % (gid, tid)
        if case["records"] and (seq, tid) not in seen:
            seen.add((seq, tid))
            mine = [(x, y) for (s, t, x, y) in case["lines"] if (s, t) == (seq, tid)]
            lo, hi = min(x for x, _ in mine), max(y for _, y in mine)
            out.append('c%d\tsyn\tgene\t%d\t%d\t.\t%s\t.\tgene_id "%s";' % (seq, lo, hi, strand, gid))
            out.append('c%d\tsyn\ttranscript\t%d\t%d\t.\t%s\t.\t%s' % (seq, lo, hi, strand, attr))
        out.append('c%d\tsyn\texon\t%d\t%d\t.\t%s\t.\t%s' % (seq, a, b, strand, attr))
        where.append(len(out))
    return "\n".join(out) + "\n", where


# ------------------------------------------------------------------------------------------------------------------
# in-process: annotations over several chromosomes for real gffutils databases + the FASTA key set of the run


def run_annotation(rng):
    """-> dict(fasta=[(name, length)...], chroms={name: [gene...]}, novel={name: [...]}, inferred=bool, shared=gid|None)
    gene = dict(gid, strand, start, end, transcripts=[dict(tid, exons, cds, span)]); `exons == []` = a transcript record
    without exon records (`span` is its own start / end).  Some annotated chromosomes are NOT in the FASTA, some FASTA
    chromosomes have no annotation.  `inferred`: exon-only GTF (gene / transcript records inferred by gffutils), then with
    probability 1/2 one gene_id is used on two chromosomes."""
    from gen import c03gen
    names = ["c1", "c2", "c3", "c4"]
    annotated = [n for n in names[:3] if rng.random() < 0.75] or ["c1"]
    inferred = rng.random() < 0.2
    chroms = {}
    for n in annotated:
        ann = c03gen.annotation(rng)
        genes = []
        for g in ann["genes"]:
            g = dict(g)
            g["gid"] = "%s_%s" % (n, g["gid"])
            txs = []
            for t in g["transcripts"]:
                t = dict(t)
                t["tid"] = "%s_%s" % (n, t["tid"])
                t["span"] = (t["exons"][0][0], t["exons"][-1][1])
                txs.append(t)
            if not inferred and rng.random() < 0.35:
                # a transcript record without exon records (optionally with a CDS child only)
                a = rng.randint(g["start"], g["end"])
                b = rng.randint(a, g["end"])
                txs.insert(rng.randint(0, len(txs)), {"tid": "%s_X%d" % (g["gid"], len(txs)), "exons": [],
                                                     "cds": [(a, b)] if rng.random() < 0.5 else [], "span": (a, b)})
            g["transcripts"] = txs
            genes.append(g)
        chroms[n] = genes
    shared = None
    if inferred and len(annotated) >= 2 and rng.random() < 0.5:
        a, b = rng.sample(annotated, 2)
        ga, gb = rng.choice(chroms[a]), rng.choice(chroms[b])
        shared = "SHARED"
        ga["gid"] = gb["gid"] = shared
        gb["strand"] = ga["strand"]
    fasta = []
    for n in names:
        if (n in annotated and rng.random() < 0.8) or (n not in annotated and rng.random() < 0.5):
            ln = max([g["end"] for g in chroms.get(n, [])] + [200]) + rng.randint(50, 300)
            fasta.append((n, ln))
    if not fasta:
        n = annotated[0]
        fasta.append((n, max(g["end"] for g in chroms[n]) + 100))
    rng.shuffle(fasta)
    novel = {}
    for n, ln in fasta:
        ms = []
        for k in range(rng.randint(0, 2)):
            ex = c03gen.sd_exons(rng, maxc=max(2, ln - 700))
            if chroms.get(n) and rng.random() < 0.5:
                g = rng.choice(chroms[n])
                if g["gid"] == shared:
                    continue
                gid, strand = g["gid"], g["strand"]
            else:
                gid, strand = "novel_gene_%s_%d" % (n, k), rng.choice("+-.")
            ms.append({"tid": "transcript%d.%s.nnic" % (k, n), "gid": gid, "strand": strand, "exons": ex})
        novel[n] = ms
    return {"fasta": fasta, "chroms": chroms, "novel": novel, "inferred": inferred, "shared": shared}


def run_annotation_gtf(ra):
    out = []
    for c, genes in ra["chroms"].items():
        for g in genes:
            if not ra["inferred"]:
                out.append('%s\tsyn\tgene\t%d\t%d\t.\t%s\t.\tgene_id "%s";' % (c, g["start"], g["end"], g["strand"], g["gid"]))
            for t in g["transcripts"]:
                attr = 'gene_id "%s"; transcript_id "%s";' % (g["gid"], t["tid"])
                if not ra["inferred"]:
                    out.append('%s\tsyn\ttranscript\t%d\t%d\t.\t%s\t.\t%s' % (c, t["span"][0], t["span"][1], g["strand"], attr))
                for a, b in t["exons"]:
                    out.append('%s\tsyn\texon\t%d\t%d\t.\t%s\t.\t%s' % (c, a, b, g["strand"], attr))
                for a, b in t["cds"]:
                    out.append('%s\tsyn\tCDS\t%d\t%d\t.\t%s\t0\t%s' % (c, a, b, g["strand"], attr))
    return "\n".join(out) + "\n"


def exon_line_gff3(case, strand="+"):
    """GFF3 text of an `exon_line_case` whose transcript ids sit on one sequence each (gene / mRNA records with ID, exon
    records with Parent only) + 1-based line number of every exon line; None when a transcript id is used on two sequences"""
    where_tid = {}
    for (seq, tid, a, b) in case["lines"]:
        if where_tid.setdefault(tid, seq) != seq:
            return None, None
    out = ["##gff-version 3"]
    where = []
    seen = set()
    for (seq, tid, a, b) in case["lines"]:
        if tid not in seen:
            seen.add(tid)
            mine = [(x, y) for (s, t, x, y) in case["lines"] if t == tid]
            lo, hi = min(x for x, _ in mine), max(y for _, y in mine)
            out.append('c%d\tsyn\tgene\t%d\t%d\t.\t%s\t.\tID=G%d_%d;gene_id=G%d_%d' % (seq, lo, hi, strand, seq, tid, seq, tid))
            out.append('c%d\tsyn\tmRNA\t%d\t%d\t.\t%s\t.\tID=T%d;Parent=G%d_%d;transcript_id=T%d;gene_id=G%d_%d'
                       % (seq, lo, hi, strand, tid, seq, tid, tid, seq, tid))
        out.append('c%d\tsyn\texon\t%d\t%d\t.\t%s\t.\tParent=T%d' % (seq, a, b, strand, tid))
        where.append(len(out))
    return "\n".join(out) + "\n", where
