"""C11 generators: the two coordinate transformations (Python side), gene/read generators for the in-process
assigner-level metamorphic check and dataset transformers for the pipeline-level one."""
import re

from gen import synth

# ---------------------------------------------------------------------------------------------------
# transformations (must agree with lean/IsoVerif/Model/C11Symmetry.lean; checked through the driver each run)


def shift_iv(k, r):
    return (r[0] + k, r[1] + k)


def shift_l(k, l):
    return [shift_iv(k, r) for r in l]


def shift_pos(k, p):
    return -1 if p == -1 else p + k


def mirror_p(L, p):
    return L + 1 - p


def mirror_iv(L, r):
    return (L + 1 - r[1], L + 1 - r[0])


def mirror_l(L, l):
    return [mirror_iv(L, r) for r in reversed(l)]


def mirror_pos(L, p):
    return -1 if p == -1 else L + 1 - p


_SW = {"left": "right", "right": "left"}


def swap_lr(name):
    return re.sub(r"left|right", lambda m: _SW[m.group(0)], name)


def end_tie(a, b, d):
    """Props/C11.lean `EndTie`: a shares exactly one end with b, lies inside it and is shorter than d"""
    return ((a[0] == b[0] and a[1] < b[1]) or (a[1] == b[1] and b[0] < a[0])) and a[1] - a[0] + 1 < d


# ---------------------------------------------------------------------------------------------------
# gene models and reads for the in-process assigner check

def rand_gene(rng, strand=None):
    """-> list of (transcript_id, gene_id, strand, exons): a multi-isoform gene with skipped exons, alternative
    sites, truncated and extended ends; exons >= 30 bp, introns >= 80 bp (far above every tolerance's tie zone)"""
    n = rng.randint(2, 8)
    pos = rng.choice([1000, 1500, 5000])
    exons = []
    for _ in range(n):
        ln = rng.choice([30, 60, 120, 200, 400])
        exons.append((pos, pos + ln - 1))
        pos += ln + rng.choice([80, 150, 400, 1000])
    strand = strand or rng.choice("+-")
    models = [("T0", "G", strand, exons)]
    for t in range(rng.randint(1, 4)):
        e = list(exons)
        for _ in range(rng.randint(1, 3)):
            r = rng.random()
            if r < 0.3 and len(e) > 2:
                del e[rng.randint(1, len(e) - 2)]
            elif r < 0.5 and len(e) > 2:
                e = e[rng.randint(0, 1):len(e) - rng.randint(0, 2)] or e
            elif r < 0.7:
                i = rng.randint(0, len(e) - 1)
                a, b = e[i]
                d = rng.choice([-40, -15, -3, 3, 15, 40])
                if i > 0 and rng.random() < 0.5:
                    a = a + d
                elif i < len(e) - 1:
                    b = b + d
                if a + 10 < b and (i == 0 or a > e[i - 1][1] + 20) and (i == len(e) - 1 or b < e[i + 1][0] - 20):
                    e[i] = (a, b)
            else:
                if e[0][0] + 20 < e[0][1]:
                    e[0] = (max(1, e[0][0] + rng.choice([-300, -100, 0, 20])), e[0][1])
                e[-1] = (e[-1][0], e[-1][1] + rng.choice([300, 100, 0]))
        if e and all(a <= b for a, b in e):
            models.append(("T%d" % (t + 1), "G", strand if rng.random() < 0.9 else {"+": "-", "-": "+"}[strand], e))
    seen, out = set(), []
    for m in models:
        key = tuple(m[3])
        if key not in seen:
            seen.add(key)
            out.append(m)
    return out


SHORT_TERMINAL = [1, 2, 3, 4, 5, 6, 9]


def rand_read(rng, models, noise=True):
    """-> (exon blocks, polya_info 4-tuple) of a read derived from one isoform (truncation; with `noise`: skipped
    exon, shifted site, extended ends), or None.  Terminal blocks are >= 12 bp, or (one read in four) a terminal block
    keeps only 1..9 bases next to its splice site."""
    tid, gid, strand, ex = rng.choice(models)
    ex = list(ex)
    if len(ex) > 2 and rng.random() < 0.5:
        i = rng.randint(0, 1)
        j = len(ex) - rng.randint(0, 1)
        ex = ex[i:j] or ex
    if noise and len(ex) > 2 and rng.random() < 0.3:
        del ex[rng.randint(1, len(ex) - 2)]
    if noise and rng.random() < 0.3:
        i = rng.randint(0, len(ex) - 1)
        a, b = ex[i]
        d = rng.choice([-60, -30, -10, -7, -6, -3, 3, 6, 7, 10, 30, 60])
        if rng.random() < 0.5:
            a += d
        else:
            b += d
        if a + 10 < b and (i == 0 or a > ex[i - 1][1] + 1) and (i == len(ex) - 1 or b < ex[i + 1][0] - 1):
            ex[i] = (a, b)
    # offsets at and next to the tolerances (delta 6, minor extension / apa_delta 50, major extension 300): the
    # code is supposed to treat both ends alike there, so a one-sided `<` / `<=` slip shows up
    dl = rng.choice([-301, -300, -200, -60, -51, -50, -20, -7, -6, 0, 6, 7, 10, 15] if noise else [0, 3, 6, 10, 15])
    dr = rng.choice([301, 300, 200, 60, 51, 50, 20, 7, 6, 0, -6, -7, -10, -15] if noise else [0, -3, -6, -10, -15])
    # a read truncated inside a terminal exon keeps only a few bases of it (noise-free: a 3' / 5' truncated molecule);
    # blocks shorter than minimal_exon_overlap (5) that end at the splice site are the `EndTie` class of the pre-fix
    # overlaps_at_least_when_overlap (audit2-C G7)
    short = rng.choice(["", "", "", "", "", "", "first", "last"]) if len(ex) > 1 else ""
    if short == "first":
        ex[0] = (ex[0][1] - rng.choice(SHORT_TERMINAL) + 1, ex[0][1])
        ex[-1] = (ex[-1][0], ex[-1][1] + dr)
    elif short == "last":
        ex[0] = (ex[0][0] + dl, ex[0][1])
        ex[-1] = (ex[-1][0], ex[-1][0] + rng.choice(SHORT_TERMINAL) - 1)
    else:
        ex[0] = (ex[0][0] + dl, ex[0][1])
        ex[-1] = (ex[-1][0], ex[-1][1] + dr)
    if (short != "first" and ex[0][0] + 11 > ex[0][1]) or (short != "last" and ex[-1][0] + 11 > ex[-1][1]) or ex[0][0] < 1:
        return None
    # polyA info as the finder would report it: position of the last aligned base (polyA) / of the base before the
    # first aligned one (polyT); here given directly, so both are plain positions
    pa = pt = ipa = ipt = -1
    r = rng.random()
    if r < 0.3:
        pa = ex[-1][1]
    elif r < 0.5:
        pt = ex[0][0]
    elif r < 0.6:
        ipa = ex[-1][1] - rng.randint(0, 20)
    elif r < 0.7:
        ipt = ex[0][0] + rng.randint(0, 20)
    elif r < 0.75:
        pa = ex[-1][1] + rng.choice([50, 51, 49, 6, 7])
    elif r < 0.8:
        pt = ex[0][0] - rng.choice([50, 51, 49, 6, 7])
    if short == "last":          # the truncated end carries no tail
        pa = ipa = -1
    elif short == "first":
        pt = ipt = -1
    return ex, (pa, pt, ipa, ipt)


def shift_models(k, models):
    return [(t, g, s, shift_l(k, ex)) for t, g, s, ex in models]


def mirror_models(L, models):
    fl = {"+": "-", "-": "+", ".": "."}
    return [(t, g, fl[s], mirror_l(L, ex)) for t, g, s, ex in models]


def shift_polya(k, pi):
    return tuple(shift_pos(k, p) for p in pi)


def mirror_polya(L, pi):
    """(external_polya, external_polyt, internal_polya, internal_polyt) under reflection: A and T swap"""
    pa, pt, ipa, ipt = pi
    return (mirror_pos(L, pt), mirror_pos(L, pa), mirror_pos(L, ipt), mirror_pos(L, ipa))


# ---------------------------------------------------------------------------------------------------
# pipeline datasets

def cigar_ops(cigar):
    return [(int(n), op) for n, op in re.findall(r"(\d+)([MIDNSHP=X])", cigar)]


def ref_len(cigar):
    return sum(n for n, op in cigar_ops(cigar) if op in "MDN=X")


def copy_dataset(ds):
    new = synth.Dataset(1)
    new.chroms = dict(ds.chroms)
    new.genes = [dict(g, transcripts=[(t, list(ex)) for t, ex in g["transcripts"]]) for g in ds.genes]
    new.reads = [dict(r, seq=ds._seq_for(r)) for r in ds.reads]
    return new


def shifted_dataset(ds, k, rng):
    """k random bases inserted at the start of every chromosome; annotation and alignments shifted by k"""
    new = copy_dataset(ds)
    for c in new.chroms:
        new.chroms[c] = "".join(rng.choice("ACGT") for _ in range(k)) + new.chroms[c]
    for g in new.genes:
        g["transcripts"] = [(t, shift_l(k, ex)) for t, ex in g["transcripts"]]
    for r in new.reads:
        if not r["flag"] & 4:
            r["start0"] += k
    return new


def mirrored_dataset(ds):
    """reverse-complemented genome, mirrored annotation (strands flipped) and alignments (CIGAR reversed,
    sequence reverse-complemented so that a soft-clipped polyA tail becomes a polyT head, strand bit toggled)"""
    new = copy_dataset(ds)
    fl = {"+": "-", "-": "+", ".": "."}
    for c in new.chroms:
        new.chroms[c] = synth.revcomp(new.chroms[c])
    for g in new.genes:
        L = len(ds.chroms[g["chr"]])
        g["strand"] = fl[g["strand"]]
        g["transcripts"] = [(t, mirror_l(L, ex)) for t, ex in g["transcripts"]]
    for r in new.reads:
        if r["flag"] & 4:
            continue
        L = len(ds.chroms[r["chr"]])
        end0 = r["start0"] + ref_len(r["cigar"])      # 0-based exclusive end
        r["start0"] = L - end0
        r["cigar"] = "".join("%d%s" % (n, op) for n, op in reversed(cigar_ops(r["cigar"])))
        r["seq"] = synth.revcomp(r["seq"])
        r["flag"] ^= 16
    return new


def _put(ds, chrom, pos, text):
    """write `text` so that its first base is at 1-based position pos"""
    seq = ds.chroms[chrom]
    ds.chroms[chrom] = seq[:pos - 1] + text + seq[pos - 1 + len(text):]


MINOR_SITES = {"+": {"at_ac": ("AT", "AC"), "gc_ag": ("GC", "AG"), "gt_ag": ("GT", "AG")},
               "-": {"at_ac": ("GT", "AT"), "gc_ag": ("CT", "GC"), "gt_ag": ("CT", "AC")}}


def add_special_loci(ds, rng, chrom="chrS", length=40000, clusters=True):
    """an un-annotated chromosome with loci whose strand / ends can only come from the sequence and the read ends:
      * three-exon genes whose introns are all of one splice-site type (AT-AC, GC-AG, GT-AG) on either strand, reads
        without tails: the strand of the reads and of the discovered model comes from the canonical-site tables only;
      * three-exon genes with TWO polyA (polyT) site clusters 90 bp apart on the terminal intron and a tailed read ending
        between them (within the polyA tolerance of both): the site it is threaded to must not depend on k."""
    ds.chroms[chrom] = "".join(rng.choice("ACGT") for _ in range(length))
    pos = 1500
    n = 0
    for strand in "+-":
        for kind in ("at_ac", "gc_ag", "gt_ag"):
            ex = [(pos, pos + 299), (pos + 1000, pos + 1199), (pos + 2000, pos + 2399)]
            l, r = MINOR_SITES[strand][kind]
            for a, b in ((ex[0][1] + 1, ex[1][0] - 1), (ex[1][1] + 1, ex[2][0] - 1)):
                _put(ds, chrom, a, l)
                _put(ds, chrom, b - 1, r)
            for e in (ex[0][0], ex[-1][1]):
                _put(ds, chrom, e - 2, "GCGCG")
            for i in range(7):
                ds.read_from_exons("u_%s_%s_%d" % (kind, "f" if strand == "+" else "r", i), chrom, ex,
                                   flag=0 if strand == "+" else 16)
            pos += 3400
            n += 1
    for strand in ("+-" if clusters else ""):
        x = 400
        base = [(pos, pos + 299 + (0 if strand == "+" else 0)), (pos + 1000, pos + 1199), (pos + 2000, pos + 2000 + x)]
        introns = ((base[0][1] + 1, base[1][0] - 1), (base[1][1] + 1, base[2][0] - 1))
        for a, b in introns:
            l, r = MINOR_SITES[strand]["gt_ag"]
            _put(ds, chrom, a, l)
            _put(ds, chrom, b - 1, r)
        if strand == "+":
            variants = [(0, 6, "proximal"), (90, 2, "distal"), (45, 1, "between")]
            for d, cnt, nm in variants:
                ex = [base[0], base[1], (base[2][0], base[2][1] + d)]
                _put(ds, chrom, ex[-1][1] - 2, "GCGCG")
                _put(ds, chrom, ex[0][0] - 2, "GCGCG")
                for i in range(cnt):
                    ds.read_from_exons("pa_%s_%d" % (nm, i), chrom, ex, polya=30)
        else:
            # mirror arrangement: the variable end is the left one (polyT heads)
            ex0 = [(pos + 100, pos + 399), (pos + 1000, pos + 1199), (pos + 2000, pos + 2399)]
            intr = ((ex0[0][1] + 1, ex0[1][0] - 1), (ex0[1][1] + 1, ex0[2][0] - 1))
            for a, b in intr:
                l, r = MINOR_SITES["-"]["gt_ag"]
                _put(ds, chrom, a, l)
                _put(ds, chrom, b - 1, r)
            for d, cnt, nm in [(0, 6, "proximal"), (90, 2, "distal"), (45, 1, "between")]:
                ex = [(ex0[0][0] - d, ex0[0][1]), ex0[1], ex0[2]]
                _put(ds, chrom, ex[0][0] - 2, "GCGCG")
                _put(ds, chrom, ex[-1][1] - 2, "GCGCG")
                for i in range(cnt):
                    ds.read_from_exons("pt_%s_%d" % (nm, i), chrom, ex, flag=16, polyt=30)
        pos += 3600
    # unspliced reads in un-annotated sequence (intergenic: never uniquely assigned), one per tail combination: the strand
    # comes from `get_assignment_strand`'s tail test alone -- polyA only '+', polyT only '-', BOTH tails '.', none '.';
    # under reflection a polyA tail becomes a polyT head, so the both-tails read must stay '.' in both orientations
    for i, (pa, pt, nm) in enumerate([(30, 30, "both"), (30, 0, "polya"), (0, 30, "polyt"), (0, 0, "none")]):
        a = pos + 1400 * i
        if a + 500 + 100 >= length:
            break
        ex = [(a, a + 399 + 7 * i)]
        _put(ds, chrom, ex[0][0] - 2, "GCGCG")
        _put(ds, chrom, ex[0][1] - 2, "GCGCG")
        ds.read_from_exons("mono_%s" % nm, chrom, ex, flag=0, polya=pa, polyt=pt)
    return ds


def add_end_tie_locus(ds, chrom="chrE", length=9000):
    """an annotated chromosome with one '+' gene whose two isoforms differ by 4 bp at one acceptor site (within delta), and
    NOISE-FREE reads of the second isoform truncated inside a terminal exon so that the terminal block keeps only 2 / 4
    bases next to its splice site: `last_short_*` (3' truncated) and `first_short_*` (5' truncated).  The split-exon
    profile is what tells the isoforms apart; the short block lies inside a split exon and shares exactly one end with
    it -- the class on which overlaps_at_least_when_overlap was not mirror-symmetric (audit2-C G7: `last_short` unique,
    its mirror image ambiguous; transcript_counts 3.00 vs 0.00)."""
    ds.chroms[chrom] = "".join(ds.rng.choice("ACGT") for _ in range(length))
    t0 = [(1003, 1220), (2121, 2305), (3002, 3225)]
    t1 = [(1003, 1220), (2125, 2305), (3002, 3225)]
    ds.add_gene(chrom, "GE", "+", [("E_t0", t0), ("E_t1", t1)])
    for n in (2, 4):
        for i in range(3):
            ds.read_from_exons("last_short_%d_%d" % (n, i), chrom, [t1[0], t1[1], (t1[2][0], t1[2][0] + n - 1)])
            ds.read_from_exons("first_short_%d_%d" % (n, i), chrom, [(t1[0][1] - n + 1, t1[0][1]), t1[1], t1[2]])
    return ds


def mono_antisense_dataset(seed=3, n_plus=3, n_minus=9):
    """audit2-C G2: two overlapping UN-annotated mono-exonic transcripts on opposite strands, noise-free tailed reads:
    `n_plus` '+' reads 5000-5600 (polyA tail) and `n_minus` '-' reads 5100-5750 (polyT head); with
    --report_novel_unspliced true the better supported one must be reported in both orientations (pre-fix: the polyA
    one, whatever the support).  A spliced annotated gene elsewhere keeps the annotation non-empty."""
    ds = synth.Dataset(seed)
    ds.add_chrom("chr1", 20000)
    for i in range(n_plus):
        ds.read_from_exons("plus_%d" % i, "chr1", [(5000, 5600)], flag=0, polya=30)
    for i in range(n_minus):
        ds.read_from_exons("minus_%d" % i, "chr1", [(5100, 5750)], flag=16, polyt=30)
    for p in (5598, 5097):            # clean tails: non-A/T flanks
        _put(ds, "chr1", p, "GCGCG")
    ds.add_gene("chr1", "G1", "+", [("T1", [(12000, 12300), (13000, 13300)])])
    for i in range(3):
        ds.read_from_exons("g_%d" % i, "chr1", [(12000, 12300), (13000, 13300)], polya=20)
    return ds


def toy_dataset(repo, max_reads=None):
    """the repo's own toy data (tests/simple_data: real simulated ONT alignments of a 4-Mb piece of mouse chr9 -- noisy
    CIGARs with I / D / S, A-rich read ends, cut read clusters) as a synth.Dataset: the GTF reduced to its
    gene / transcript / exon records, BAM tags dropped, the sequence upper-cased"""
    import gzip
    import os
    import pysam
    toy = os.path.join(repo, "tests", "simple_data")
    ds = synth.Dataset(1)
    name, buf = None, []
    with gzip.open(os.path.join(toy, "chr9.4M.fa.gz"), "rt") as f:
        for l in f:
            if l.startswith(">"):
                name = l[1:].split()[0]
            else:
                buf.append(l.strip().upper())
    ds.chroms[name] = "".join(buf)
    genes = {}
    with gzip.open(os.path.join(toy, "chr9.4M.gtf.gz"), "rt") as f:
        for l in f:
            if l.startswith("#"):
                continue
            p = l.rstrip("\n").split("\t")
            if p[2] != "exon":
                continue
            gid = re.search(r'gene_id "([^"]*)"', p[8]).group(1)
            tid = re.search(r'transcript_id "([^"]*)"', p[8]).group(1)
            g = genes.setdefault(gid, {"chr": p[0], "gene_id": gid, "strand": p[6], "tx": {}})
            g["tx"].setdefault(tid, []).append((int(p[3]), int(p[4])))
    for g in genes.values():
        ds.genes.append({"chr": g["chr"], "gene_id": g["gene_id"], "strand": g["strand"],
                         "transcripts": [(t, sorted(e)) for t, e in g["tx"].items()]})
    n = 0
    with pysam.AlignmentFile(os.path.join(toy, "chr9.4M.ont.sim.polya.bam")) as bam:
        for a in bam.fetch(until_eof=True):
            if a.is_unmapped or a.reference_name not in ds.chroms:
                continue
            if max_reads is not None and n >= max_reads:
                break
            n += 1
            ds.add_read(a.query_name, a.reference_name, a.reference_start, a.cigarstring, a.flag, a.mapping_quality, None,
                        a.query_sequence)
    return ds


def mono_both_tails_dataset(seed=3, n=6):
    """follow-up of 7594462: `n` unspliced un-annotated reads 5000..5600 that carry BOTH a polyT head and a polyA tail (no
    strand: get_assignment_strand reports '.'); with --report_novel_unspliced true no read may end up in two models"""
    ds = synth.Dataset(seed)
    ds.add_chrom("chr1", 20000)
    ds.add_gene("chr1", "G1", "+", [("T1", [(15000, 15300), (16000, 16300)])])
    for k in range(4):
        ds.read_from_exons("g%d" % k, "chr1", [(15000, 15300), (16000, 16300)], polya=25)
    for k in range(n):
        ds.read_from_exons("b%d" % k, "chr1", [(5000 + k, 5600)], polya=25, polyt=25)
    for p in (5598, 4997):
        _put(ds, "chr1", p, "GCGCG")
    return ds


def metamorphic_dataset(seed, n_chroms=2, genes_per_chrom=3, reads_per_tx=5, chrom_len=46000, novel=True, special=True):
    """noise-free reads of annotated isoforms (truncated ends, polyA/T tails) plus, with `novel`, reads of an
    unannotated exon-skipping isoform of some genes (enough copies to be reported as a novel model)"""
    ds = synth.simple_dataset(seed=seed, n_chroms=n_chroms, genes_per_chrom=genes_per_chrom, reads_per_tx=reads_per_tx,
                              chrom_len=chrom_len)
    assert all(ex[-1][1] + 100 < len(ds.chroms[g["chr"]]) for g in ds.genes for _, ex in g["transcripts"]), "gene beyond chromosome end"
    if novel:
        rng = ds.rng
        for g in list(ds.genes):
            tid, ex = g["transcripts"][0]
            if len(ex) >= 4 and rng.random() < 0.7:
                # skip two internal exons at once: not annotated (the annotated variant skips one)
                nov = [ex[0]] + ex[3:] if len(ex) >= 5 else None
                if not nov or any(nov == e2 for _, e2 in g["transcripts"]):
                    continue
                ds.plant_sites(g["chr"], [(nov[0][1] + 1, nov[1][0] - 1)], g["strand"])
                # the ends of a discovered model are the most frequent read ends, ties broken by coordinate order
                # (outside the quantifier): five reads share their ends, one differs, so the mode is unique
                da, db = rng.randint(0, 30), rng.randint(0, 30)
                for k in range(6):
                    e = list(nov)
                    e[0] = (e[0][0] + (da if k else da + 7), e[0][1])
                    e[-1] = (e[-1][0], e[-1][1] - (db if k else db + 5))
                    ds.read_from_exons("n_%s_%d" % (tid, k), g["chr"], e,
                                       polya=20 if g["strand"] == "+" else 0, polyt=20 if g["strand"] == "-" else 0)
        # a second unannotated isoform WITHOUT tails (its ends come from read starts / ends, not from polyA sites),
        # plus copies that begin / end just inside one of its internal exons
        for g in list(ds.genes):
            tid, ex = g["transcripts"][0]
            if len(ex) < 5:
                continue
            nov = ex[:len(ex) - 3] + [ex[-1]]
            if any(nov == e2 for _, e2 in g["transcripts"]):
                continue
            ds.plant_sites(g["chr"], [(nov[-2][1] + 1, nov[-1][0] - 1)], g["strand"])
            da, db = rng.randint(0, 30), rng.randint(0, 30)
            for k in range(7):
                e = list(nov)
                e[0] = (e[0][0] + (da if k else da + 9), e[0][1])
                e[-1] = (e[-1][0], e[-1][1] - (db if k else db + 4))
                ds.read_from_exons("m_%s_%d" % (tid, k), g["chr"], e)
            if len(nov) >= 3:
                d1 = rng.choice([0, 2, 5])
                for k in range(4):
                    e = list(nov[1:])
                    e[0] = (e[0][0] + d1, e[0][1])
                    e[-1] = (e[-1][0], e[-1][1] - db)
                    ds.read_from_exons("ms_%s_%d" % (tid, k), g["chr"], e)
                    e = list(nov[:-1])
                    e[0] = (e[0][0] + da, e[0][1])
                    e[-1] = (e[-1][0], e[-1][1] - d1)
                    ds.read_from_exons("me_%s_%d" % (tid, k), g["chr"], e)
        # reads that begin / end just inside an internal exon, without a tail (both ends, both strands alike): they
        # exercise the start / end threading of the model construction (is_start_internal / is_end_internal,
        # thread_starts / thread_ends), which decides whether such positions become transcript ends
        for g in list(ds.genes):
            tid, ex = g["transcripts"][0]
            if len(ex) < 4:
                continue
            j = rng.randint(1, len(ex) - 2)
            d1 = rng.choice([0, 2, 5])
            for k in range(6):
                e = list(ex[j:])
                e[0] = (e[0][0] + d1, e[0][1])
                ds.read_from_exons("s_%s_%d" % (tid, k), g["chr"], e)
                e = list(ex[:j + 1])
                e[-1] = (e[-1][0], e[-1][1] - d1)
                ds.read_from_exons("e_%s_%d" % (tid, k), g["chr"], e)
    if special:
        add_special_loci(ds, ds.rng, clusters=(special != "no_clusters"))
        add_end_tie_locus(ds)
    return ds
