"""Synthetic multi-chromosome datasets with multi-mapped reads (C08).

Every multi-mapped read owns its loci: each locus is a private two-isoform gene (Ta = E1-E2-E3, Tb = E1-E3) that gets
one clean full-length read per isoform (so the isoform is "confirmed" and its count is printed) and nothing else.
What a multi-mapped read adds to an isoform is then `count - 1`, read straight off the count table.

A read = list of alignments (locus, kind, secondary flag); `kind` decides the exon structure relative to the locus:
  fsm_a, fsm_b      full splice match of Ta / Tb
  ism_a             first two exons of Ta (consistent, unique to Ta)
  mono              inside E1 (consistent with both isoforms: ambiguous)
  alt               Ta with the second exon starting 60 bp late (inconsistent)
  skip_novel        E1 - novel exon - E3 (inconsistent)
  intron            inside the first intron (uninformative)
  inter             behind the gene (intergenic)
  inter3            three blocks behind the gene (a spliced alignment in an unannotated region: intergenic)
A read may come in several copies (`add_read(..., copies=6, polya=20)`): reads "<name>.<k>" with the same alignments and a
polyA tail on every alignment, so that the model-construction thresholds are met and transcript models are BUILT from the
multi-mapped reads (audit-2 GAP C08-1: without that nothing downstream of the multimapper flag was observable).  The
introns only such reads have (`alt`, `skip_novel`, `inter3`) are made canonical in the reference.
The classification is whatever the assigner says: the oracle reads it from a second run in which every alignment
record is its own, primary, single-record read.
"""
import random

from gen.synth import Dataset

LOCUS_LEN = 6000
KINDS = ["fsm_a", "fsm_b", "ism_a", "mono", "alt", "skip_novel", "intron", "inter", "inter3"]


def locus_exons(p):
    return [(p + 1, p + 300), (p + 1001, p + 1300), (p + 2001, p + 2300)]


def kind_exons(kind, p, jitter=0):
    e1, e2, e3 = locus_exons(p)
    j = jitter
    if kind == "fsm_a":
        return [(e1[0] + 50 + j, e1[1]), e2, (e3[0], e3[1] - 50)]
    if kind == "fsm_b":
        return [(e1[0] + 50 + j, e1[1]), (e3[0], e3[1] - 50)]
    if kind == "ism_a":
        return [(e1[0] + 50 + j, e1[1]), (e2[0], e2[1] - 20)]
    if kind == "mono":
        return [(e1[0] + 30 + j, e1[1] - 30)]
    if kind == "alt":
        return [(e1[0] + 50 + j, e1[1]), (e2[0] + 60, e2[1]), (e3[0], e3[1] - 50)]
    if kind == "skip_novel":
        return [(e1[0] + 50 + j, e1[1]), (p + 1501, p + 1600), (e3[0], e3[1] - 50)]
    if kind == "intron":
        return [(p + 401 + j, p + 700)]
    if kind == "inter":
        return [(p + 3501 + j, p + 3900)]
    if kind == "inter3":
        return [(p + 3401 + j, p + 3600), (p + 3801, p + 4000), (p + 4201, p + 4400)]
    raise ValueError(kind)


class MultimapDataset:
    """chroms: list of (name, padding) - a chromosome's length is what its loci need plus the padding, so the
    padding decides the processing order (IsoQuant processes chromosomes by decreasing length)"""

    def __init__(self, seed, n_chroms=3):
        self.seed = seed
        self.n_chroms = n_chroms
        self.loci = []          # (chrom index, base position, gene id)
        self.reads = []         # (name, [(locus index, kind, secondary, jitter, mapq)]) - one entry per copy
        self.group = {}         # read name -> (name given to add_read, number of copies)
        self.tail = {}          # read name -> length of the polyA tail on each of its alignments
        self.per_chrom = [0] * n_chroms

    def new_locus(self, c):
        p = 1000 + self.per_chrom[c] * LOCUS_LEN
        self.per_chrom[c] += 1
        gid = "G%d_%d" % (c, len(self.loci))
        self.loci.append((c, p, gid))
        return len(self.loci) - 1

    def add_read(self, name, alns, copies=1, polya=0):
        """alns: [(locus index, kind, secondary, jitter[, mapq])]"""
        alns = [tuple(a) + (60,) * (5 - len(a)) for a in alns]
        for k in range(copies):
            nm = name if copies == 1 else "%s.%d" % (name, k)
            self.reads.append((nm, alns))
            self.group[nm] = (name, copies)
            self.tail[nm] = polya

    def build(self, chrom_order=None, paddings=None, split_names=False, drop_multi=False, keep=None):
        """-> gen.synth.Dataset.  chrom_order: order of the chromosomes in the FASTA/BAM header;
        paddings: extra length per chromosome index (decides the processing order);
        split_names: every alignment record becomes its own primary read "<name>~k" (classification run);
        drop_multi: no multi-mapped read at all; keep: {read name: set of alignment indices} - only these records of the
        multi-mapped reads are written, flags as they were (the run WITHOUT the alignments that lost)"""
        ds = Dataset(self.seed)
        order = chrom_order or list(range(self.n_chroms))
        paddings = paddings or [0] * self.n_chroms
        for c in order:
            # the sequence of a chromosome depends on (seed, chromosome) only and a longer one extends the shorter one, so
            # that header order and paddings change nothing under the loci (reads with tails are classified by the
            # bases behind their last block as well)
            r = random.Random("%d:%d" % (self.seed, c))
            n = 2000 + max(1, self.per_chrom[c]) * LOCUS_LEN + paddings[c]
            ds.chroms["chr%d" % (c + 1)] = "".join(r.choice("ACGT") for _ in range(n))
        for li, (c, p, gid) in enumerate(self.loci):
            e1, e2, e3 = locus_exons(p)
            chrom = "chr%d" % (c + 1)
            ds.add_gene(chrom, gid, "+", [(gid + "_Ta", [e1, e2, e3]), (gid + "_Tb", [e1, e3])])
        # the introns only the multi-mapped reads have are canonical too (whatever `keep` says: one reference for all runs)
        for name, alns in self.reads:
            for li, kind, secondary, jitter, mapq in alns:
                if kind in ("alt", "skip_novel", "inter3"):
                    c, p, gid = self.loci[li]
                    ex = kind_exons(kind, p, jitter)
                    ds.plant_sites("chr%d" % (c + 1), [(ex[i][1] + 1, ex[i + 1][0] - 1) for i in range(len(ex) - 1)], "+")
        for li, (c, p, gid) in enumerate(self.loci):
            e1, e2, e3 = locus_exons(p)
            chrom = "chr%d" % (c + 1)
            # one confirming full-length read per isoform
            ds.read_from_exons("conf_a_%d" % li, chrom, [(e1[0] + 10, e1[1]), e2, (e3[0], e3[1] - 10)], polya=20)
            ds.read_from_exons("conf_b_%d" % li, chrom, [(e1[0] + 10, e1[1]), (e3[0], e3[1] - 10)], polya=20)
        if not drop_multi:
            for name, alns in self.reads:
                for k, (li, kind, secondary, jitter, mapq) in enumerate(alns):
                    if keep is not None and k not in keep.get(name, ()):
                        continue
                    c, p, gid = self.loci[li]
                    ex = kind_exons(kind, p, jitter)
                    if split_names:
                        ds.read_from_exons("%s~%d" % (name, k), "chr%d" % (c + 1), ex, flag=0, mapq=mapq, polya=self.tail[name])
                    else:
                        ds.read_from_exons(name, "chr%d" % (c + 1), ex, flag=256 if secondary else 0, mapq=mapq,
                                           polya=self.tail[name])
        return ds

    def alignment_key(self, name, k):
        li, kind, secondary, jitter, mapq = dict(self.reads)[name][k]
        c, p, gid = self.loci[li]
        ex = kind_exons(kind, p, jitter)
        return ("chr%d" % (c + 1), ex[0][0], ex[-1][1])


def random_dataset(rng, seed, n_reads=14, n_chroms=3):
    """patterns: (kind, secondary, locus tag[, mapq]) - alignments of one read with the same tag share a locus (one gene);
    n_reads counts the reads given to add_read (a read with copies is one of them)"""
    md = MultimapDataset(seed, n_chroms)
    patterns = [
        [("fsm_a", 0, "a"), ("fsm_a", 1, "b")],                        # primary unique-consistent wins
        [("alt", 0, "a"), ("fsm_a", 1, "b"), ("fsm_b", 1, "c")],       # inconsistent primary, two consistent secondaries (tie)
        [("alt", 0, "a"), ("skip_novel", 1, "b")],                     # primary inconsistent vs secondary inconsistent
        [("alt", 1, "a"), ("skip_novel", 1, "b"), ("intron", 0, "c")], # uninformative primary, inconsistent secondaries
        [("intron", 0, "a"), ("inter", 1, "b")],                       # uninformative only
        [("inter", 0, "a"), ("inter", 1, "b")],                        # uninformative tie
        [("mono", 0, "a"), ("fsm_a", 1, "b")],                         # ambiguous primary is not "unique": all consistent kept
        [("fsm_a", 1, "a"), ("fsm_a", 1, "b"), ("alt", 0, "c")],       # two consistent secondaries
        [("fsm_a", 0, "a"), ("fsm_a", 0, "a")],                        # exact duplicate record
        [("ism_a", 1, "a"), ("fsm_b", 1, "b"), ("mono", 1, "c"), ("intron", 0, "d")],
        # ties between two isoforms of ONE gene (the isoform lists differ, the gene lists do not)
        [("alt", 0, "a"), ("fsm_a", 1, "b"), ("fsm_b", 1, "b")],
        [("mono", 0, "a"), ("fsm_a", 1, "a")],
        [("intron", 0, "a"), ("ism_a", 1, "b"), ("fsm_b", 1, "b")],
    ]
    # audit-2 GAP C08-1: ONE retained record that names two isoforms at its own locus (the read of a novel isoform) + an
    # alignment that loses; six copies with tails, so that a transcript model is built from them when nothing interferes
    built = [
        [("alt", 0, "a"), ("inter3", 1, "b", 0)],                      # the loser is a spliced intergenic secondary, MAPQ 0
        [("alt", 0, "a"), ("intron", 1, "b")],                         # the loser is uninformative inside another gene
        [("skip_novel", 0, "a"), ("inter", 1, "b", 0)],
        [("alt", 0, "a"), ("fsm_a", 1, "b"), ("fsm_b", 1, "c")],       # a real tie, in copies: flagged, builds nothing
        [("fsm_a", 0, "a"), ("alt", 1, "b")],                          # primary unique wins, the secondary would build a model
    ]
    for i in range(n_reads):
        copies, polya = 1, 0
        if i < len(patterns):
            pat = patterns[i]
        elif i < len(patterns) + len(built):
            pat = built[i - len(patterns)]
            copies, polya = 6, 20
        else:
            tags = "abcd"
            pat = []
            for k in range(rng.randint(2, 4)):
                tag = tags[k] if (k == 0 or rng.random() > 0.3) else rng.choice(tags[:k])
                sec = int(rng.random() < 0.7)
                pat.append((rng.choice(KINDS), sec, tag, 0 if sec and rng.random() < 0.3 else 60))
            if all(x[1] for x in pat):
                pat[0] = (pat[0][0], 0, pat[0][2], 60)
            copies = rng.choice([1, 5, 6])
            polya = 20 if copies > 1 or rng.random() < 0.5 else 0
        alns = []
        by_tag = {}
        for x in pat:
            kind, sec, tag = x[:3]
            if tag not in by_tag:
                by_tag[tag] = md.new_locus(rng.randrange(n_chroms))
                jit = 0
            else:
                jit = 0 if i < len(patterns) + len(built) else rng.choice([0, 7])
            alns.append((by_tag[tag], kind, bool(sec), jit, x[3] if len(x) > 3 else 60))
        md.add_read("mm%02d" % i, alns, copies=copies, polya=polya)
    md.n_groups = n_reads
    return md
