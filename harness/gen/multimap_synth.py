"""Synthetic multi-chromosome datasets with multi-mapped reads (C08).

Every multi-mapped read owns its loci: each locus is a private two-isoform gene (Ta = E1-E2-E3, Tb = E1-E3) that gets
one clean full-length read per isoform (so the isoform is "confirmed" and its count is printed) and nothing else.
What a multi-mapped read adds to an isoform is then `count - 1`, read straight off the count table.

A read = list of alignments (locus, kind, secondary flag); `kind` decides the exon structure relative to the locus:
  fsm_a, fsm_b      full splice match of Ta / Tb
  ism_a             first two exons of Ta (consistent, unique to Ta)
  mono              inside E1 (consistent with both isoforms: ambiguous)
  alt               Ta with the second exon starting 60 bp late (inconsistent)
  skip_novel        E1 - novel exon - E3 (inconsistent)
  intron            inside the first intron (uninformative)
  inter             behind the gene (intergenic)
The classification is whatever the assigner says: the oracle reads it from a second run in which every alignment
record is its own, primary, single-record read.
"""
from gen.synth import Dataset

LOCUS_LEN = 6000
KINDS = ["fsm_a", "fsm_b", "ism_a", "mono", "alt", "skip_novel", "intron", "inter"]


def locus_exons(p):
    return [(p + 1, p + 300), (p + 1001, p + 1300), (p + 2001, p + 2300)]


def kind_exons(kind, p, jitter=0):
    e1, e2, e3 = locus_exons(p)
    j = jitter
    if kind == "fsm_a":
        return [(e1[0] + 50 + j, e1[1]), e2, (e3[0], e3[1] - 50)]
    if kind == "fsm_b":
        return [(e1[0] + 50 + j, e1[1]), (e3[0], e3[1] - 50)]
    if kind == "ism_a":
        return [(e1[0] + 50 + j, e1[1]), (e2[0], e2[1] - 20)]
    if kind == "mono":
        return [(e1[0] + 30 + j, e1[1] - 30)]
    if kind == "alt":
        return [(e1[0] + 50 + j, e1[1]), (e2[0] + 60, e2[1]), (e3[0], e3[1] - 50)]
    if kind == "skip_novel":
        return [(e1[0] + 50 + j, e1[1]), (p + 1501, p + 1600), (e3[0], e3[1] - 50)]
    if kind == "intron":
        return [(p + 401 + j, p + 700)]
    if kind == "inter":
        return [(p + 3501 + j, p + 3900)]
    raise ValueError(kind)


class MultimapDataset:
    """chroms: list of (name, padding) - a chromosome's length is what its loci need plus the padding, so the
    padding decides the processing order (IsoQuant processes chromosomes by decreasing length)"""

    def __init__(self, seed, n_chroms=3):
        self.seed = seed
        self.n_chroms = n_chroms
        self.loci = []          # (chrom index, base position, gene id)
        self.reads = []         # (name, [(locus index, kind, secondary, jitter)])
        self.per_chrom = [0] * n_chroms

    def new_locus(self, c):
        p = 1000 + self.per_chrom[c] * LOCUS_LEN
        self.per_chrom[c] += 1
        gid = "G%d_%d" % (c, len(self.loci))
        self.loci.append((c, p, gid))
        return len(self.loci) - 1

    def add_read(self, name, alns):
        self.reads.append((name, alns))

    def build(self, chrom_order=None, paddings=None, split_names=False, drop_multi=False):
        """-> gen.synth.Dataset.  chrom_order: order of the chromosomes in the FASTA/BAM header;
        paddings: extra length per chromosome index (decides the processing order);
        split_names: every alignment record becomes its own primary read "<name>~k" (classification run)"""
        ds = Dataset(self.seed)
        order = chrom_order or list(range(self.n_chroms))
        paddings = paddings or [0] * self.n_chroms
        for c in order:
            ds.add_chrom("chr%d" % (c + 1), 2000 + max(1, self.per_chrom[c]) * LOCUS_LEN + paddings[c])
        for li, (c, p, gid) in enumerate(self.loci):
            e1, e2, e3 = locus_exons(p)
            chrom = "chr%d" % (c + 1)
            ds.add_gene(chrom, gid, "+", [(gid + "_Ta", [e1, e2, e3]), (gid + "_Tb", [e1, e3])])
            # one confirming full-length read per isoform
            ds.read_from_exons("conf_a_%d" % li, chrom, [(e1[0] + 10, e1[1]), e2, (e3[0], e3[1] - 10)], polya=20)
            ds.read_from_exons("conf_b_%d" % li, chrom, [(e1[0] + 10, e1[1]), (e3[0], e3[1] - 10)], polya=20)
        if not drop_multi:
            for name, alns in self.reads:
                for k, (li, kind, secondary, jitter) in enumerate(alns):
                    c, p, gid = self.loci[li]
                    ex = kind_exons(kind, p, jitter)
                    if split_names:
                        ds.read_from_exons("%s~%d" % (name, k), "chr%d" % (c + 1), ex, flag=0)
                    else:
                        ds.read_from_exons(name, "chr%d" % (c + 1), ex, flag=256 if secondary else 0)
        return ds

    def alignment_key(self, name, k):
        li, kind, secondary, jitter = dict(self.reads)[name][k]
        c, p, gid = self.loci[li]
        ex = kind_exons(kind, p, jitter)
        return ("chr%d" % (c + 1), ex[0][0], ex[-1][1])


def random_dataset(rng, seed, n_reads=14, n_chroms=3):
    """patterns: (kind, secondary, locus tag) - alignments of one read with the same tag share a locus (one gene)"""
    md = MultimapDataset(seed, n_chroms)
    patterns = [
        [("fsm_a", 0, "a"), ("fsm_a", 1, "b")],                        # primary unique-consistent wins
        [("alt", 0, "a"), ("fsm_a", 1, "b"), ("fsm_b", 1, "c")],       # inconsistent primary, two consistent secondaries (tie)
        [("alt", 0, "a"), ("skip_novel", 1, "b")],                     # primary inconsistent vs secondary inconsistent
        [("alt", 1, "a"), ("skip_novel", 1, "b"), ("intron", 0, "c")], # uninformative primary, inconsistent secondaries
        [("intron", 0, "a"), ("inter", 1, "b")],                       # uninformative only
        [("inter", 0, "a"), ("inter", 1, "b")],                        # uninformative tie
        [("mono", 0, "a"), ("fsm_a", 1, "b")],                         # ambiguous primary is not "unique": all consistent kept
        [("fsm_a", 1, "a"), ("fsm_a", 1, "b"), ("alt", 0, "c")],       # two consistent secondaries
        [("fsm_a", 0, "a"), ("fsm_a", 0, "a")],                        # exact duplicate record
        [("ism_a", 1, "a"), ("fsm_b", 1, "b"), ("mono", 1, "c"), ("intron", 0, "d")],
        # ties between two isoforms of ONE gene (the isoform lists differ, the gene lists do not)
        [("alt", 0, "a"), ("fsm_a", 1, "b"), ("fsm_b", 1, "b")],
        [("mono", 0, "a"), ("fsm_a", 1, "a")],
        [("intron", 0, "a"), ("ism_a", 1, "b"), ("fsm_b", 1, "b")],
    ]
    for i in range(n_reads):
        if i < len(patterns):
            pat = patterns[i]
        else:
            tags = "abcd"
            pat = []
            for k in range(rng.randint(2, 4)):
                tag = tags[k] if (k == 0 or rng.random() > 0.3) else rng.choice(tags[:k])
                pat.append((rng.choice(KINDS), int(rng.random() < 0.7), tag))
            if all(sec for _, sec, _ in pat):
                pat[0] = (pat[0][0], 0, pat[0][2])
        alns = []
        by_tag = {}
        for kind, sec, tag in pat:
            if tag not in by_tag:
                by_tag[tag] = md.new_locus(rng.randrange(n_chroms))
                jit = 0
            else:
                jit = 0 if i < len(patterns) else rng.choice([0, 7])
            alns.append((by_tag[tag], kind, bool(sec), jit))
        md.add_read("mm%02d" % i, alns)
    return md
