"""C20 — realises a chosen interleaving of the cache read-modify-write cycles on the REAL load/store functions.

Every "process" is a thread of the harness process that runs the real functions of the repo
(isoquant.set_configs_directory, gtf2db.convert_gtf_to_db, read_mapper.DataSetReadMapper.create_index,
read_mapper.find_annotation, find_stored_alignment/store_alignment).  All threads share one HOME.
The repo modules are monkeypatched *in the harness process only* (nothing is edited in /repo; active only under
ABLAB_ISOQUANT_VERIF=1) so that each access to a config file waits for a step token:

    exists   os.path.exists(<config>)
    openW    open(<config>, 'w')            (the real open truncates)
    write    close() of that handle          (the buffered json text reaches the file here)
    load     open(<config>, 'r')             (read + json.load follow without a further barrier)
    replace  os.replace(<tmp>, <config>)
    lookup   gtf2db.find_converted_db        (for the find_stored_* functions of read_mapper the lookup is inline:
                                              a pseudo event is logged right after the load)
    produce  the conversion / indexing / alignment itself, replaced by a fake that writes the target file, gives it the
             next clock value as mtime and logs what was converted from what.  `index_reference` is NOT replaced (audit2
             C20-G3): the real function runs and finds a stand-in `minimap2` executable on PATH (a shell script that writes
             what it was asked to index into the index file); whether it called the indexer or returned a file it found
             under the index's NAME is what the harness observes.
    start    pseudo step before the first statement of a run (not part of the model trace).  Normally every worker has
             passed it before the schedule begins; the runs listed in `late` pass it when the schedule first names them,
             i.e. they START - set_configs_directory from its first line - while others are in the middle of a cycle
             (seed C20_b2: start-up code outside the modelled steps that touches another run's in-flight temp file)

The controller grants the token along a schedule (list of pids); the recorded trace (pid, label, file) is the
interleaving that actually took place and is what the Lean model is run on.
"""
import builtins
import json
import os
import sys
import threading
import types

CONFIG_NAMES = ["db_config.json", "index_config.json", "bed_config.json", "alignment_config.json"]
KIND = {"db": 0, "index": 1, "bed": 2, "align": 3}
_tls = threading.local()
_real_open = builtins.open


class Token:
    def __init__(self, n, clock0):
        self.cv = threading.Condition()
        self.turn = None
        self.state = ["init"] * n
        self.trace = []            # (pid, label, file)
        self.clock = clock0
        self.convs = []            # productions performed: dict(pid, kind, key, src, src_mtime0, target, tgt_mtime, tag)
        self.loads = []            # (pid, file, bytes or None) what each load observed
        self.stores = []           # (pid, file, text) complete buffers handed to a store
        self.taken = []            # (pid, kind, path, mtime, hit): the artefact version (path @ mtime) a run goes on to use,
                                   # recorded at the moment it takes it (cache hit / own production); one per result, in order
        self.reused_by_name = []   # (pid, path): index_reference returned a file it found under the index's name
        self.events = []           # artefact-level events of the database files (Model/Artefact.lean), in order:
                                   # (pid, "build"|"publish"|"use", public path, path built at | what was seen)
        self.errors = {}

    # ---- worker side
    def barrier(self, label, f):
        pid = getattr(_tls, "pid", None)
        if pid is None:
            return
        with self.cv:
            self.state[pid] = "waiting"
            self.cv.notify_all()
            self.cv.wait_for(lambda: self.turn == pid)
            self.turn = None
            self.state[pid] = "running"
            self.trace.append((pid, label, f))

    def pseudo(self, label, f):
        pid = getattr(_tls, "pid", None)
        if pid is not None:
            with self.cv:
                self.trace.append((pid, label, f))

    def done(self, pid):
        with self.cv:
            self.state[pid] = "done"
            self.cv.notify_all()

    # ---- controller side
    def grant(self, pid, timeout=60):
        """let pid perform one step; False if it has finished"""
        with self.cv:
            if not self.cv.wait_for(lambda: self.state[pid] in ("waiting", "done"), timeout):
                raise RuntimeError("worker %d stuck in state %s" % (pid, self.state[pid]))
            if self.state[pid] == "done":
                return False
            self.turn = pid
            self.cv.notify_all()
            if not self.cv.wait_for(lambda: self.turn is None and self.state[pid] in ("waiting", "done"), timeout):
                raise RuntimeError("worker %d did not reach its next barrier" % pid)
            return True


class _WriteProxy:
    """handle returned for open(<config>,'w'): everything is buffered, the bytes land at close (after the token)"""

    def __init__(self, fobj, tok, f):
        self._f, self._tok, self._file, self._parts = fobj, tok, f, []

    def write(self, s):
        self._parts.append(s)
        return self._f.write(s)

    def close(self):
        if self._f.closed:
            return
        self._tok.barrier("write", self._file)
        pid = getattr(_tls, "pid", None)
        self._tok.stores.append((pid, self._file, "".join(self._parts)))
        self._f.close()

    def __enter__(self):
        return self

    def __exit__(self, et, ev, tb):
        self.close()
        return False

    def __getattr__(self, name):
        return getattr(self._f, name)


class Instrument:
    """context manager: patches the repo modules for one scenario"""

    def __init__(self, home, tok, hold_build=False):
        self.home = home
        self.tok = tok
        self.hold_build = hold_build
        self.cfg_dir = os.path.join(home, ".config", "IsoQuant")
        self.cfg_paths = {os.path.join(self.cfg_dir, n): i for i, n in enumerate(CONFIG_NAMES)}
        self.saved = []

    def file_id(self, path):
        try:
            return self.cfg_paths.get(os.path.abspath(os.fspath(path)))
        except TypeError:
            return None

    def _set(self, obj, name, val):
        self.saved.append((obj, name, obj.__dict__.get(name, _MISSING)))
        setattr(obj, name, val)

    def __enter__(self):
        import isoquant as IQ
        import src.gtf2db as G
        import src.read_mapper as RM
        tok = self.tok
        inst = self

        def wrapped_open(path, mode="r", *a, **kw):
            f = inst.file_id(path) if getattr(_tls, "pid", None) is not None and isinstance(path, (str, os.PathLike)) else None
            if f is None:
                return _real_open(path, mode, *a, **kw)
            if "r" in mode and "+" not in mode:
                tok.barrier("load", f)
                try:
                    with _real_open(path, "rb") as fh:
                        seen = fh.read().decode("utf-8", "replace")
                except OSError:
                    seen = None
                tok.loads.append((_tls.pid, f, seen))
                return _real_open(path, mode, *a, **kw)
            if "w" in mode:
                tok.barrier("openW", f)
                return _WriteProxy(_real_open(path, mode, buffering=1 << 22), tok, f)
            raise RuntimeError("unexpected open mode %r on a config file" % mode)

        class PathProxy:
            def __getattr__(self, name):
                return getattr(os.path, name)

            def exists(self, p):
                f = inst.file_id(p) if getattr(_tls, "pid", None) is not None else None
                if f is not None:
                    tok.barrier("exists", f)
                return os.path.exists(p)

        class OsProxy:
            path = PathProxy()

            def __getattr__(self, name):
                return getattr(os, name)

            def replace(self, src, dst, **kw):
                f = inst.file_id(dst) if getattr(_tls, "pid", None) is not None else None
                if f is not None:
                    try:
                        with _real_open(src, "rb") as fh:
                            text = fh.read().decode("utf-8", "replace")
                    except OSError:
                        text = None
                    tok.barrier("replace", f)
                    tok.stores.append((_tls.pid, f, text))
                return os.replace(src, dst, **kw)

            def rename(self, src, dst, **kw):
                return self.replace(src, dst, **kw)

        osp = OsProxy()
        for mod in (IQ, G, RM):
            self._set(mod, "open", wrapped_open)
            self._set(mod, "os", osp)

        # --- lookups
        orig_fcd = G.find_converted_db

        def took(kind, path, hit):
            pid = getattr(_tls, "pid", None)
            if pid is not None and path is not None:
                tok.taken.append((pid, kind, os.path.abspath(path), os.path.getmtime(path), hit))

        def find_converted_db(*a, **kw):
            tok.barrier("lookup", 0)
            r = orig_fcd(*a, **kw)
            took("db", r, True)        # same step as the lookup: no barrier in between
            return r
        self._set(G, "find_converted_db", find_converted_db)

        def inline(orig, f):
            def w(*a, **kw):
                r = orig(*a, **kw)
                tok.pseudo("lookup", f)
                took({1: "index", 2: "bed", 3: "align"}[f], r, True)
                return r
            return w
        self._set(RM, "find_stored_index", inline(RM.find_stored_index, 1))
        self._set(RM, "find_stored_bed", inline(RM.find_stored_bed, 2))
        self._set(RM, "find_stored_alignment", inline(RM.find_stored_alignment, 3))

        # --- productions
        def produce(kind, key, src, target, tag):
            tok.barrier("produce", KIND[kind])
            m0 = os.path.getmtime(src)
            with _real_open(target, "w") as fh:
                json.dump({"converted_from": src, "src_mtime": m0, "tag": tag, "kind": kind}, fh)
            c = tok.clock
            tok.clock += 1
            os.utime(target, (c, c))
            tok.convs.append({"pid": _tls.pid, "kind": kind, "key": key, "src": src, "src_mtime0": m0,
                              "target": os.path.abspath(target), "tgt_mtime": float(c), "tag": tag})
            took(kind, target, False)

        # The REAL gtf2db runs (audit2 C20-G2): only gffutils.create_db is a stand-in, so WHERE the database is built - at
        # the path other runs may hold from the cache, or under a private name that is moved into place - is the code's
        # decision.  With `hold_build` the stand-in has the two phases of the real conversion: "build" (the old file is
        # removed, a new, still incomplete one exists) and "produce" (the file is complete).
        import gffutils as real_gffutils
        orig_gtf2db = G.gtf2db

        def fake_create_db(data, dbfn, force=False, **kw):
            cur = _tls.cur
            cur["built_at"] = os.path.abspath(dbfn)
            if inst.hold_build:
                tok.barrier("build", KIND["db"])
                if force and os.path.exists(dbfn):
                    os.unlink(dbfn)
                with _real_open(dbfn, "w") as fh:
                    fh.write('{"converted_from": ')          # an incomplete database
                tok.events.append((_tls.pid, "build", cur["built_at"], None))
            tok.barrier("produce", KIND["db"])
            cur["m0"] = os.path.getmtime(data)
            if force and os.path.exists(dbfn):
                os.unlink(dbfn)
            with _real_open(dbfn, "w") as fh:
                json.dump({"converted_from": data, "src_mtime": cur["m0"], "tag": cur["complete"], "kind": "db"}, fh)
            c = tok.clock
            tok.clock += 1
            os.utime(dbfn, (c, c))
            cur["clock"] = c

        class GffProxy:
            def __getattr__(self, name):
                return getattr(real_gffutils, name)

            create_db = staticmethod(fake_create_db)
        self._set(G, "gffutils", GffProxy())

        def gtf2db(gtf, db, complete_db=False, check_gtf=True):
            _tls.cur = cur = {"complete": bool(complete_db)}
            orig_gtf2db(gtf, db, complete_db, check_gtf)
            final = os.path.abspath(db)
            tok.convs.append({"pid": _tls.pid, "kind": "db", "key": os.path.abspath(gtf), "src": gtf, "src_mtime0": cur.get("m0"),
                              "target": final, "tgt_mtime": os.path.getmtime(db), "tag": bool(complete_db),
                              "built_at": cur.get("built_at")})
            tok.events.append((_tls.pid, "publish", final, cur.get("built_at")))
            took("db", db, False)
        self._set(G, "gtf2db", gtf2db)

        # the REAL index_reference with a stand-in minimap2 on PATH
        self.bindir = os.path.join(self.home, "_stubbin")
        os.makedirs(self.bindir, exist_ok=True)
        stub = os.path.join(self.bindir, "minimap2")
        with _real_open(stub, "w") as fh:
            fh.write(STUB_MINIMAP2)
        os.chmod(stub, 0o755)
        self.env_path = os.environ.get("PATH")
        os.environ["PATH"] = self.bindir + os.pathsep + (self.env_path or "")
        orig_index_reference = RM.index_reference

        def index_reference(aligner, args):
            tok.barrier("produce", KIND["index"])
            m0 = os.path.getmtime(args.reference)
            idx = orig_index_reference(aligner, args)
            try:
                with _real_open(idx) as fh:
                    built = fh.read()
            except OSError:
                built = ""
            if built.startswith("STUBINDEX\t"):
                # the indexer ran: canonical content (what was indexed, its mtime, k), next clock value as mtime
                _, ref, k = built.rstrip("\n").split("\t")
                with _real_open(idx, "w") as fh:
                    json.dump({"converted_from": ref, "src_mtime": m0, "tag": k, "kind": "index"}, fh)
                c = tok.clock
                tok.clock += 1
                os.utime(idx, (c, c))
                tok.convs.append({"pid": _tls.pid, "kind": "index", "key": os.path.abspath(ref), "src": ref, "src_mtime0": m0,
                                  "target": os.path.abspath(idx), "tgt_mtime": float(c), "tag": k})
            else:
                tok.reused_by_name.append((_tls.pid, os.path.abspath(idx)))
            took("index", idx, False)
            return idx
        self._set(RM, "index_reference", index_reference)

        def fake_db2bed(db, bed, _=None):
            produce("bed", os.path.abspath(db), db, bed, None)
        self._set(RM, "db2bed", fake_db2bed)

        def fake_align_fasta(aligner, fastq_file, annotation_file, args, label, out_dir):
            fq = os.path.abspath(fastq_file)
            bam = os.path.join(out_dir, "%s_%s.bam" % (label, os.path.basename(fq)))
            ann = os.path.abspath(annotation_file) if annotation_file else ""
            key = "%s_aligned_to_%s%s" % (fq, os.path.abspath(args.index), "_" + ann if ann else "")
            produce("align", key, fq, bam, None)
            return bam
        self._set(RM, "align_fasta", fake_align_fasta)
        self.mods = (IQ, G, RM)
        self.env_home = os.environ.get("HOME")
        os.environ["HOME"] = self.home
        return self

    def __exit__(self, *a):
        for obj, name, old in reversed(self.saved):
            if old is _MISSING:
                try:
                    delattr(obj, name)
                except AttributeError:
                    pass
            else:
                setattr(obj, name, old)
        if self.env_home is None:
            os.environ.pop("HOME", None)
        else:
            os.environ["HOME"] = self.env_home
        if self.env_path is None:
            os.environ.pop("PATH", None)
        else:
            os.environ["PATH"] = self.env_path
        return False


_MISSING = object()

# stand-in for the minimap2 binary (none is installed): `-t N -k K -w 5 -d <index> <reference>` writes a marker naming
# what it was asked to index
STUB_MINIMAP2 = """#!/bin/sh
idx=""; k=""; ref=""
while [ $# -gt 0 ]; do
  case "$1" in
    -d) idx="$2"; shift 2;;
    -k) k="$2"; shift 2;;
    -t|-w) shift 2;;
    *) ref="$1"; shift;;
  esac
done
[ -n "$idx" ] || exit 1
printf 'STUBINDEX\\t%s\\t%s\\n' "$ref" "$k" > "$idx"
"""


def worker_program(mods, cfg):
    """what one IsoQuant run does with the caches (cfg: see gen/cachegen.py); returns the list of artefacts it goes on to use"""
    IQ, G, RM = mods
    results = []
    args = types.SimpleNamespace(output=cfg["output"], clean_start=cfg.get("clean_start", False), genedb=None,
                                 data_type=cfg.get("data_type", "nanopore"), index=None, reference=cfg.get("reference"),
                                 no_junc_bed=False, junc_bed_file=None, threads=1, gtf_check=False, aligner=None)
    IQ.set_configs_directory(args)
    db = cfg.get("db")
    if db:
        args.genedb = db["gtf"]
        args.genedb_filename = db["target"]
        args.complete_genedb = db["complete"]
        results.append(["db", G.convert_gtf_to_db(args)])
    for st in cfg.get("stores", []):
        if st["kind"] == "index":
            args.reference = st["reference"]
            args.data_type = st["data_type"]
            m = RM.DataSetReadMapper.__new__(RM.DataSetReadMapper)
            m.args, m.aligner = args, "minimap2"
            args.index = None
            results.append(["index", os.path.abspath(m.create_index(args))])
        elif st["kind"] == "bed":
            args.genedb = st["genedb"]
            results.append(["bed", RM.find_annotation("minimap2", args)])
        elif st["kind"] == "align":
            args.index = st["index"]
            ann = st.get("annotation")
            fq = st["fastq"]
            bam = None if args.clean_start else RM.find_stored_alignment(fq, ann, args)
            if bam is None:
                bam = RM.align_fasta("minimap2", fq, ann, args, "S", cfg["output"])
                RM.store_alignment(bam, fq, ann, args)
            results.append(["align", os.path.abspath(bam)])
    return results


def use_steps(tok, results):
    """the run goes on to USE what it took: it opens the database path again (every worker of a real run does, for every
    chromosome) - one step per database result; what it finds is recorded"""
    for kind, path in results:
        if kind != "db":
            continue
        tok.barrier("use", KIND["db"])
        try:
            with _real_open(path) as fh:
                text = fh.read()
        except OSError:
            text = None
        try:
            seen = json.loads(text) if text is not None else None
            seen = "complete:%s@%s" % (seen["converted_from"], os.path.getmtime(path)) if isinstance(seen, dict) else "partial"
        except (ValueError, KeyError):
            seen = "partial"
        tok.events.append((_tls.pid, "use", os.path.abspath(path), "absent" if text is None else seen))


def run_scenario(home, cfgs, schedule, clock0, grant_timeout=60, late=(), hold_build=False):
    """Runs len(cfgs) 'processes' on the real code along `schedule` (pids; finished ones are skipped), then lets the
    remaining ones finish in pid order.  The pids in `late` START only when the schedule first names them (or at the end).
    Returns a dict with the realised trace, outcomes, final file contents, logs."""
    n = len(cfgs)
    late = set(late)
    tok = Token(n, clock0)
    outcomes = [None] * n

    with Instrument(home, tok, hold_build) as inst:
        def body(pid):
            _tls.pid = pid
            try:
                tok.barrier("start", -1)
                res = worker_program(inst.mods, cfgs[pid])
                if hold_build:
                    use_steps(tok, res)
                outcomes[pid] = {"ok": True, "results": res}
            except BaseException as ex:   # noqa: the crash of a run is an outcome
                outcomes[pid] = {"ok": False, "exc": type(ex).__name__, "msg": str(ex)[:200]}
            finally:
                _tls.pid = None
                tok.done(pid)

        threads = [threading.Thread(target=body, args=(i,), daemon=True) for i in range(n)]
        for t in threads:
            t.start()
        for pid in range(n):          # consume the 'start' barrier: every worker now waits at its first real step
            if pid not in late:
                tok.grant(pid, grant_timeout)
        for pid in schedule:
            if 0 <= pid < n:
                if pid in late:       # the run starts now (its first slot is spent on everything before its first cache step)
                    late.discard(pid)
                tok.grant(pid, grant_timeout)
        for pid in range(n):
            while tok.grant(pid, grant_timeout):
                pass
        for t in threads:
            t.join(grant_timeout)
        files = {}
        for path, f in inst.cfg_paths.items():
            try:
                with _real_open(path, "rb") as fh:
                    files[f] = fh.read().decode("utf-8", "replace")
            except OSError:
                files[f] = None
    # the steps of the cache-protocol model; "build" / "use" belong to the artefact model (they touch no config file and, in
    # the repaired code, no path another run can see)
    trace = [(p, l, f) for (p, l, f) in tok.trace if l not in ("start", "build", "use")]
    return {"trace": trace, "trace_full": [(p, l, f) for (p, l, f) in tok.trace if l != "start"], "events": tok.events, "outcomes": outcomes, "files": files, "convs": tok.convs, "loads": tok.loads,
            "stores": tok.stores, "clock": tok.clock, "taken": tok.taken, "reused_by_name": tok.reused_by_name}
