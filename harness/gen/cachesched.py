"""C20 — realises a chosen interleaving of the cache read-modify-write cycles on the REAL load/store functions.

Every "process" is a thread of the harness process that runs the real functions of the repo
(isoquant.set_configs_directory, gtf2db.convert_gtf_to_db, read_mapper.DataSetReadMapper.create_index,
read_mapper.find_annotation, find_stored_alignment/store_alignment).  All threads share one HOME.
The repo modules are monkeypatched *in the harness process only* (nothing is edited in /repo; active only under
ABLAB_ISOQUANT_VERIF=1) so that each access to a config file waits for a step token:

    exists   os.path.exists(<config>)
    openW    open(<config>, 'w')            (the real open truncates)
    write    close() of that handle          (the buffered json text reaches the file here)
    load     open(<config>, 'r')             (read + json.load follow without a further barrier)
    replace  os.replace(<tmp>, <config>)
    lookup   gtf2db.find_converted_db        (for the find_stored_* functions of read_mapper the lookup is inline:
                                              a pseudo event is logged right after the load)
    produce  the conversion / indexing / alignment itself, replaced by a fake that writes the target file, gives it the
             next clock value as mtime and logs what was converted from what

The controller grants the token along a schedule (list of pids); the recorded trace (pid, label, file) is the
interleaving that actually took place and is what the Lean model is run on.
"""
import builtins
import json
import os
import sys
import threading
import types

CONFIG_NAMES = ["db_config.json", "index_config.json", "bed_config.json", "alignment_config.json"]
KIND = {"db": 0, "index": 1, "bed": 2, "align": 3}
_tls = threading.local()
_real_open = builtins.open


class Token:
    def __init__(self, n, clock0):
        self.cv = threading.Condition()
        self.turn = None
        self.state = ["init"] * n
        self.trace = []            # (pid, label, file)
        self.clock = clock0
        self.convs = []            # productions performed: dict(pid, kind, key, src, src_mtime0, target, tgt_mtime, tag)
        self.loads = []            # (pid, file, bytes or None) what each load observed
        self.stores = []           # (pid, file, text) complete buffers handed to a store
        self.taken = []            # (pid, kind, path, mtime, hit): the artefact version (path @ mtime) a run goes on to use,
                                   # recorded at the moment it takes it (cache hit / own production); one per result, in order
        self.errors = {}

    # ---- worker side
    def barrier(self, label, f):
        pid = getattr(_tls, "pid", None)
        if pid is None:
            return
        with self.cv:
            self.state[pid] = "waiting"
            self.cv.notify_all()
            self.cv.wait_for(lambda: self.turn == pid)
            self.turn = None
            self.state[pid] = "running"
            self.trace.append((pid, label, f))

    def pseudo(self, label, f):
        pid = getattr(_tls, "pid", None)
        if pid is not None:
            with self.cv:
                self.trace.append((pid, label, f))

    def done(self, pid):
        with self.cv:
            self.state[pid] = "done"
            self.cv.notify_all()

    # ---- controller side
    def grant(self, pid, timeout=60):
        """let pid perform one step; False if it has finished"""
        with self.cv:
            if not self.cv.wait_for(lambda: self.state[pid] in ("waiting", "done"), timeout):
                raise RuntimeError("worker %d stuck in state %s" % (pid, self.state[pid]))
            if self.state[pid] == "done":
                return False
            self.turn = pid
            self.cv.notify_all()
            if not self.cv.wait_for(lambda: self.turn is None and self.state[pid] in ("waiting", "done"), timeout):
                raise RuntimeError("worker %d did not reach its next barrier" % pid)
            return True


class _WriteProxy:
    """handle returned for open(<config>,'w'): everything is buffered, the bytes land at close (after the token)"""

    def __init__(self, fobj, tok, f):
        self._f, self._tok, self._file, self._parts = fobj, tok, f, []

    def write(self, s):
        self._parts.append(s)
        return self._f.write(s)

    def close(self):
        if self._f.closed:
            return
        self._tok.barrier("write", self._file)
        pid = getattr(_tls, "pid", None)
        self._tok.stores.append((pid, self._file, "".join(self._parts)))
        self._f.close()

    def __enter__(self):
        return self

    def __exit__(self, et, ev, tb):
        self.close()
        return False

    def __getattr__(self, name):
        return getattr(self._f, name)


class Instrument:
    """context manager: patches the repo modules for one scenario"""

    def __init__(self, home, tok):
        self.home = home
        self.tok = tok
        self.cfg_dir = os.path.join(home, ".config", "IsoQuant")
        self.cfg_paths = {os.path.join(self.cfg_dir, n): i for i, n in enumerate(CONFIG_NAMES)}
        self.saved = []

    def file_id(self, path):
        try:
            return self.cfg_paths.get(os.path.abspath(os.fspath(path)))
        except TypeError:
            return None

    def _set(self, obj, name, val):
        self.saved.append((obj, name, obj.__dict__.get(name, _MISSING)))
        setattr(obj, name, val)

    def __enter__(self):
        import isoquant as IQ
        import src.gtf2db as G
        import src.read_mapper as RM
        tok = self.tok
        inst = self

        def wrapped_open(path, mode="r", *a, **kw):
            f = inst.file_id(path) if getattr(_tls, "pid", None) is not None and isinstance(path, (str, os.PathLike)) else None
            if f is None:
                return _real_open(path, mode, *a, **kw)
            if "r" in mode and "+" not in mode:
                tok.barrier("load", f)
                try:
                    with _real_open(path, "rb") as fh:
                        seen = fh.read().decode("utf-8", "replace")
                except OSError:
                    seen = None
                tok.loads.append((_tls.pid, f, seen))
                return _real_open(path, mode, *a, **kw)
            if "w" in mode:
                tok.barrier("openW", f)
                return _WriteProxy(_real_open(path, mode, buffering=1 << 22), tok, f)
            raise RuntimeError("unexpected open mode %r on a config file" % mode)

        class PathProxy:
            def __getattr__(self, name):
                return getattr(os.path, name)

            def exists(self, p):
                f = inst.file_id(p) if getattr(_tls, "pid", None) is not None else None
                if f is not None:
                    tok.barrier("exists", f)
                return os.path.exists(p)

        class OsProxy:
            path = PathProxy()

            def __getattr__(self, name):
                return getattr(os, name)

            def replace(self, src, dst, **kw):
                f = inst.file_id(dst) if getattr(_tls, "pid", None) is not None else None
                if f is not None:
                    try:
                        with _real_open(src, "rb") as fh:
                            text = fh.read().decode("utf-8", "replace")
                    except OSError:
                        text = None
                    tok.barrier("replace", f)
                    tok.stores.append((_tls.pid, f, text))
                return os.replace(src, dst, **kw)

            def rename(self, src, dst, **kw):
                return self.replace(src, dst, **kw)

        osp = OsProxy()
        for mod in (IQ, G, RM):
            self._set(mod, "open", wrapped_open)
            self._set(mod, "os", osp)

        # --- lookups
        orig_fcd = G.find_converted_db

        def took(kind, path, hit):
            pid = getattr(_tls, "pid", None)
            if pid is not None and path is not None:
                tok.taken.append((pid, kind, os.path.abspath(path), os.path.getmtime(path), hit))

        def find_converted_db(*a, **kw):
            tok.barrier("lookup", 0)
            r = orig_fcd(*a, **kw)
            took("db", r, True)        # same step as the lookup: no barrier in between
            return r
        self._set(G, "find_converted_db", find_converted_db)

        def inline(orig, f):
            def w(*a, **kw):
                r = orig(*a, **kw)
                tok.pseudo("lookup", f)
                took({1: "index", 2: "bed", 3: "align"}[f], r, True)
                return r
            return w
        self._set(RM, "find_stored_index", inline(RM.find_stored_index, 1))
        self._set(RM, "find_stored_bed", inline(RM.find_stored_bed, 2))
        self._set(RM, "find_stored_alignment", inline(RM.find_stored_alignment, 3))

        # --- productions
        def produce(kind, key, src, target, tag):
            tok.barrier("produce", KIND[kind])
            m0 = os.path.getmtime(src)
            with _real_open(target, "w") as fh:
                json.dump({"converted_from": src, "src_mtime": m0, "tag": tag, "kind": kind}, fh)
            c = tok.clock
            tok.clock += 1
            os.utime(target, (c, c))
            tok.convs.append({"pid": _tls.pid, "kind": kind, "key": key, "src": src, "src_mtime0": m0,
                              "target": os.path.abspath(target), "tgt_mtime": float(c), "tag": tag})
            took(kind, target, False)

        def fake_gtf2db(gtf, db, complete_db=False, check_gtf=True):
            produce("db", os.path.abspath(gtf), gtf, db, bool(complete_db))
        self._set(G, "gtf2db", fake_gtf2db)

        def fake_index_reference(aligner, args):
            ref_name = os.path.splitext(os.path.basename(args.reference))[0]
            idx = os.path.join(os.path.abspath(args.output), "%s_k%s_idx" % (ref_name, RM.KMER_SIZE[args.data_type]))
            produce("index", os.path.abspath(args.reference), args.reference, idx, RM.KMER_SIZE[args.data_type])
            return idx
        self._set(RM, "index_reference", fake_index_reference)

        def fake_db2bed(db, bed, _=None):
            produce("bed", os.path.abspath(db), db, bed, None)
        self._set(RM, "db2bed", fake_db2bed)

        def fake_align_fasta(aligner, fastq_file, annotation_file, args, label, out_dir):
            fq = os.path.abspath(fastq_file)
            bam = os.path.join(out_dir, "%s_%s.bam" % (label, os.path.basename(fq)))
            ann = os.path.abspath(annotation_file) if annotation_file else ""
            key = "%s_aligned_to_%s%s" % (fq, os.path.abspath(args.index), "_" + ann if ann else "")
            produce("align", key, fq, bam, None)
            return bam
        self._set(RM, "align_fasta", fake_align_fasta)
        self.mods = (IQ, G, RM)
        self.env_home = os.environ.get("HOME")
        os.environ["HOME"] = self.home
        return self

    def __exit__(self, *a):
        for obj, name, old in reversed(self.saved):
            if old is _MISSING:
                try:
                    delattr(obj, name)
                except AttributeError:
                    pass
            else:
                setattr(obj, name, old)
        if self.env_home is None:
            os.environ.pop("HOME", None)
        else:
            os.environ["HOME"] = self.env_home
        return False


_MISSING = object()


def worker_program(mods, cfg):
    """what one IsoQuant run does with the caches (cfg: see gen/cachegen.py); returns the list of artefacts it goes on to use"""
    IQ, G, RM = mods
    results = []
    args = types.SimpleNamespace(output=cfg["output"], clean_start=cfg.get("clean_start", False), genedb=None,
                                 data_type=cfg.get("data_type", "nanopore"), index=None, reference=cfg.get("reference"),
                                 no_junc_bed=False, junc_bed_file=None, threads=1, gtf_check=False, aligner=None)
    IQ.set_configs_directory(args)
    db = cfg.get("db")
    if db:
        args.genedb = db["gtf"]
        args.genedb_filename = db["target"]
        args.complete_genedb = db["complete"]
        results.append(["db", G.convert_gtf_to_db(args)])
    for st in cfg.get("stores", []):
        if st["kind"] == "index":
            args.reference = st["reference"]
            args.data_type = st["data_type"]
            m = RM.DataSetReadMapper.__new__(RM.DataSetReadMapper)
            m.args, m.aligner = args, "minimap2"
            args.index = None
            results.append(["index", os.path.abspath(m.create_index(args))])
        elif st["kind"] == "bed":
            args.genedb = st["genedb"]
            results.append(["bed", RM.find_annotation("minimap2", args)])
        elif st["kind"] == "align":
            args.index = st["index"]
            ann = st.get("annotation")
            fq = st["fastq"]
            bam = None if args.clean_start else RM.find_stored_alignment(fq, ann, args)
            if bam is None:
                bam = RM.align_fasta("minimap2", fq, ann, args, "S", cfg["output"])
                RM.store_alignment(bam, fq, ann, args)
            results.append(["align", os.path.abspath(bam)])
    return results


def run_scenario(home, cfgs, schedule, clock0, grant_timeout=60):
    """Runs len(cfgs) 'processes' on the real code along `schedule` (pids; finished ones are skipped), then lets the
    remaining ones finish in pid order.  Returns a dict with the realised trace, outcomes, final file contents, logs."""
    n = len(cfgs)
    tok = Token(n, clock0)
    outcomes = [None] * n

    with Instrument(home, tok) as inst:
        def body(pid):
            _tls.pid = pid
            try:
                tok.barrier("start", -1)
                outcomes[pid] = {"ok": True, "results": worker_program(inst.mods, cfgs[pid])}
            except BaseException as ex:   # noqa: the crash of a run is an outcome
                outcomes[pid] = {"ok": False, "exc": type(ex).__name__, "msg": str(ex)[:200]}
            finally:
                _tls.pid = None
                tok.done(pid)

        threads = [threading.Thread(target=body, args=(i,), daemon=True) for i in range(n)]
        for t in threads:
            t.start()
        for pid in range(n):          # consume the 'start' barrier: every worker now waits at its first real step
            tok.grant(pid, grant_timeout)
        for pid in schedule:
            if 0 <= pid < n:
                tok.grant(pid, grant_timeout)
        for pid in range(n):
            while tok.grant(pid, grant_timeout):
                pass
        for t in threads:
            t.join(grant_timeout)
        files = {}
        for path, f in inst.cfg_paths.items():
            try:
                with _real_open(path, "rb") as fh:
                    files[f] = fh.read().decode("utf-8", "replace")
            except OSError:
                files[f] = None
    trace = [(p, l, f) for (p, l, f) in tok.trace if l != "start"]
    return {"trace": trace, "outcomes": outcomes, "files": files, "convs": tok.convs, "loads": tok.loads,
            "stores": tok.stores, "clock": tok.clock, "taken": tok.taken}
