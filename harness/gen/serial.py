"""Seeded generators of C15 objects in the canonical JSON form shared by the Lean driver and the adapters.

Canonical form: a Python `str` is the list of its code points; an enum member is its value; a penalty is the
exact fraction [num, den] of the float; a dict is its insertion-ordered item list [[key, {"i":n}|{"s":str}|{"p":[a,b]}]].
`in_domain=True` generators produce only values of the documented domain of the on-disk format
(DESIGN.md §6 "C15"); `in_domain=False` mixes in values on which the real writers raise.
"""
from fractions import Fraction

SENTINELS = [0, 1, (1 << 30) - 1, 1 << 30, (1 << 30) + 1, (1 << 31) - 1, 1 << 31, (1 << 32) - 1]
NEG_SENTINELS = [0, -1, 1, -2, 5, -5, (1 << 31) - 1, -((1 << 31) - 1), (1 << 30), -(1 << 30)]
OUT_OF_RANGE_U32 = [-1, -5, 1 << 32, (1 << 32) + 7, 1 << 40]
OUT_OF_RANGE_NEG = [1 << 31, -(1 << 31), (1 << 31) + 3, -((1 << 31) + 3), 1 << 32, -(1 << 32), (1 << 32) + 5,
                    -((1 << 32) + 5), (1 << 33) + 1, -((1 << 33) + 1)]

ALPHABETS = [
    "ACGTacgt_.-0123456789",
    "abcXYZ |:;,\t",
    "éüßЖ中文日本",       # 2- and 3-byte UTF-8
    "\U0001F600\U00010348aé",                               # 4-byte UTF-8
    "\x00\x01\x7f",
]


def cps(s):
    return [ord(c) for c in s]


def from_cps(l):
    return "".join(chr(c) for c in l)


def rand_str(rng, maxlen=12, ascii_only=False):
    r = rng.random()
    if r < 0.08:
        return ""
    alpha = ALPHABETS[0] if ascii_only or rng.random() < 0.6 else rng.choice(ALPHABETS)
    n = rng.randint(1, maxlen)
    return "".join(rng.choice(alpha) for _ in range(n))


def long_strings():
    """strings around the 2-byte length limit: UTF-8 length 65534 (largest of the domain), 65535 (collides with the
    None marker of write_string_or_none), 65536 (OverflowError); one made of 2-byte characters"""
    return ["a" * 65534, "a" * 65535, "a" * 65536, "é" * 32767, "é" * 32768, "中" * 21845]


def rand_u32(rng, in_domain=True):
    r = rng.random()
    if not in_domain and r < 0.12:
        return rng.choice(OUT_OF_RANGE_U32)
    if r < 0.35:
        return rng.choice(SENTINELS)
    if r < 0.7:
        return rng.randint(0, 300000)
    return rng.randint(0, (1 << 32) - 1)


def rand_neg(rng, in_domain=True):
    r = rng.random()
    if not in_domain and r < 0.12:
        return rng.choice(OUT_OF_RANGE_NEG)
    if r < 0.35:
        return rng.choice(NEG_SENTINELS)
    if r < 0.7:
        return rng.randint(-3000, 3000)
    return rng.randint(-((1 << 31) - 1), (1 << 31) - 1)


def rand_short(rng, in_domain=True):
    r = rng.random()
    if not in_domain and r < 0.1:
        return rng.choice([-1, 65536, 70000])
    if r < 0.3:
        return rng.choice([0, 1, 60, 255, 256, 65534, 65535])
    return rng.randint(0, 65535)


def frac_of_float(x):
    f = Fraction(x)
    return [f.numerator, f.denominator]


def float_of_frac(p):
    return p[0] / p[1]


def rand_penalty(rng, in_domain=True):
    """a float; in the domain: a multiple of 2^-20 below 2^12"""
    r = rng.random()
    if in_domain:
        if r < 0.3:
            return rng.choice([0.0, 1.0, 0.5, 0.25, 2.5, 4095.0, (2 ** 32 - 1) / 2 ** 20, 1 / 2 ** 20])
        return rng.randint(0, (1 << 32) - 1) / float(1 << 20)
    if r < 0.4:
        return rng.choice([0.1, 0.3, 0.1 + 0.2, 1.1, 2.2 * 3, 1e-9, 0.999999999, 4095.9999999])   # not multiples of 2^-20
    if r < 0.55:
        return rng.choice([-1e-9, -0.0, -2.0 ** -21])           # int() truncates to 0: written as 0
    if r < 0.7:
        return rng.choice([-1.0, -0.5, 4096.0, 5000.25, 1e12])   # OverflowError
    return rng.random() * rng.choice([1, 10, 100, 4000])


def rand_region(rng, in_domain=True):
    r = rng.random()
    if r < 0.25:
        v = rng.choice([(1 << 31), (1 << 30) - 1, (1 << 30) + 1, (1 << 31) - 1])
        return [v, v]
    if r < 0.35:
        return [rand_u32(rng, in_domain), rand_u32(rng, in_domain)]
    a = rng.randint(0, 40)
    return [a, a + rng.randint(0, 5)]


def rand_event(rng, enums, in_domain=True, etype=None):
    return {"t": etype if etype is not None else rng.choice(enums["MatchEventSubtype"]),
            "ir": rand_region(rng, in_domain), "rr": rand_region(rng, in_domain), "info": rand_neg(rng, in_domain)}


def rand_id_or_none(rng):
    r = rng.random()
    if r < 0.2:
        return None
    if r < 0.3:
        return []
    return cps(rand_str(rng, 14, ascii_only=rng.random() < 0.8))


def rand_match(rng, enums, in_domain=True, cls=None, n_events=None):
    n = rng.choice([0, 0, 1, 2, 3, 6]) if n_events is None else n_events
    return {"gene": rand_id_or_none(rng), "tr": rand_id_or_none(rng),
            "strand": cps(rng.choice(["+", "-", ".", ""])),
            "cls": cls if cls is not None else rng.choice(enums["MatchClassification"]),
            "pen": frac_of_float(rand_penalty(rng, in_domain)),
            "events": [rand_event(rng, enums, in_domain) for _ in range(n)]}


def rand_exons(rng, allow_empty=False, in_domain=True):
    r = rng.random()
    if allow_empty and r < 0.15:
        return []
    if r < 0.25:
        return [[rand_u32(rng, in_domain), rand_u32(rng, in_domain)] for _ in range(rng.randint(1, 3))]
    n = rng.randint(1, 8)
    p = rng.randint(1, 10 ** rng.choice([2, 5, 9]))
    ex = []
    for _ in range(n):
        ln = rng.randint(1, 500)
        ex.append([p, p + ln - 1])
        p += ln + rng.choice([0, 1, 1, 50, 2000])       # gap 0: touching blocks (no junction between them)
    if ex[-1][1] >= (1 << 32):
        return [[1, 5]]
    return ex


def junctions_from_blocks(ex):
    return [[ex[i][1] + 1, ex[i + 1][0] - 1] for i in range(len(ex) - 1) if ex[i][1] + 1 < ex[i + 1][0]]


def rand_dictval(rng, in_domain=True):
    r = rng.random()
    if r < 0.4:
        return {"i": rand_neg(rng, in_domain)}
    if r < 0.75:
        return {"s": cps(rand_str(rng, 10))}
    return {"p": [rand_neg(rng, in_domain), rand_neg(rng, in_domain)]}


def rand_dict(rng, in_domain=True, maxn=4):
    n = rng.choice([0, 0, 1, 2, maxn])
    keys = []
    while len(keys) < n:
        k = rand_str(rng, 8)
        if k not in keys:
            keys.append(k)
    return [[cps(k), rand_dictval(rng, in_domain)] for k in keys]


def rand_profile(rng, in_domain=True):
    n = rng.choice([0, 1, 3, 10, 40])
    if rng.random() < 0.2:
        return [rand_neg(rng, in_domain) for _ in range(n)]
    return [rng.choice([-2, -1, 0, 1]) for _ in range(n)]


def rand_ra(rng, enums, in_domain=True, allow_empty_exons=False, atype=None):
    ex = rand_exons(rng, allow_empty_exons, in_domain)
    cex = ex if rng.random() < 0.5 else rand_exons(rng, True, in_domain)
    nm = rng.choice([0, 1, 1, 2, 4])
    at = atype if atype is not None else rng.choice(enums["ReadAssignmentType"])
    return {"id": rand_u32(rng, in_domain), "read_id": cps(rand_str(rng, 30)), "region": [rand_u32(rng, in_domain), rand_u32(rng, in_domain)],
            "exons": ex, "cexons": cex, "cintrons": junctions_from_blocks(cex),
            "flags": [rng.random() < 0.5, rng.random() < 0.5, rng.random() < 0.5],
            "polya": [rng.choice([-1, -1, rand_neg(rng, in_domain)]) for _ in range(4)],
            "group": cps(rng.choice(["NA", "", rand_str(rng, 10)])), "mstrand": cps(rng.choice("+-.")),
            "strand": cps(rng.choice("+-.")), "chr": cps(rng.choice(["chr1", "chr9", ".", rand_str(rng, 8)])),
            "mapq": rand_short(rng, in_domain), "atype": at, "gtype": rng.choice(enums["ReadAssignmentType"]),
            "matches": [rand_match(rng, enums, in_domain) for _ in range(nm)],
            "info": rand_dict(rng, in_domain), "attrs": rand_dict(rng, in_domain),
            "introns_match": rng.random() < 0.5, "eprof": rand_profile(rng, in_domain), "iprof": rand_profile(rng, in_domain)}


def rand_basic(rng, enums, in_domain=True):
    def ids():
        n = rng.choice([0, 1, 2, 3])
        return sorted({tuple(cps(rand_str(rng, 10))) for _ in range(n)})
    return {"id": rand_u32(rng, in_domain), "read_id": cps(rand_str(rng, 30)), "chr": cps(rng.choice(["chr1", "chr2", rand_str(rng, 6)])),
            "start": rand_u32(rng, in_domain), "end": rand_u32(rng, in_domain), "region": [rand_u32(rng, in_domain), rand_u32(rng, in_domain)],
            "mm": rng.random() < 0.5, "polya": rng.random() < 0.5, "atype": rng.choice(enums["ReadAssignmentType"]),
            "gtype": rng.choice(enums["ReadAssignmentType"]), "pen": frac_of_float(rand_penalty(rng, in_domain)),
            "genes": [list(x) for x in ids()], "isoforms": [list(x) for x in ids()]}


def rand_header(rng, in_domain=True):
    n = rng.choice([0, 1, 1, 2, 5])
    return {"delta": rng.choice([0, 6, rand_u32(rng, in_domain)]), "genes": [cps(rand_str(rng, 15)) for _ in range(n)],
            "chr": cps(rng.choice(["chr1", "chrX", rand_str(rng, 6)])), "start": rand_u32(rng, in_domain), "end": rand_u32(rng, in_domain)}


def rand_groups(rng, enums, max_groups=3, max_reads=3):
    """well-formed stream content: every gene-info record is followed by its read records"""
    gs = []
    for _ in range(rng.randint(0, max_groups)):
        gs.append({"gene": rand_header(rng), "reads": [rand_ra(rng, enums) for _ in range(rng.randint(0, max_reads))]})
    return gs


def items_of_groups(gs):
    it = []
    for g in gs:
        it.append({"gene": g["gene"]})
        it += [{"read": r} for r in g["reads"]]
    return it


def enum_sweep(enums):
    """one event per MatchEventSubtype member, one match per MatchClassification member"""
    zero = {"ir": [1 << 31, 1 << 31], "rr": [1 << 31, 1 << 31], "info": 0}
    evs = [dict(zero, t=v) for v in enums["MatchEventSubtype"]]
    ms = [{"gene": cps("g"), "tr": cps("t"), "strand": cps("+"), "cls": v, "pen": [0, 1], "events": []}
          for v in enums["MatchClassification"]]
    return evs, ms
