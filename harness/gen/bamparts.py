"""C12 generators: alignment record sets, their partitions into coordinate-sorted files, fake and real BAM handles,
cache dictionaries / file-system histories, and pipeline-level datasets.

A record is (reference_start, reference_end, tag) with 0-based start and exclusive end; `tag` identifies it.
Everything random comes from the rng passed in (ctx.rng)."""
import itertools
import os


# ------------------------------------------------------------------------------------------------
# record sets and partitions

def rand_records(rng, n, span, maxlen, tie_rate=0.4):
    """n records inside [0, span); many equal starts / equal (start, end) pairs"""
    recs = []
    for t in range(n):
        if recs and rng.random() < tie_rate:
            s = rng.choice(recs)[0]
        else:
            s = rng.randrange(0, span)
        if recs and rng.random() < 0.2:
            e = s + (rng.choice(recs)[1] - rng.choice(recs)[0])
        else:
            e = s + rng.randint(1, maxlen)
        if e <= s:
            e = s + 1
        recs.append((s, e, t))
    return recs


def clustered_records(rng, n_clusters, per_cluster, gap, maxlen):
    """several groups of overlapping records separated by gaps (some gaps of exactly 0 / 1 to probe adjacency)"""
    recs = []
    pos = rng.randint(0, 50)
    t = 0
    for c in range(n_clusters):
        hi = pos + 1
        for _ in range(rng.randint(1, per_cluster)):
            s = rng.randint(pos, max(pos, hi - 1))
            e = s + rng.randint(1, maxlen)
            hi = max(hi, e)
            recs.append((s, e, t))
            t += 1
        pos = hi + rng.choice([0, 0, 1, 1, 2, rng.randint(1, gap)])
    return recs


def partition(rng, recs, k, sort_ties="random"):
    """k coordinate-sorted files (sorted by start only; order among equal starts is arbitrary, as in a BAM)"""
    files = [[] for _ in range(k)]
    order = list(recs)
    if sort_ties == "random":
        rng.shuffle(order)
    for r in order:
        files[rng.randrange(k)].append(r)
    return [sorted(f, key=lambda r: r[0]) for f in files]      # stable: tie order = shuffled order


def one_file(rng, recs):
    return partition(rng, recs, 1)


def small_universe(U, n):
    """all multisets of n records over starts 0..U-1 / lengths 1..U (as sorted tuples of (s, e))"""
    ivs = [(s, e) for s in range(U) for e in range(s + 1, U + 1)]
    return list(itertools.combinations_with_replacement(ivs, n))


def all_partitions(recs, k):
    """every assignment of the records (in the given order) to k files -> list of file lists"""
    res = []
    for assign in itertools.product(range(k), repeat=len(recs)):
        files = [[] for _ in range(k)]
        for r, a in zip(recs, assign):
            files[a].append(r)
        res.append([sorted(f, key=lambda r: r[0]) for f in files])
    return res


# ------------------------------------------------------------------------------------------------
# fake pysam handles (the merger / collector only use these attributes)

class FakeAln:
    __slots__ = ("reference_start", "reference_end", "query_name", "is_secondary", "is_supplementary", "reference_id",
                 "tag")

    def __init__(self, start, stop, tag):
        self.reference_start = start
        self.reference_end = stop
        self.query_name = "t%d" % tag
        self.tag = tag
        self.is_secondary = False
        self.is_supplementary = False
        self.reference_id = 0


class FakeBam:
    """pysam.AlignmentFile stand-in: fetch(chr, a, b) yields, in file order, the records overlapping [a, b)"""

    def __init__(self, recs, length):
        self.recs = [FakeAln(*r) for r in recs]
        self.length = length
        self.fetches = 0

    def fetch(self, chr_id, start, end, multiple_iterators=False):
        self.fetches += 1
        if self.length is None:
            # the header of this file does not list the sequence (pysam: ValueError "invalid contig")
            raise ValueError("invalid contig `%s`" % chr_id)
        return iter([a for a in self.recs if a.reference_start < end and a.reference_end > start])

    def get_reference_length(self, chr_id):
        if self.length is None:
            raise KeyError("unknown reference %s" % chr_id)          # pysam
        return self.length

    def get_tid(self, chr_id):
        return -1 if self.length is None else 0        # pysam: -1 = the header does not list the sequence

    def reset(self):
        pass

    def close(self):
        pass


def own_headers(rng, files):
    """per-file header entry of the sequence for a partition whose parts do NOT share a header: a part without records may
    not list the sequence at all (None; a part made by subsetting to other chromosomes), a part with records gives it a
    length >= its last record (parts aligned against / re-headered to different builds)"""
    res = []
    for f in files:
        if not f:
            res.append(None if rng.random() < 0.7 else rng.choice([1, 40, 100000]))
        else:
            res.append(max(r[1] for r in f) + rng.choice([0, 1, 10, 7000]))
    return res


def fake_pairs(files, length=None, headers=None):
    if length is None:
        length = max([r[1] for f in files for r in f] + [1]) + 10
    if headers is not None:
        return [(FakeBam(f, headers[i]), "file%d.bam" % i) for i, f in enumerate(files)]
    return [(FakeBam(f, length), "file%d.bam" % i) for i, f in enumerate(files)]


def write_real_bams(d, files, length=None, prefix="p", headers=None):
    """writes one indexed BAM per file list with pysam; returns [(AlignmentFile, path)].  headers (see own_headers): the
    @SQ lines differ from file to file - own length, chr1 not listed (the file lists chrZ only), chr1 behind chrZ in every
    second file (another reference_id for the same sequence)"""
    import pysam
    os.makedirs(d, exist_ok=True)
    if length is None:
        length = max([r[1] for f in files for r in f] + [1]) + 10
    hdr0 = {"HD": {"VN": "1.6", "SO": "coordinate"}, "SQ": [{"SN": "chr1", "LN": length}]}
    pairs = []
    for i, f in enumerate(files):
        path = os.path.join(d, "%s%d.bam" % (prefix, i))
        hdr, rid = hdr0, 0
        if headers is not None:
            if headers[i] is None:
                sq = [{"SN": "chrZ", "LN": 777}]
            elif i % 2:
                sq = [{"SN": "chrZ", "LN": 777}, {"SN": "chr1", "LN": max(1, headers[i])}]
                rid = 1
            else:
                sq = [{"SN": "chr1", "LN": max(1, headers[i])}, {"SN": "chrZ", "LN": 777}]
            hdr = {"HD": {"VN": "1.6", "SO": "coordinate"}, "SQ": sq}
        with pysam.AlignmentFile(path, "wb", header=hdr) as out:
            for s, e, t in f:
                a = pysam.AlignedSegment()
                a.query_name = "t%d" % t
                a.flag = 0
                a.reference_id = rid
                a.reference_start = s
                a.mapping_quality = 60
                a.cigarstring = "%dM" % (e - s)
                a.query_sequence = "A" * (e - s)
                a.query_qualities = pysam.qualitystring_to_array("I" * (e - s))
                out.write(a)
        pysam.index(path)
        pairs.append((pysam.AlignmentFile(path, "rb", require_index=True), path))
    return pairs


def tag_of(aln):
    return int(aln.query_name[1:])


# ------------------------------------------------------------------------------------------------
# cache dictionaries and histories

GTFS = ["g1.gtf", "g2.gtf"]
DBS = ["o1/a.db", "o2/a.db"]
MTIMES = [100, 200]


def rand_cache_case(rng, malformed=False):
    """(cache as ordered list of (key, entry dict), fs as {path: mtime}, gtf, db, complete)"""
    cache = []
    for g in GTFS:
        if rng.random() < 0.75:
            e = {"genedb": rng.choice(DBS), "gtf_mtime": rng.choice(MTIMES), "db_mtime": rng.choice(MTIMES),
                 "complete_db": rng.random() < 0.5}
            if malformed:
                for k in list(e):
                    if rng.random() < 0.3:
                        del e[k]
            cache.append((g, e))
    fs = {}
    for p in GTFS + DBS:
        if rng.random() < 0.8:
            fs[p] = rng.choice(MTIMES)
    return cache, fs, rng.choice(GTFS + ["g3.gtf"]), rng.choice(DBS), rng.random() < 0.5


def all_cache_cases():
    """exhaustive: one well-formed entry for g1 (or none) x presence / mtimes of g1 and the two dbs x query flag"""
    res = []
    opts = [None] + MTIMES
    for has in (False, True):
        entries = [None]
        if has:
            entries = [{"genedb": db, "gtf_mtime": gm, "db_mtime": dm, "complete_db": c}
                       for db in DBS for gm in MTIMES for dm in MTIMES for c in (False, True)]
        for e in entries:
            for mg in opts:
                for m1 in opts:
                    for m2 in opts:
                        fs = {}
                        if mg is not None:
                            fs["g1.gtf"] = mg
                        if m1 is not None:
                            fs[DBS[0]] = m1
                        if m2 is not None:
                            fs[DBS[1]] = m2
                        for c in (False, True):
                            res.append(([("g1.gtf", e)] if e else [], fs, "g1.gtf", DBS[0], c))
    return res


def rand_history(rng, n):
    """ops over 2 GTF paths and 2 output database paths; content tokens are small naturals"""
    ops = []
    tok = 1
    for g in GTFS:
        if rng.random() < 0.8:
            ops.append(["write", g, tok])
            tok += 1
    for _ in range(n):
        x = rng.random()
        if x < 0.55:
            ops.append(["gtf2db", rng.choice(GTFS), rng.choice(DBS), rng.random() < 0.5, rng.random() < 0.1])
        elif x < 0.75:
            ops.append(["write", rng.choice(GTFS), tok])
            tok += 1
        elif x < 0.83:
            ops.append(["write", rng.choice(DBS), 1000 + tok])
            tok += 1
        elif x < 0.92:
            ops.append(["remove", rng.choice(GTFS + DBS)])
        else:
            ops.append(["db2gtf", rng.choice(["o1/a.gtf", "o2/a.gtf"]), rng.choice(DBS), rng.random() < 0.5, rng.random() < 0.1])
    return ops


# ------------------------------------------------------------------------------------------------
# pipeline-level datasets (synthetic genome + annotation + reads) and their partitions

def make_dataset(seed, scenario="basic"):
    """deterministic in (seed, scenario).  scenarios:
       basic     multi-isoform genes, reads following isoforms, extra reads sharing exact start positions
       multimap  + secondary alignments of some reads at another locus, a few unmapped records
       long      + one gene with long introns so that its read cluster exceeds MAX_REGION_LEN (region splitting)
       deep      long + 1150 more reads on that gene (more than MIN_READS_TO_SPLIT)"""
    import random
    from gen import synth
    rng = random.Random(seed * 7919 + {"basic": 1, "multimap": 2, "long": 3, "deep": 4}[scenario])
    ds = synth.simple_dataset(seed=seed, n_chroms=2, genes_per_chrom=3, reads_per_tx=rng.randint(3, 6),
                              chrom_len=120000 if scenario in ("long", "deep") else 40000)
    # reads that start at exactly the same position with different / equal ends
    base = [r for r in ds.reads if not r["flag"] & 4]
    for i in range(min(12, len(base))):
        r = rng.choice(base)
        m = dict(r)
        m["name"] = "dup%d_%s" % (i, r["name"])
        if rng.random() < 0.5 and r["cigar"].endswith("M"):
            # shorten the last block by a few bases (same start, different end)
            import re
            ops = re.findall(r"(\d+)([MIDNSHP=X])", r["cigar"])
            n, op = ops[-1]
            cut = rng.randint(1, min(30, int(n) - 1)) if int(n) > 1 else 0
            if cut:
                ops[-1] = (str(int(n) - cut), op)
                m["cigar"] = "".join(a + b for a, b in ops)
                if r["seq"] is not None:
                    m["seq"] = r["seq"][:len(r["seq"]) - cut]
        ds.reads.append(m)
    if scenario == "multimap":
        genes = ds.genes
        for i in range(8):
            r = rng.choice(base)
            g = rng.choice(genes)
            tid, ex = rng.choice(g["transcripts"])
            ds.read_from_exons(r["name"], g["chr"], ex, flag=256, mapq=rng.choice([0, 1, 60]))
        for i in range(3):
            ds.add_read("unmapped%d" % i, None, -1, None, flag=4, seq="ACGT" * 20)
    if scenario in ("long", "deep"):
        chrom = "chr1"
        pos = 45000
        exons = []
        for _ in range(5):
            ln = rng.randint(150, 300)
            exons.append((pos, pos + ln - 1))
            pos += ln + rng.randint(9000, 12000)
        txs = [("TL_a", exons), ("TL_b", exons[:2] + exons[3:])]
        ds.add_gene(chrom, "GL", "+", txs)
        for tid, ex in txs:
            for k in range(5):
                e = list(ex)
                if rng.random() < 0.5:
                    e = e[rng.randint(0, 1):]
                if rng.random() < 0.5:
                    e = e[:len(e) - rng.randint(0, 1)]
                ds.read_from_exons("rl_%s_%d" % (tid, k), chrom, e)
        # short reads inside single exons of the long gene (fall into different sub-regions)
        for k in range(6):
            a, b = rng.choice(exons)
            ds.read_from_exons("rs_%d" % k, chrom, [(a + rng.randint(0, 20), b - rng.randint(0, 20))])
    if scenario == "deep":
        # more than MIN_READS_TO_SPLIT reads on the long gene: coverage-based region splitting at the real thresholds
        g = [x for x in ds.genes if x["gene_id"] == "GL"][0]
        for k in range(1150):
            tid, ex = rng.choice(g["transcripts"])
            i = rng.randint(0, len(ex) - 1)
            j = rng.randint(i, len(ex) - 1)
            e = list(ex[i:j + 1])
            e[0] = (e[0][0] + rng.randint(0, 30), e[0][1])
            e[-1] = (e[-1][0], e[-1][1] - rng.randint(0, 30))
            ds.read_from_exons("deep_%d" % k, "chr1", e)
    return ds


def split_reads(rng, reads, k):
    parts = [[] for _ in range(k)]
    for r in reads:
        parts[rng.randrange(k)].append(r)
    return parts
