"""Seeded generators for intervals, sorted disjoint interval lists, exon sets and profile cases."""
import itertools


def rand_iv(rng, maxc, wf=True):
    a = rng.randint(0, maxc)
    b = a + rng.choice([0, 1, 2, 5, 100, 10000]) if wf else rng.randint(0, maxc)
    return (a, b)


def is_sd(l):
    """sorted, well formed, pairwise disjoint"""
    l = [tuple(x) for x in l]
    return all(a <= b for a, b in l) and all(l[i][1] < l[i + 1][0] for i in range(len(l) - 1))


def span(l):
    return l[-1][1] - l[0][0] + 1 if l else 0


_cache = {}


def all_sd_lists(U, maxlen):
    """all sorted disjoint lists of <= maxlen well-formed intervals over 1..U (touching intervals included)"""
    key = (U, maxlen)
    if key in _cache:
        return _cache[key]
    ivs = [(a, b) for a in range(1, U + 1) for b in range(a, U + 1)]
    res = [[]]
    frontier = [[]]
    for _ in range(maxlen):
        nxt = []
        for l in frontier:
            last = l[-1][1] if l else 0
            for iv in ivs:
                if iv[0] > last:
                    nxt.append(l + [iv])
        res += nxt
        frontier = nxt
    _cache[key] = res
    return res


def rand_sd_list(rng, n, maxc):
    """n sorted disjoint intervals with genome-like sizes"""
    pos = rng.randint(1, max(1, maxc // 2))
    l = []
    for _ in range(n):
        ln = rng.choice([1, 2, 10, 50, 150, 1000])
        l.append((pos, pos + ln - 1))
        pos += ln + rng.choice([0, 0, 1, 2, 50, 5000]) + (0 if rng.random() < 0.3 else 1)
    return l


def perturb(rng, l):
    """a list similar to l: jitter, drop, merge"""
    out = []
    for a, b in l:
        r = rng.random()
        if r < 0.1:
            continue
        da = rng.choice([0, 0, 0, 1, -1, 3])
        db = rng.choice([0, 0, 0, 1, -1, 3])
        a2, b2 = a + da, b + db
        if a2 > b2:
            a2, b2 = a, b
        if out and a2 <= out[-1][1]:
            a2 = out[-1][1] + 1
            if a2 > b2:
                continue
        out.append((max(1, a2), max(1, a2, b2)))
    return out or [l[0]]


def rand_point(rng, l):
    a, b = rng.choice(l)
    return rng.choice([a, b, a - 1, b + 1, (a + b) // 2, l[0][0] - 5, l[-1][1] + 5, rng.randint(l[0][0], l[-1][1])])


def all_exon_sets(U, maxn):
    """all multisets-free lists of <= maxn distinct well-formed exons over 1..U (any overlap pattern)"""
    ivs = [(a, b) for a in range(1, U + 1) for b in range(a, U + 1)]
    res = []
    for n in range(1, maxn + 1):
        for c in itertools.combinations(ivs, n):
            res.append(list(c))
    return res


def rand_exon_set(rng, n, maxc):
    s = set()
    base = rng.randint(1, maxc)
    for _ in range(n):
        a = base + rng.randint(0, 3000)
        s.add((a, a + rng.choice([0, 1, 5, 80, 200, 900])))
    return sorted(s)


# ---- profile cases -------------------------------------------------------------------------------

def isoform_profile_cases(rng, quick):
    cases = []
    U = 6 if quick else 7
    # intron-like: features = sorted distinct intervals (may overlap); transcript features = sorted disjoint subset
    ivs = [(a, b) for a in range(1, U + 1) for b in range(a, U + 1)]
    for n in range(1, 4):
        combos = list(itertools.combinations(ivs, n))
        if quick and len(combos) > 400:
            combos = rng.sample(combos, 400)
        for feats in combos:
            feats = sorted(feats)
            # choose subsets that are pairwise disjoint
            for k in range(0, n + 1):
                for sub in itertools.combinations(feats, k):
                    if is_sd(list(sub)):
                        region = (sub[0][0] - 1, sub[-1][1] + 1) if sub else (rng.randint(1, U), rng.randint(1, U) + 1)
                        cases.append(("isoform_profile", {"features": feats, "tf": list(sub), "region": region, "cmp": "equal"}))
    # split-exon-like: features = sd list, transcript exons = sd list of unions of features
    for l in all_sd_lists(U, 3):
        if not l:
            continue
        for k in range(1, len(l) + 1):
            for sub in itertools.combinations(l, k):
                tf = merge_touching(list(sub))
                cases.append(("isoform_profile", {"features": l, "tf": tf, "region": (tf[0][0], tf[-1][1]), "cmp": "contains"}))
    return cases


def merge_touching(l):
    out = []
    for a, b in l:
        if out and out[-1][1] + 1 == a:
            out[-1] = (out[-1][0], b)
        else:
            out.append((a, b))
    return out


def overlapping_profile_cases(rng, quick):
    cases = []
    U = 7
    sds = all_sd_lists(U, 2 if quick else 3)
    ivs = [(a, b) for a in range(1, U + 1) for b in range(a, U + 1)]
    known_sets = []
    for n in range(1, 3):
        known_sets += [sorted(c) for c in itertools.combinations(ivs, n)]
    if quick:
        known_sets = rng.sample(known_sets, 120)
    else:
        known_sets = rng.sample(known_sets, 400)
    for known in known_sets:
        for read in (rng.sample(sds, 25) if quick else rng.sample(sds, 60)):
            if not read:
                continue
            for d in (0, 1):
                for kind in ("intron", "exon"):
                    mapped = (read[0][0] - rng.randint(0, 2), read[-1][1] + rng.randint(0, 2)) if kind == "intron" \
                        else (read[0][1] + d, read[-1][0] - d)
                    polya = rng.choice([-1, -1, -1, rng.randint(1, U)])
                    polyt = rng.choice([-1, -1, -1, rng.randint(1, U)])
                    cases.append(("overlapping_profile", {"kind": kind, "known": known, "gene_region": (known[0][0], max(k[1] for k in known)),
                                                          "read": read, "mapped": mapped, "polya": polya, "polyt": polyt,
                                                          "d": d, "abs_d": rng.choice([0, 1, 2])}))
    # audit-2 G6: wider pools - 1-4 known features, 1-4 read features, delta 0..3, polyA / polyT anywhere (0, beyond the read,
    # inside a gap), gene region wider than the hull of the known features
    for op, kw in wide_read_profile_cases(rng, 1500 if quick else 15000):
        kind = "intron" if op == "intron_profile" else "exon"
        read = kw["blocks"]
        d = kw["d"]
        mapped = (read[0][0] - rng.randint(0, 2), read[-1][1] + rng.randint(0, 2)) if kind == "intron" \
            else (read[0][1] + d, read[-1][0] - d)
        cases.append(("overlapping_profile", {"kind": kind, "known": kw["known"], "gene_region": kw["gene_region"], "read": read,
                                              "mapped": mapped, "polya": kw["polya"], "polyt": kw["polyt"], "d": d,
                                              "abs_d": kw.get("abs_d", 0)}))
    # loci with >= 128 known features (the model's sweep has no size threshold; a threshold in the code shows up here)
    for op, kw in big_locus_profile_cases(rng, 4 if quick else 40):
        blocks = kw["blocks"]
        d = kw["d"]
        if op == "intron_profile":
            read = [(blocks[i][1] + 1, blocks[i + 1][0] - 1) for i in range(len(blocks) - 1)]
            cases.append(("overlapping_profile", {"kind": "intron", "known": kw["known"], "gene_region": kw["gene_region"], "read": read,
                                                  "mapped": (blocks[0][0], blocks[-1][1]), "polya": kw["polya"], "polyt": kw["polyt"],
                                                  "d": d, "abs_d": 20}))
        else:
            cases.append(("overlapping_profile", {"kind": "exon", "known": kw["known"], "gene_region": kw["gene_region"], "read": blocks,
                                                  "mapped": (blocks[0][1] + d, blocks[-1][0] - d), "polya": kw["polya"],
                                                  "polyt": kw["polyt"], "d": d, "abs_d": 0}))
    # genome-scale random
    for _ in range(100 if quick else 1000):
        known = sorted(set(rand_sd_list(rng, rng.randint(1, 12), 10 ** 6) + rand_sd_list(rng, rng.randint(0, 5), 10 ** 6)))
        base = rand_sd_list(rng, rng.randint(1, 10), 10 ** 6)
        read = perturb(rng, known if rng.random() < 0.7 else base)
        if not is_sd(read):
            read = base
        d = rng.choice([0, 4, 6, 12])
        cases.append(("overlapping_profile", {"kind": rng.choice(["intron", "exon"]), "known": known,
                                              "gene_region": (known[0][0], max(k[1] for k in known)), "read": read,
                                              "mapped": (read[0][0], read[-1][1]), "polya": rng.choice([-1, read[-1][1]]),
                                              "polyt": rng.choice([-1, read[0][0]]), "d": d, "abs_d": 20}))
    return cases



def big_locus(rng, n_exons=None):
    """a gene cluster with >= 128 distinct annotated introns (big genes / clusters of overlapping genes: seed C01_a4 - the
    code under test must not treat large feature lists differently from small ones): a base chain of n exons plus
    exon-skipping introns and alternative donor / acceptor sites (so introns OVERLAP each other and many share a start or
    an end).  -> (exons of the base isoform, sorted distinct known exons, sorted distinct known introns)"""
    n = n_exons or rng.randint(100, 260)
    pos = rng.randint(1000, 50000)
    base = []
    for _ in range(n):
        ln = rng.randint(60, 300)
        base.append((pos, pos + ln - 1))
        pos += ln + rng.randint(90, 2500)
    introns = {(base[i][1] + 1, base[i + 1][0] - 1) for i in range(n - 1)}
    exons = set(base)
    for i in range(n - 2):
        x = rng.random()
        if x < 0.25:            # exon i+1 skipped
            introns.add((base[i][1] + 1, base[i + 2][0] - 1))
        elif x < 0.45:          # alternative donor: exon i shorter / longer
            sh = rng.choice([-40, -21, -12, -3, 3, 9, 30])
            e = (base[i][0], base[i][1] + sh)
            if e[0] + 10 < e[1] and e[1] + 30 < base[i + 1][0]:
                exons.add(e)
                introns.add((e[1] + 1, base[i + 1][0] - 1))
        elif x < 0.6:           # alternative acceptor
            sh = rng.choice([-30, -9, -3, 3, 12, 21, 40])
            e = (base[i + 1][0] + sh, base[i + 1][1])
            if e[0] + 10 < e[1] and base[i][1] + 30 < e[0]:
                exons.add(e)
                introns.add((base[i][1] + 1, e[0] - 1))
    return base, sorted(exons), sorted(introns)


def big_locus_profile_cases(rng, n_loci):
    """(exon_profile | intron_profile, kw) in the format of gen/c13_features.profile_cases on loci with 128..400+ known
    features.  Reads per locus: a chain of 2-6 base exons (ends perturbed within / beyond delta); a read that STARTS inside
    an annotated intron (20..400 retained bases in front of the next exon) and its mirror (ends inside an intron); an
    unspliced read inside an intron, across an exon, across an exon and both flanking introns; a read that skips an exon"""
    cases = []
    for _ in range(n_loci):
        base, exons, introns = big_locus(rng)
        while len(introns) < 128:
            base, exons, introns = big_locus(rng, rng.randint(140, 260))
        gr = (exons[0][0], max(e[1] for e in exons))
        n = len(base)
        reads = []
        for _r in range(2):
            i = rng.randint(0, n - 7)
            j = i + rng.randint(1, 5)
            ch = list(base[i:j + 1])
            ch[0] = (ch[0][0] + rng.choice([0, 3, 25]), ch[0][1])
            ch[-1] = (ch[-1][0], ch[-1][1] - rng.choice([0, 3, 25]))
            reads.append(ch)
        i = rng.randint(1, n - 6)
        j = i + rng.randint(0, 3)
        ret = rng.choice([20, 21, 35, 80, 300, 400])
        gap = base[i][0] - base[i - 1][1] - 1
        ret = min(ret, gap - 5)
        reads.append([(base[i][0] - ret, base[i][1])] + list(base[i + 1:j + 1]))                      # starts inside intron i-1
        gap = base[j + 1][0] - base[j][1] - 1
        reads.append(list(base[i:j]) + [(base[j][0], base[j][1] + min(rng.choice([20, 40, 300]), gap - 5))])   # ends inside intron j
        k = rng.randint(0, n - 2)
        a, b = base[k][1] + 1, base[k + 1][0] - 1
        reads.append([(a + 5, min(b - 5, a + 5 + rng.randint(30, 600)))])                               # inside an intron
        reads.append([(base[k][0] - min(40, 20), base[k][1] + 30)])                                     # across an exon, into both introns
        k = rng.randint(0, n - 4)
        reads.append([base[k], base[k + 2], base[k + 3]])                                               # exon k+1 skipped
        for blocks in reads:
            blocks = [b_ for b_ in blocks if b_[0] <= b_[1]]
            if not blocks or not all(blocks[x][1] + 1 < blocks[x + 1][0] for x in range(len(blocks) - 1)):
                continue
            d = rng.choice([0, 4, 6])
            pa = rng.choice([-1, -1, blocks[-1][1]])
            pt = rng.choice([-1, -1, blocks[0][0]])
            cases.append(("exon_profile", {"known": exons, "gene_region": gr, "d": d, "blocks": blocks, "polya": pa, "polyt": pt}))
            cases.append(("intron_profile", {"known": introns, "gene_region": gr, "d": d, "abs_d": 20, "blocks": blocks,
                                             "polya": pa, "polyt": pt}))
    return cases


_WIDE = {}


def wide_read_profile_cases(rng, n):
    """(exon_profile | intron_profile, kw) in the format of gen/c13_features.profile_cases, outside its pools (audit-2 G6):
    1-4 known features over 1..9, 1-4 gapped read blocks over 1..14, delta 0..3, abs_d 0..5, polyA / polyT anywhere in 0..15,
    gene region = hull of the known features or wider"""
    U = 9
    if "ivs" not in _WIDE:
        _WIDE["ivs"] = [(a, b) for a in range(1, U + 1) for b in range(a, U + 1)]
        _WIDE["blocks"] = [l for l in all_sd_lists(U, 3) if l and all(l[i][1] + 1 < l[i + 1][0] for i in range(len(l) - 1))]
    ivs, blocks_all = _WIDE["ivs"], _WIDE["blocks"]
    cases = []
    while len(cases) < n:
        known = sorted(rng.sample(ivs, rng.choice([1, 2, 3, 3, 4])))
        if rng.random() < 0.3:
            pts = sorted(rng.sample(range(1, U + 6), 8))
            blocks = [(pts[0], pts[1]), (pts[2], pts[3]), (pts[4], pts[5]), (pts[6], pts[7])]
            if not all(blocks[i][1] + 1 < blocks[i + 1][0] for i in range(3)):
                continue
        else:
            blocks = rng.choice(blocks_all)
        d = rng.choice([0, 1, 2, 3])
        gr = (min(known[0][0], 1) - rng.choice([0, 0, 3]), max(k[1] for k in known) + rng.choice([0, 0, 5]))
        pa = rng.choice([-1, -1, rng.randint(0, U + 6)])
        pt = rng.choice([-1, -1, rng.randint(0, U + 6)])
        op = rng.choice(["exon_profile", "intron_profile"])
        kw = {"known": known, "gene_region": gr, "d": d, "blocks": blocks, "polya": pa, "polyt": pt}
        if op == "intron_profile":
            kw["abs_d"] = rng.choice([0, 1, 2, 3, 5])
        cases.append((op, kw))
    return cases


def _split_exons_py(exons):
    """atoms of an exon arrangement (independent recomputation: maximal runs of positions with the same covering exon set,
    cut at every exon start and after every exon end)"""
    cuts = sorted({e[0] for e in exons} | {e[1] + 1 for e in exons})
    res = []
    for a, b in zip(cuts, cuts[1:]):
        if any(e[0] <= a and b - 1 <= e[1] for e in exons):
            res.append((a, b - 1))
    return res


def nonoverlapping_profile_cases(rng, quick):
    cases = []
    U = 7
    sds = [l for l in all_sd_lists(U, 3) if l]
    n = 1500 if quick else 12000
    for _ in range(n):
        known = rng.choice(sds)
        read = rng.choice(sds)
        cases.append(("nonoverlapping_profile", {"known": known, "read": read, "polya": rng.choice([-1, -1, rng.randint(0, U + 1)]),
                                                 "polyt": rng.choice([-1, -1, rng.randint(0, U + 1)]),
                                                 "d": rng.choice([0, 1]), "min_ov": rng.choice([1, 2, 3])}))
    for _ in range(100 if quick else 1000):
        known = rand_sd_list(rng, rng.randint(1, 20), 10 ** 6)
        read = perturb(rng, known)
        cases.append(("nonoverlapping_profile", {"known": known, "read": read, "polya": rng.choice([-1, read[-1][1]]),
                                                 "polyt": rng.choice([-1, read[0][0]]), "d": rng.choice([0, 6]), "min_ov": 5}))
    # audit-2 G3: pipeline-like - split exons of a random annotation (touching blocks, 3-bp exons, 1-bp introns), reads from an
    # isoform with jitter / extension beyond the gene / an extra block far upstream, min_ov 5, delta of the data types, polyA and
    # polyT anywhere around the gene
    n2 = 0
    while n2 < (400 if quick else 6000):
        base = rng.randint(1, 10 ** 6)
        p = base
        ex0 = []
        for _ in range(rng.randint(1, 8)):
            ln = rng.choice([3, 8, 30, 120, 400])
            ex0.append((p, p + ln - 1))
            p += ln + rng.choice([1, 2, 7, 60, 900])
        isos = [ex0]
        for _ in range(rng.randint(0, 3)):
            e2 = [(a + rng.choice([0, 0, 2, -3, 10]), b + rng.choice([0, 0, -2, 4, 15])) for a, b in ex0 if rng.random() > 0.2]
            e2 = [e for e in e2 if e[0] <= e[1]]
            if e2 and all(e2[i][1] < e2[i + 1][0] for i in range(len(e2) - 1)):
                isos.append(e2)
        known = _split_exons_py(sorted({e for t in isos for e in t}))
        src = rng.choice(isos)
        read = [(a + rng.choice([0, 0, 1, -2, 5, -7]), b + rng.choice([0, 0, -1, 2, -5, 7])) for a, b in src if rng.random() > 0.15] or [src[0]]
        if rng.random() < 0.3:
            read = [(read[0][0] - rng.choice([10, 500]), read[0][1])] + read[1:]
        if rng.random() < 0.3:
            read = read[:-1] + [(read[-1][0], read[-1][1] + rng.choice([10, 500]))]
        if rng.random() < 0.1:
            read = [(base - 2000, base - 1500)] + read
        read = [e for e in read if e[0] <= e[1]]
        if not read or not all(read[i][1] + 1 < read[i + 1][0] for i in range(len(read) - 1)) or read[0][0] < 1:
            continue
        n2 += 1
        cases.append(("nonoverlapping_profile", {"known": known, "read": read, "d": rng.choice([0, 4, 6, 12]), "min_ov": 5,
                                                 "polya": rng.choice([-1, read[-1][1], read[-1][1], rng.randint(max(1, base - 100), p + 100)]),
                                                 "polyt": rng.choice([-1, read[0][0], rng.randint(max(1, base - 100), p + 100)])}))
    return cases
