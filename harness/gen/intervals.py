"""Seeded generators for intervals, sorted disjoint interval lists, exon sets and profile cases."""
import itertools


def rand_iv(rng, maxc, wf=True):
    a = rng.randint(0, maxc)
    b = a + rng.choice([0, 1, 2, 5, 100, 10000]) if wf else rng.randint(0, maxc)
    return (a, b)


def is_sd(l):
    """sorted, well formed, pairwise disjoint"""
    l = [tuple(x) for x in l]
    return all(a <= b for a, b in l) and all(l[i][1] < l[i + 1][0] for i in range(len(l) - 1))


def span(l):
    return l[-1][1] - l[0][0] + 1 if l else 0


_cache = {}


def all_sd_lists(U, maxlen):
    """all sorted disjoint lists of <= maxlen well-formed intervals over 1..U (touching intervals included)"""
    key = (U, maxlen)
    if key in _cache:
        return _cache[key]
    ivs = [(a, b) for a in range(1, U + 1) for b in range(a, U + 1)]
    res = [[]]
    frontier = [[]]
    for _ in range(maxlen):
        nxt = []
        for l in frontier:
            last = l[-1][1] if l else 0
            for iv in ivs:
                if iv[0] > last:
                    nxt.append(l + [iv])
        res += nxt
        frontier = nxt
    _cache[key] = res
    return res


def rand_sd_list(rng, n, maxc):
    """n sorted disjoint intervals with genome-like sizes"""
    pos = rng.randint(1, max(1, maxc // 2))
    l = []
    for _ in range(n):
        ln = rng.choice([1, 2, 10, 50, 150, 1000])
        l.append((pos, pos + ln - 1))
        pos += ln + rng.choice([0, 0, 1, 2, 50, 5000]) + (0 if rng.random() < 0.3 else 1)
    return l


def perturb(rng, l):
    """a list similar to l: jitter, drop, merge"""
    out = []
    for a, b in l:
        r = rng.random()
        if r < 0.1:
            continue
        da = rng.choice([0, 0, 0, 1, -1, 3])
        db = rng.choice([0, 0, 0, 1, -1, 3])
        a2, b2 = a + da, b + db
        if a2 > b2:
            a2, b2 = a, b
        if out and a2 <= out[-1][1]:
            a2 = out[-1][1] + 1
            if a2 > b2:
                continue
        out.append((max(1, a2), max(1, a2, b2)))
    return out or [l[0]]


def rand_point(rng, l):
    a, b = rng.choice(l)
    return rng.choice([a, b, a - 1, b + 1, (a + b) // 2, l[0][0] - 5, l[-1][1] + 5, rng.randint(l[0][0], l[-1][1])])


def all_exon_sets(U, maxn):
    """all multisets-free lists of <= maxn distinct well-formed exons over 1..U (any overlap pattern)"""
    ivs = [(a, b) for a in range(1, U + 1) for b in range(a, U + 1)]
    res = []
    for n in range(1, maxn + 1):
        for c in itertools.combinations(ivs, n):
            res.append(list(c))
    return res


def rand_exon_set(rng, n, maxc):
    s = set()
    base = rng.randint(1, maxc)
    for _ in range(n):
        a = base + rng.randint(0, 3000)
        s.add((a, a + rng.choice([0, 1, 5, 80, 200, 900])))
    return sorted(s)


# ---- profile cases -------------------------------------------------------------------------------

def isoform_profile_cases(rng, quick):
    cases = []
    U = 6 if quick else 7
    # intron-like: features = sorted distinct intervals (may overlap); transcript features = sorted disjoint subset
    ivs = [(a, b) for a in range(1, U + 1) for b in range(a, U + 1)]
    for n in range(1, 4):
        combos = list(itertools.combinations(ivs, n))
        if quick and len(combos) > 400:
            combos = rng.sample(combos, 400)
        for feats in combos:
            feats = sorted(feats)
            # choose subsets that are pairwise disjoint
            for k in range(0, n + 1):
                for sub in itertools.combinations(feats, k):
                    if is_sd(list(sub)):
                        region = (sub[0][0] - 1, sub[-1][1] + 1) if sub else (rng.randint(1, U), rng.randint(1, U) + 1)
                        cases.append(("isoform_profile", {"features": feats, "tf": list(sub), "region": region, "cmp": "equal"}))
    # split-exon-like: features = sd list, transcript exons = sd list of unions of features
    for l in all_sd_lists(U, 3):
        if not l:
            continue
        for k in range(1, len(l) + 1):
            for sub in itertools.combinations(l, k):
                tf = merge_touching(list(sub))
                cases.append(("isoform_profile", {"features": l, "tf": tf, "region": (tf[0][0], tf[-1][1]), "cmp": "contains"}))
    return cases


def merge_touching(l):
    out = []
    for a, b in l:
        if out and out[-1][1] + 1 == a:
            out[-1] = (out[-1][0], b)
        else:
            out.append((a, b))
    return out


def overlapping_profile_cases(rng, quick):
    cases = []
    U = 7
    sds = all_sd_lists(U, 2 if quick else 3)
    ivs = [(a, b) for a in range(1, U + 1) for b in range(a, U + 1)]
    known_sets = []
    for n in range(1, 3):
        known_sets += [sorted(c) for c in itertools.combinations(ivs, n)]
    if quick:
        known_sets = rng.sample(known_sets, 120)
    else:
        known_sets = rng.sample(known_sets, 400)
    for known in known_sets:
        for read in (rng.sample(sds, 25) if quick else rng.sample(sds, 60)):
            if not read:
                continue
            for d in (0, 1):
                for kind in ("intron", "exon"):
                    mapped = (read[0][0] - rng.randint(0, 2), read[-1][1] + rng.randint(0, 2)) if kind == "intron" \
                        else (read[0][1] + d, read[-1][0] - d)
                    polya = rng.choice([-1, -1, -1, rng.randint(1, U)])
                    polyt = rng.choice([-1, -1, -1, rng.randint(1, U)])
                    cases.append(("overlapping_profile", {"kind": kind, "known": known, "gene_region": (known[0][0], max(k[1] for k in known)),
                                                          "read": read, "mapped": mapped, "polya": polya, "polyt": polyt,
                                                          "d": d, "abs_d": rng.choice([0, 1, 2])}))
    # genome-scale random
    for _ in range(100 if quick else 1000):
        known = sorted(set(rand_sd_list(rng, rng.randint(1, 12), 10 ** 6) + rand_sd_list(rng, rng.randint(0, 5), 10 ** 6)))
        base = rand_sd_list(rng, rng.randint(1, 10), 10 ** 6)
        read = perturb(rng, known if rng.random() < 0.7 else base)
        if not is_sd(read):
            read = base
        d = rng.choice([0, 4, 6, 12])
        cases.append(("overlapping_profile", {"kind": rng.choice(["intron", "exon"]), "known": known,
                                              "gene_region": (known[0][0], max(k[1] for k in known)), "read": read,
                                              "mapped": (read[0][0], read[-1][1]), "polya": rng.choice([-1, read[-1][1]]),
                                              "polyt": rng.choice([-1, read[0][0]]), "d": d, "abs_d": 20}))
    return cases


def nonoverlapping_profile_cases(rng, quick):
    cases = []
    U = 7
    sds = [l for l in all_sd_lists(U, 3) if l]
    n = 1500 if quick else 12000
    for _ in range(n):
        known = rng.choice(sds)
        read = rng.choice(sds)
        cases.append(("nonoverlapping_profile", {"known": known, "read": read, "polya": rng.choice([-1, -1, rng.randint(0, U + 1)]),
                                                 "polyt": rng.choice([-1, -1, rng.randint(0, U + 1)]),
                                                 "d": rng.choice([0, 1]), "min_ov": rng.choice([1, 2, 3])}))
    for _ in range(100 if quick else 1000):
        known = rand_sd_list(rng, rng.randint(1, 20), 10 ** 6)
        read = perturb(rng, known)
        cases.append(("nonoverlapping_profile", {"known": known, "read": read, "polya": rng.choice([-1, read[-1][1]]),
                                                 "polyt": rng.choice([-1, read[0][0]]), "d": rng.choice([0, 6]), "min_ov": 5}))
    return cases
