"""Seeded generators for C09 (read grouping, grouped count tables).  Everything random comes from the rng passed in."""
import itertools

STRATEGIES = ["unique_only", "with_ambiguous", "unique_splicing_consistent", "unique_inconsistent", "all"]
FORMATS = ["matrix", "linear", "both"]
RAT = ["unique", "noninformative", "intergenic", "ambiguous", "unique_minor_difference", "inconsistent",
       "inconsistent_non_intronic", "inconsistent_ambiguous", "suspended"]

# characters that may occur in group names / read ids at the counter level (no tab / newline: they cannot be
# told apart from the TSV structure of the output files)
NAME_ALPHABET = "abcABC019_-.:=| é中"


def group_names(rng, n):
    """n distinct group names: short strings that collide in prefix / case / digits, 'NA', sometimes the empty name"""
    pool = ["NA", "na", "A", "a", "B", "b", "10", "9", "1", "cell1", "cell10", "cell2", "Z", "_", "é", "g 1", "中", "a.b", "a:b",
            "count", "counts_A", "account"]
    res = []
    seen = set()
    if n > 3 and rng.random() < 0.15:
        res.append("")
        seen.add("")
    while len(res) < n:
        if pool and rng.random() < 0.5:
            g = pool.pop(rng.randrange(len(pool)))
        else:
            g = "".join(rng.choice(NAME_ALPHABET) for _ in range(rng.randint(1, 6)))
        if g not in seen:
            seen.add(g)
            res.append(g)
    rng.shuffle(res)
    return res


def feature_names(rng, n):
    return ["T%d" % i for i in rng.sample(range(1, 10 * n + 10), n)]


def info_call(rng, groups, feats, malformed=False):
    """a read assignment as add_read_info sees it; mostly well-formed (unique => one feature)"""
    r = rng.random()
    g = rng.choice(groups)
    base = {"k": "info", "present": True, "raw_type": "unique", "has_matches": True, "first_none": False,
            "features": [], "atype": "unique", "confirms": False, "group": g}
    if r < 0.03:
        base["present"] = False
        return base
    if r < 0.07:
        base["raw_type"] = rng.choice(["noninformative", "intergenic"])
        base["atype"] = base["raw_type"]
        return base
    if r < 0.09:
        base["has_matches"] = False
        return base
    if r < 0.11:
        base["first_none"] = True
        return base
    kind = rng.random()
    if kind < 0.5:
        base["atype"] = rng.choice(["unique", "unique_minor_difference"])
        base["features"] = [rng.choice(feats)] if not (malformed and rng.random() < 0.3) else []
        base["confirms"] = rng.random() < 0.7
    elif kind < 0.75:
        base["atype"] = "ambiguous"
        k = rng.choice([1, 2, 2, 3, 4]) if not (malformed and rng.random() < 0.3) else 0
        base["features"] = rng.sample(feats, min(k, len(feats)))
    elif kind < 0.95:
        base["atype"] = rng.choice(["inconsistent", "inconsistent_non_intronic", "inconsistent_ambiguous"])
        k = rng.choice([1, 1, 2, 3])
        if base["atype"] == "inconsistent_ambiguous":
            k = rng.choice([2, 3]) if not (malformed and rng.random() < 0.5) else 0
        base["features"] = rng.sample(feats, min(k, len(feats)))
    else:
        base["atype"] = "suspended"
        base["features"] = [rng.choice(feats)]
    base["raw_type"] = base["atype"] if rng.random() < 0.8 else rng.choice(["unique", "ambiguous", "inconsistent"])
    return base


def raw_call(rng, groups, feats):
    r = rng.random()
    g = rng.choice(groups)
    if r < 0.05:
        return {"k": "raw", "has_id": False, "features": [rng.choice(feats)], "group": g}
    if r < 0.12:
        return {"k": "raw", "has_id": True, "features": [], "group": g}
    if r < 0.75:
        return {"k": "raw", "has_id": True, "features": [rng.choice(feats)], "group": g}
    k = rng.choice([2, 2, 3, 5])
    fs = [rng.choice(feats) for _ in range(k)] if rng.random() < 0.1 else rng.sample(feats, min(k, len(feats)))
    return {"k": "raw", "has_id": True, "features": fs, "group": g}


def counter_case(rng, n_groups, n_feats, n_calls, malformed=False, style=None):
    groups = group_names(rng, n_groups)
    feats = feature_names(rng, n_feats)
    style = style or rng.choice(["info", "raw", "mixed"])
    calls = []
    call_groups = list(groups)
    if n_groups > 2 and rng.random() < 0.5:
        # groups of the universe that no read of this chromosome carries
        call_groups = rng.sample(groups, rng.randint(1, n_groups - 1))
    if malformed and groups:
        call_groups = call_groups + ["<not-in-universe>"]
    for _ in range(n_calls):
        r = rng.random()
        if r < 0.04:
            calls.append({"k": "confirm", "features": rng.sample(feats, min(len(feats), rng.randint(0, 3)))})
        elif style == "info" or (style == "mixed" and r < 0.55):
            calls.append(info_call(rng, call_groups, feats, malformed))
        else:
            calls.append(raw_call(rng, call_groups, feats))
    if style != "info" and rng.random() < 0.8:
        # transcript-model counters confirm everything they count
        calls.append({"k": "confirm", "features": rng.sample(feats, rng.randint(0, len(feats)))})
    return {"rg": groups, "strategy": rng.choice(STRATEGIES),
            "all_features": rng.sample(feats, rng.randint(0, len(feats))) if rng.random() < 0.6 else [],
            "output_zeroes": rng.random() < 0.6, "fmt": rng.choice(FORMATS), "calls": calls, "twin": True}


def small_counter_universe():
    """exhaustive small universe: ≤2 groups x ≤2 features x all call streams of length ≤2 over a call alphabet"""
    groups_opts = [["a"], ["b", "a"], ["NA", "B"]]
    alpha = []
    for g in ("a", "b", "NA", "B"):
        alpha.append({"k": "raw", "has_id": True, "features": ["T1"], "group": g})
        alpha.append({"k": "raw", "has_id": True, "features": ["T1", "T2"], "group": g})
        alpha.append({"k": "info", "present": True, "raw_type": "unique", "has_matches": True, "first_none": False,
                      "features": ["T2"], "atype": "unique", "confirms": True, "group": g})
        alpha.append({"k": "info", "present": True, "raw_type": "ambiguous", "has_matches": True, "first_none": False,
                      "features": ["T1", "T2"], "atype": "ambiguous", "confirms": False, "group": g})
    alpha.append({"k": "confirm", "features": ["T1"]})
    cases = []
    for groups in groups_opts:
        al = [c for c in alpha if c["k"] == "confirm" or c["group"] in groups]
        for n in (0, 1, 2):
            for seq in itertools.product(al, repeat=n):
                for strategy in ("unique_only", "with_ambiguous"):
                    for oz in (True, False):
                        cases.append({"rg": groups, "strategy": strategy, "all_features": ["T1"], "output_zeroes": oz,
                                      "fmt": "both", "calls": list(seq), "twin": True})
    return cases


# ---- groupers ---------------------------------------------------------------------------------------------------

def read_id(rng, delim, groups):
    """read ids with / without the delimiter, delimiter at the ends, repeated delimiters"""
    body = "".join(rng.choice("abcxyz0189-/") for _ in range(rng.randint(1, 8)))
    r = rng.random()
    if r < 0.2:
        return body
    if r < 0.3:
        return body + delim                      # empty suffix
    if r < 0.35:
        return delim + body
    if r < 0.45:
        return body + delim + delim + rng.choice(groups)
    parts = [body] + [rng.choice(groups + ["x", "1"]) for _ in range(rng.randint(1, 3))]
    return delim.join(parts)


def alignment(rng, mode, groups, delim="_", tag="CB", names=None, files=None):
    a = {"name": "r%d" % rng.randrange(10 ** 6), "tags": [], "file": None}
    if mode == "read_id":
        a["name"] = read_id(rng, delim, groups)
    if mode == "tag":
        r = rng.random()
        if r < 0.7:
            a["tags"].append([tag, rng.choice(groups)])
        elif r < 0.8:
            a["tags"].append([tag, rng.randint(-3, 12)])      # integer tag (HP:i:1)
        if rng.random() < 0.5:
            a["tags"].append(["XX", "other"])
    if mode == "table":
        a["name"] = rng.choice(names) if rng.random() < 0.8 else "unlisted%d" % rng.randrange(100)
    if mode == "file_name":
        r = rng.random()
        a["file"] = rng.choice(files) if r < 0.8 else (None if r < 0.9 else ("" if r < 0.93 else "/x/unknown.bam"))
    return a


def table_lines(rng, names, groups, delim="\t", rc=0, gc=1):
    """lines of a read-group table: mostly valid rows, comments, blank lines, short rows, duplicates, padding"""
    lines = []
    ncols = max(rc, gc) + 1 + rng.randint(0, 2)
    for nm in names:
        r = rng.random()
        if r < 0.08:
            lines.append("# " + nm)
            continue
        if r < 0.12:
            lines.append(rng.choice(["", "   ", "\t"]))
        cols = ["c%d" % i for i in range(ncols)]
        cols[rc] = nm
        if gc != rc:
            cols[gc] = rng.choice(groups)
        if r > 0.92:
            cols = cols[:max(rc, gc)]                # too short: skipped
        line = delim.join(cols)
        if rng.random() < 0.15:
            line = rng.choice([" ", "\t", "  "]) + line + rng.choice(["", " ", "\r"])
        lines.append(line)
        if rng.random() < 0.07:
            cols2 = list(cols)
            if len(cols2) > gc:
                cols2[gc] = rng.choice(groups)
            lines.append(delim.join(cols2))          # duplicate read id: the later row wins
    return lines


def all_strings(alphabet, maxlen):
    for n in range(maxlen + 1):
        for t in itertools.product(alphabet, repeat=n):
            yield "".join(t)


def profile_case(rng, n_groups, n_feats, n_reads, malformed=False):
    """reads for ExonCounter / IntronCounter: gene profiles over a few genes whose features may share ids"""
    groups = [g for g in group_names(rng, n_groups)]
    genes = []
    for _ in range(rng.randint(1, 3)):
        k = rng.randint(1, n_feats)
        genes.append(["f%d" % rng.randint(1, n_feats + 2) for _ in range(k)])
    reads = []
    for _ in range(n_reads):
        fids = rng.choice(genes)
        prof = [rng.choice([1, 1, -1, 0, 0, -2]) for _ in fids]
        if malformed and rng.random() < 0.3:
            prof = prof + [1]                       # profile longer than the property map: IndexError
        reads.append({"valid": rng.random() < 0.93, "profile": prof, "fids": fids, "group": rng.choice(groups)})
    return {"ignore": False, "reads": reads}
