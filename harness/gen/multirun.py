"""Runs of the real pipeline for C10: one invocation with several experiments (list / YAML file) versus
stand-alone single-experiment runs, and the comparison of their per-experiment output files.

Everything lives in a scratch directory made by the caller.  Pipeline runs are independent processes, so they are
started through a small thread pool.
"""
import os
import re
from concurrent.futures import ThreadPoolExecutor

import pipeline as P
from gen import samples as S

HEADER_RE = re.compile(r"^# Command line|IsoQuant version|^# IsoQuant")


def common_args(paths, cfg):
    a = ["--reference", paths["ref"], "--data_type", cfg.get("data_type", "nanopore"), "--no_gzip"]
    if cfg.get("genedb", True):
        a += ["--genedb", paths["gtf"], "--complete_genedb"]
    if cfg.get("strategy"):
        a += ["--model_construction_strategy", cfg["strategy"]]
    if cfg.get("polya_requirement"):
        a += ["--polya_requirement", cfg["polya_requirement"]]
    if cfg.get("read_group"):
        a += ["--read_group", cfg["read_group"]]
    if cfg.get("count_exons"):
        a += ["--count_exons"]
    if cfg.get("sqanti_output"):
        a += ["--sqanti_output"]
    if cfg.get("high_memory"):
        a += ["--high_memory"]
    a += list(cfg.get("extra", []))
    return a


class Lab:
    """a scratch directory with one world and its experiments' BAM files"""

    def __init__(self, root, world_seed, specs, n_chroms=2):
        self.root = root
        self.world = S.make_world(world_seed, n_chroms=n_chroms)
        self.paths = S.write_world(self.world, os.path.join(root, "data"))
        self.specs = {s["name"]: s for s in specs}
        self.bams = {s["name"]: S.write_experiment(self.world, os.path.join(root, "data"), s) for s in specs}
        # experiments with "illumina": true get a short-read BAM derived from their own long reads (YAML only)
        self.illumina = {}
        for s in specs:
            if s.get("illumina"):
                sb = os.path.join(root, "data", s["name"] + "_short.bam")
                S.write_short_read_bam(self.bams[s["name"]], sb)
                self.illumina[s["name"]] = [sb]
        self.n = 0

    def _out(self, tag):
        self.n += 1
        return os.path.join(self.root, "run%03d_%s" % (self.n, tag))

    def job_history(self, order, threads, cfg, mode="list"):
        tag = "%s_%s_t%d" % (mode, "".join(order), threads)
        out = self._out(tag)
        desc = out + (".txt" if mode == "list" else ".yaml")
        if mode == "list":
            S.write_list_file(desc, order, self.bams)
            a = ["--bam_list", desc]
        else:
            S.write_yaml_file(desc, order, self.bams, self.illumina)
            a = ["--yaml", desc]
        a = ["--threads", str(threads)] + a + ["-p", "X"] + common_args(self.paths, cfg)
        return {"out": out, "args": a, "kind": "history", "order": list(order), "threads": threads, "mode": mode,
                "home": out + "_home"}

    def job_single(self, name, threads, cfg):
        out = self._out("single_%s_t%d" % (name, threads))
        if self.illumina:
            # per-experiment short reads can only be given in a YAML file: the stand-alone run is a one-entry YAML
            desc = out + ".yaml"
            S.write_yaml_file(desc, [name], self.bams, self.illumina)
            a = ["--threads", str(threads), "--yaml", desc, "-p", "X"] + common_args(self.paths, cfg)
            return {"out": out, "args": a, "kind": "single", "order": [name], "threads": threads, "home": out + "_home"}
        a = ["--threads", str(threads), "--bam"] + self.bams[name] + ["-p", name] + common_args(self.paths, cfg)
        return {"out": out, "args": a, "kind": "single", "order": [name], "threads": threads, "home": out + "_home"}


def run_jobs(jobs, wrapper=None, workers=8, env=None):
    def one(j):
        rc, log = P.run_isoquant(j["out"], j["args"], home=j["home"], wrapper=wrapper,
                                 env=dict(env or {}, **j.get("env", {})))
        j["rc"] = rc
        j["log"] = log[-4000:] if rc else ""
        return j
    with ThreadPoolExecutor(max_workers=workers) as ex:
        return list(ex.map(one, jobs))


def exp_files(outdir, name):
    """relative name -> path of every regular file of <out>/<experiment>/ (aux dir excluded: temporary files)"""
    d = os.path.join(outdir, name)
    res = {}
    if not os.path.isdir(d):
        return res
    for fn in sorted(os.listdir(d)):
        p = os.path.join(d, fn)
        if os.path.isfile(p):
            res[fn] = p
    return res


def canon_bytes(path):
    """file content without the command-line / version header lines"""
    with open(path, "rb") as f:
        data = f.read()
    try:
        txt = data.decode()
    except UnicodeDecodeError:
        return data
    return "\n".join(l for l in txt.split("\n") if not HEADER_RE.search(l)).encode()


def first_diff(a, b):
    la, lb = a.decode(errors="replace").split("\n"), b.decode(errors="replace").split("\n")
    for i, (x, y) in enumerate(zip(la, lb)):
        if x != y:
            return "line %d: stand-alone %r | joint %r" % (i + 1, x[:160], y[:160])
    return "length: stand-alone %d lines | joint %d lines" % (len(la), len(lb))


def compare_experiment(single_out, joint_out, name):
    """-> list of (file, what) differences between the stand-alone and the joint run of experiment `name`"""
    fs, fj = exp_files(single_out, name), exp_files(joint_out, name)
    diffs = []
    for fn in sorted(set(fs) | set(fj)):
        if fn not in fj:
            diffs.append((fn, "missing in the joint run"))
        elif fn not in fs:
            diffs.append((fn, "extra file in the joint run"))
        else:
            a, b = canon_bytes(fs[fn]), canon_bytes(fj[fn])
            if a != b:
                diffs.append((fn, first_diff(a, b)))
    if not fs:
        diffs.append(("<dir>", "stand-alone run produced no files"))
    return diffs


COMBINED = [("combined_gene_counts.tsv", ".gene_counts.tsv", "count", False),
            ("combined_gene_tpm.tsv", ".gene_tpm.tsv", "TPM", True),
            ("combined_transcript_counts.tsv", ".transcript_counts.tsv", "count", False),
            ("combined_transcript_tpm.tsv", ".transcript_tpm.tsv", "TPM", True)]


def read_tsv(path):
    with open(path) as f:
        rows = [l.rstrip("\n").split("\t") for l in f if l.strip() != ""]
    return rows[0], rows[1:]


def check_combined(joint_out, order):
    """the combined_* tables contain exactly the per-experiment columns of the individual tables (values compared
    numerically: the combined file is written by pandas, e.g. 3.0 / 3.000000 -> 3.0)"""
    problems = []
    for comb, suffix, col, full in COMBINED:
        cp = os.path.join(joint_out, comb)
        if not os.path.exists(cp):
            problems.append((comb, "missing"))
            continue
        hdr, rows = read_tsv(cp)
        if hdr != ["#feature_id"] + list(order):
            problems.append((comb, "header %s, expected the experiment names %s" % (hdr, list(order))))
            continue
        if len(set(r[0] for r in rows)) != len(rows):
            problems.append((comb, "duplicate feature rows"))
        table = {r[0]: r[1:] for r in rows}
        allfeat = set()
        for k, nm in enumerate(order):
            ip = os.path.join(joint_out, nm, nm + suffix)
            ih, irows = read_tsv(ip)
            if not full:
                irows = irows[:-3]
            indiv = {r[0]: r[1] for r in irows}
            allfeat |= set(indiv)
            for feat, v in indiv.items():
                got = table.get(feat, [None] * len(order))[k]
                if got is None or got == "" or abs(float(got) - float(v)) > 1e-9:
                    problems.append((comb, "%s/%s: combined %r, individual %r" % (feat, nm, got, v)))
                    break
            for feat, vals in table.items():
                if feat not in indiv and vals[k] != "":
                    problems.append((comb, "%s/%s: combined has %r, individual table has no such row" % (feat, nm, vals[k])))
                    break
        if set(table) != allfeat:
            problems.append((comb, "row set differs from the union of the individual tables"))
    return problems
