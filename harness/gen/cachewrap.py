"""C20 — wrapper that runs the REAL isoquant.py main in this process with a cross-process step token around the
accesses to the per-user config files (active only under ABLAB_ISOQUANT_VERIF=1; nothing is edited in /repo).

    VERIF_C20_SCHED_DIR   directory shared by the simultaneously started processes: sched.json (list of pids),
                          pos (index of the next slot), done.<pid> markers, trace.txt
    VERIF_C20_PID         this process's id in the schedule

barrier(label): wait until the next slot of the schedule names this process (slots of processes that have finished
their cache phase or exited are skipped); when the schedule is exhausted everybody runs freely.
Barrier points: os.path.exists / open(..,'w') / close / open(..,'r') / os.replace on a config file,
gtf2db.find_converted_db, the conversion gtf2db.gtf2db; with VERIF_C20_HOLD_USE=1 also "use": after convert_gtf_to_db has
returned the database the run goes on to use (C20Stable).
"""
import atexit
import builtins
import fcntl
import json
import os
import sys
import time

REPO = os.environ.get("VERIF_REPO", "/repo")
sys.path.insert(0, REPO)
SDIR = os.environ.get("VERIF_C20_SCHED_DIR")
ME = int(os.environ.get("VERIF_C20_PID", "0"))
MAIN_PID = os.getpid()
CONFIG_NAMES = ["db_config.json", "index_config.json", "bed_config.json", "alignment_config.json"]
_real_open = builtins.open
_free = [False]


def _locked():
    f = _real_open(os.path.join(SDIR, "lock"), "a+")
    fcntl.flock(f, fcntl.LOCK_EX)
    return f


def _read_pos():
    try:
        with _real_open(os.path.join(SDIR, "pos")) as f:
            return int(f.read().strip() or 0)
    except (OSError, ValueError):
        return 0


def _write_pos(v):
    with _real_open(os.path.join(SDIR, "pos"), "w") as f:
        f.write(str(v))


def mark_done():
    if os.getpid() != MAIN_PID or not SDIR:
        return
    try:
        with _real_open(os.path.join(SDIR, "done.%d" % ME), "w") as f:
            f.write("1")
    except OSError:
        pass


def barrier(label, fid):
    if _free[0] or not SDIR or os.getpid() != MAIN_PID or os.environ.get("ABLAB_ISOQUANT_VERIF") != "1":
        return
    with _real_open(os.path.join(SDIR, "sched.json")) as f:
        sched = json.load(f)
    t0 = time.time()
    while True:
        lk = _locked()
        try:
            pos = _read_pos()
            while pos < len(sched) and sched[pos] != ME and os.path.exists(os.path.join(SDIR, "done.%d" % sched[pos])):
                pos += 1
            _write_pos(pos)
            if pos >= len(sched):
                _free[0] = True
                with _real_open(os.path.join(SDIR, "trace.txt"), "a") as f:
                    f.write("%d %s %d free\n" % (ME, label, fid))
                return
            if sched[pos] == ME:
                _write_pos(pos + 1)
                with _real_open(os.path.join(SDIR, "trace.txt"), "a") as f:
                    f.write("%d %s %d\n" % (ME, label, fid))
                return
        finally:
            fcntl.flock(lk, fcntl.LOCK_UN)
            lk.close()
        if time.time() - t0 > 120:      # never hang a run: give up the token discipline
            _free[0] = True
            return
        time.sleep(0.003)


def install():
    import isoquant as IQ
    import src.gtf2db as G
    import src.read_mapper as RM
    cfg_dir = os.path.join(os.environ["HOME"], ".config", "IsoQuant")
    ids = {os.path.join(cfg_dir, n): i for i, n in enumerate(CONFIG_NAMES)}

    def fid(p):
        try:
            return ids.get(os.path.abspath(os.fspath(p)))
        except TypeError:
            return None

    class WriteProxy:
        def __init__(self, fobj, f):
            self._f, self._file = fobj, f

        def write(self, s):
            return self._f.write(s)

        def close(self):
            if not self._f.closed:
                barrier("write", self._file)
                self._f.close()

        def __enter__(self):
            return self

        def __exit__(self, *a):
            self.close()
            return False

        def __getattr__(self, name):
            return getattr(self._f, name)

    def wrapped_open(path, mode="r", *a, **kw):
        f = fid(path) if isinstance(path, (str, os.PathLike)) else None
        if f is None:
            return _real_open(path, mode, *a, **kw)
        if "w" in mode:
            barrier("openW", f)
            return WriteProxy(_real_open(path, mode, buffering=1 << 22), f)
        barrier("load", f)
        return _real_open(path, mode, *a, **kw)

    class PathProxy:
        def __getattr__(self, name):
            return getattr(os.path, name)

        def exists(self, p):
            f = fid(p)
            if f is not None:
                barrier("exists", f)
            return os.path.exists(p)

    class OsProxy:
        path = PathProxy()

        def __getattr__(self, name):
            return getattr(os, name)

        def replace(self, src, dst, **kw):
            f = fid(dst)
            if f is not None:
                barrier("replace", f)
            return os.replace(src, dst, **kw)

    osp = OsProxy()
    for mod in (IQ, G, RM):
        mod.open = wrapped_open
        mod.os = osp
    orig_fcd = G.find_converted_db

    def find_converted_db(*a, **kw):
        barrier("lookup", 0)
        return orig_fcd(*a, **kw)
    G.find_converted_db = find_converted_db
    orig_gtf2db = G.gtf2db

    def gtf2db(*a, **kw):
        barrier("produce", 0)
        return orig_gtf2db(*a, **kw)
    G.gtf2db = gtf2db
    orig_conv = IQ.convert_gtf_to_db

    def convert_gtf_to_db(args):
        try:
            r = G.convert_gtf_to_db(args)
            if os.environ.get("VERIF_C20_HOLD_USE") == "1":
                # C20Stable: one more barrier between the moment the run took its database (cache hit or own conversion)
                # and the moment it goes on to use it (every worker opens that path); only for cases that ask for it, so
                # the slot counts of the other schedules are unchanged
                barrier("use", 0)
            return r
        finally:
            mark_done()          # the cache phase of this run is over
    IQ.convert_gtf_to_db = convert_gtf_to_db
    return IQ


if __name__ == "__main__":
    atexit.register(mark_done)
    IQ = install()
    try:
        IQ.main(sys.argv[1:])
    except SystemExit:
        raise
    except BaseException:
        import traceback
        traceback.print_exc()
        mark_done()
        sys.exit(255)
