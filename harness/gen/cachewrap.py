"""C20 — wrapper that runs the REAL isoquant.py main in this process with a cross-process step token around the
accesses to the per-user config files (active only under ABLAB_ISOQUANT_VERIF=1; nothing is edited in /repo).

    VERIF_C20_SCHED_DIR   directory shared by the simultaneously started processes: sched.json (list of pids),
                          pos (index of the next slot), done.<pid> markers, trace.txt
    VERIF_C20_PID         this process's id in the schedule

barrier(label): wait until the next slot of the schedule names this process (slots of processes that have finished
their cache phase or exited are skipped); when the schedule is exhausted everybody runs freely.
A slot is a pid (that process performs ONE step) or [pid, label] (that process performs steps up to and including the
barrier `label`) or [pid, label, "arrive"] (… up to the barrier `label`, at which it stays waiting for a later slot).
Barrier points: os.path.exists / open(..,'w') / close / open(..,'r') / os.replace on a config file,
gtf2db.find_converted_db, the conversion gtf2db.gtf2db; with VERIF_C20_HOLD_USE=1 also "use": after convert_gtf_to_db has
returned the database the run goes on to use (C20Stable).
Optional barrier points (each only when its variable is set, so the slot counts of the other schedules are unchanged):
    VERIF_C20_START_BARRIER=1  "start": before isoquant.main, i.e. before set_configs_directory (a run that STARTS while
                               another one is in the middle of a store)
    VERIF_C20_HOLD_FAI=1       the REAL pyfaidx under the token: "faiOpenW" / "faiWrite" (open(<...fai...>,'w') and the close
                               of that handle: pyfaidx fills the index at close) / "faiLoad" (open for reading), and
                               "refLoad" / "refLoaded" around DatasetProcessor.__init__ (the cache phase of the run ends
                               at refLoaded instead of at the end of convert_gtf_to_db)
    VERIF_C20_HOLD_DB=1        "dbMid": inside the REAL gffutils.create_db, after the records were inserted and before
                               the relations / indices are built (the file exists and is not a complete database)
    VERIF_C20_HOLD_AT=<label>, VERIF_C20_HOLD_FOR=<pid>: having been released at barrier <label> this process waits until
                               process <pid> has exited (a writer held inside its critical section for the whole life of
                               a reader)
Every barrier that gives up (120 s) and every hold that times out (300 s) is written to trace.txt as `GAVEUP` / `HOLDTIMEOUT`
and counted by the harness.
"""
import atexit
import builtins
import fcntl
import json
import os
import sys
import time

REPO = os.environ.get("VERIF_REPO", "/repo")
sys.path.insert(0, REPO)
SDIR = os.environ.get("VERIF_C20_SCHED_DIR")
ME = int(os.environ.get("VERIF_C20_PID", "0"))
MAIN_PID = os.getpid()
CONFIG_NAMES = ["db_config.json", "index_config.json", "bed_config.json", "alignment_config.json"]
_real_open = builtins.open
_free = [False]


def _locked():
    f = _real_open(os.path.join(SDIR, "lock"), "a+")
    fcntl.flock(f, fcntl.LOCK_EX)
    return f


def _read_pos():
    try:
        with _real_open(os.path.join(SDIR, "pos")) as f:
            return int(f.read().strip() or 0)
    except (OSError, ValueError):
        return 0


def _write_pos(v):
    with _real_open(os.path.join(SDIR, "pos"), "w") as f:
        f.write(str(v))


def mark_done():
    if os.getpid() != MAIN_PID or not SDIR:
        return
    try:
        with _real_open(os.path.join(SDIR, "done.%d" % ME), "w") as f:
            f.write("1")
    except OSError:
        pass


def _slot_pid(s):
    return s if isinstance(s, int) else s[0]


def _trace(text):
    with _real_open(os.path.join(SDIR, "trace.txt"), "a") as f:
        f.write(text + "\n")


def _hold_after(label):
    """VERIF_C20_HOLD_AT / _FOR: stay where we are until the named process has exited"""
    if os.environ.get("VERIF_C20_HOLD_AT") != label:
        return
    other = os.environ.get("VERIF_C20_HOLD_FOR", "")
    t0 = time.time()
    while not os.path.exists(os.path.join(SDIR, "exit.%s" % other)):
        if time.time() - t0 > 300:
            lk = _locked()
            try:
                _trace("%d %s -1 HOLDTIMEOUT" % (ME, label))
            finally:
                fcntl.flock(lk, fcntl.LOCK_UN)
                lk.close()
            return
        time.sleep(0.01)


def barrier(label, fid):
    if not SDIR or os.getpid() != MAIN_PID or os.environ.get("ABLAB_ISOQUANT_VERIF") != "1":
        return
    if not _free[0]:
        _barrier(label, fid)
    _hold_after(label)


def _barrier(label, fid):
    with _real_open(os.path.join(SDIR, "sched.json")) as f:
        sched = json.load(f)
    t0 = time.time()
    arrived = False
    while True:
        lk = _locked()
        try:
            pos = _read_pos()
            while pos < len(sched) and _slot_pid(sched[pos]) != ME and \
                    os.path.exists(os.path.join(SDIR, "done.%d" % _slot_pid(sched[pos]))):
                pos += 1
            _write_pos(pos)
            if pos >= len(sched):
                _free[0] = True
                _trace("%d %s %d free" % (ME, label, fid))
                return
            s = sched[pos]
            if s == ME:
                _write_pos(pos + 1)
                _trace("%d %s %d" % (ME, label, fid))
                return
            if not isinstance(s, int) and s[0] == ME:
                if s[1] != label:                # a step on the way to the named barrier
                    _trace("%d %s %d" % (ME, label, fid))
                    return
                if len(s) > 2 and s[2] == "arrive":
                    if not arrived:              # the slot is consumed by the arrival; this process keeps waiting
                        arrived = True
                        _write_pos(pos + 1)
                        _trace("%d %s %d arrived" % (ME, label, fid))
                else:
                    _write_pos(pos + 1)
                    _trace("%d %s %d" % (ME, label, fid))
                    return
        finally:
            fcntl.flock(lk, fcntl.LOCK_UN)
            lk.close()
        if time.time() - t0 > 120:      # never hang a run: give up the token discipline (counted by the harness)
            _free[0] = True
            lk = _locked()
            try:
                _trace("%d %s %d GAVEUP" % (ME, label, fid))
            finally:
                fcntl.flock(lk, fcntl.LOCK_UN)
                lk.close()
            return
        time.sleep(0.003)


def mark_exit():
    if os.getpid() != MAIN_PID or not SDIR:
        return
    try:
        with _real_open(os.path.join(SDIR, "exit.%d" % ME), "w") as f:
            f.write("1")
    except OSError:
        pass


def install():
    import isoquant as IQ
    import src.gtf2db as G
    import src.read_mapper as RM
    cfg_dir = os.path.join(os.environ["HOME"], ".config", "IsoQuant")
    ids = {os.path.join(cfg_dir, n): i for i, n in enumerate(CONFIG_NAMES)}

    def fid(p):
        try:
            return ids.get(os.path.abspath(os.fspath(p)))
        except TypeError:
            return None

    class WriteProxy:
        def __init__(self, fobj, f, label="write"):
            self._f, self._file, self._label = fobj, f, label

        def write(self, s):
            return self._f.write(s)

        def close(self):
            if not self._f.closed:
                barrier(self._label, self._file)
                self._f.close()

        def __enter__(self):
            return self

        def __exit__(self, *a):
            self.close()
            return False

        def __getattr__(self, name):
            return getattr(self._f, name)

    def wrapped_open(path, mode="r", *a, **kw):
        f = fid(path) if isinstance(path, (str, os.PathLike)) else None
        if f is None:
            return _real_open(path, mode, *a, **kw)
        if "w" in mode:
            barrier("openW", f)
            return WriteProxy(_real_open(path, mode, buffering=1 << 22), f)
        barrier("load", f)
        return _real_open(path, mode, *a, **kw)

    gdb = os.environ.get("VERIF_C20_GDB")        # a --genedb_output folder shared by the runs of the case

    def is_gdb(p):
        try:
            return gdb is not None and os.path.abspath(os.fspath(p)) == os.path.abspath(gdb)
        except TypeError:
            return False

    class PathProxy:
        def __getattr__(self, name):
            return getattr(os.path, name)

        def exists(self, p):
            f = fid(p)
            if f is not None:
                barrier("exists", f)
            elif is_gdb(p):
                barrier("gdbExists", 8)
            return os.path.exists(p)

    class OsProxy:
        path = PathProxy()

        def __getattr__(self, name):
            return getattr(os, name)

        def makedirs(self, p, *a, **kw):
            if is_gdb(p):
                barrier("gdbMkdir", 8)
            return os.makedirs(p, *a, **kw)

        def replace(self, src, dst, **kw):
            f = fid(dst)
            if f is not None:
                barrier("replace", f)
            return os.replace(src, dst, **kw)

    osp = OsProxy()
    for mod in (IQ, G, RM):
        mod.open = wrapped_open
        mod.os = osp
    orig_fcd = G.find_converted_db

    def find_converted_db(*a, **kw):
        barrier("lookup", 0)
        return orig_fcd(*a, **kw)
    G.find_converted_db = find_converted_db
    orig_gtf2db = G.gtf2db

    def gtf2db(*a, **kw):
        barrier("produce", 0)
        return orig_gtf2db(*a, **kw)
    G.gtf2db = gtf2db
    orig_conv = IQ.convert_gtf_to_db

    hold_fai = os.environ.get("VERIF_C20_HOLD_FAI") == "1"

    def convert_gtf_to_db(args):
        try:
            r = G.convert_gtf_to_db(args)
            if os.environ.get("VERIF_C20_HOLD_USE") == "1":
                # C20Stable: one more barrier between the moment the run took its database (cache hit or own conversion)
                # and the moment it goes on to use it (every worker opens that path); only for cases that ask for it, so
                # the slot counts of the other schedules are unchanged
                barrier("use", 0)
            return r
        finally:
            if not hold_fai:
                mark_done()          # the cache phase of this run is over
    IQ.convert_gtf_to_db = convert_gtf_to_db

    if os.environ.get("VERIF_C20_HOLD_DB") == "1":
        # a hold point INSIDE the real gffutils.create_db: the records are in the file, relations and indices are not
        import gffutils.create as GC
        for cls in (GC._GTFDBCreator, GC._GFFDBCreator):
            def mk(orig):
                def _update_relations(self, *a, **kw):
                    barrier("dbMid", 0)
                    return orig(self, *a, **kw)
                return _update_relations
            cls._update_relations = mk(cls._update_relations)

    if hold_fai:
        # the real pyfaidx under the token: its module-level name `open` is the one _open_fai uses
        import pyfaidx
        import src.dataset_processor as DP

        def fai_open(path, mode="r", *a, **kw):
            if not (isinstance(path, (str, os.PathLike)) and ".fai" in os.path.basename(os.fspath(path))):
                return _real_open(path, mode, *a, **kw)
            if "w" in mode:
                barrier("faiOpenW", 9)
                return WriteProxy(_real_open(path, mode, *a, **kw), 9, "faiWrite")
            barrier("faiLoad", 9)
            return _real_open(path, mode, *a, **kw)
        pyfaidx.open = fai_open
        orig_init = DP.DatasetProcessor.__init__

        def dp_init(self, *a, **kw):
            barrier("refLoad", 9)
            try:
                return orig_init(self, *a, **kw)
            finally:
                barrier("refLoaded", 9)
                mark_done()
        DP.DatasetProcessor.__init__ = dp_init
    return IQ


if __name__ == "__main__":
    atexit.register(mark_done)
    atexit.register(mark_exit)
    IQ = install()
    try:
        if os.environ.get("VERIF_C20_START_BARRIER") == "1":
            barrier("start", -1)
        IQ.main(sys.argv[1:])
    except SystemExit:
        raise
    except BaseException:
        import traceback
        traceback.print_exc()
        mark_done()
        sys.exit(255)
