"""Seeded generators for C14 (corrected alignments): isoform families, noisy reads derived from them, event lists
(well-formed + malformed stream), error-count tables, strategy flags, BED block lists, short-read junction sets."""

FLAG_NAMES = ["fuzzy_junctions", "intron_shifts", "skipped_exons", "terminal_exons", "fake_terminal_exons",
              "microintron_retention"]

TERMINAL = ["fake_terminal_exon_left", "fake_terminal_exon_right", "terminal_exon_misalignment_left",
            "terminal_exon_misalignment_right"]
MISALIGN = ["intron_shift", "exon_misalignment"]
OTHER = ["intron_retention", "extra_intron_novel", "alt_left_site_novel", "alt_right_site_known", "exon_skipping_novel",
         "intron_alternation_novel", "fsm", "ism_left", "mono_exonic", "exon_elongation_left", "incomplete_intron_retention_left"]

ABSENT = (1 << 31) - 1
UNDEF = (1 << 31)


def rand_exons(rng, n, start=None, small=False):
    """sorted exon list with gaps >= 2 (so that every junction is an intron)"""
    p = start if start is not None else rng.randint(1, 50 if small else 5000)
    ex = []
    for _ in range(n):
        ln = rng.randint(1, 6) if small else rng.choice([rng.randint(1, 8), rng.randint(20, 300)])
        ex.append((p, p + ln - 1))
        p += ln + (rng.randint(2, 7) if small else rng.choice([rng.randint(2, 12), rng.randint(50, 900)]))
    return ex


def isoform_family(rng, small=False):
    """1..4 isoforms over a shared exon pool (exon skipping, alternative sites)"""
    base = rand_exons(rng, rng.randint(2, 7), small=small)
    fam = [base]
    for _ in range(rng.randint(0, 3)):
        e = list(base)
        kind = rng.random()
        if kind < 0.4 and len(e) > 2:
            del e[rng.randint(1, len(e) - 2)]
        elif kind < 0.8:
            i = rng.randint(0, len(e) - 1)
            a, b = e[i]
            if rng.random() < 0.5 and i > 0:
                a = max(e[i - 1][1] + 2, a + rng.randint(-5, 5))
            elif i + 1 < len(e):
                b = min(e[i + 1][0] - 2, b + rng.randint(-5, 5))
            if a <= b:
                e[i] = (a, b)
        else:
            e = e[:max(2, rng.randint(1, len(e)))]
        if gapped(e) and e not in fam:
            fam.append(e)
    return fam


def gapped(ex):
    return bool(ex) and all(a <= b for a, b in ex) and all(ex[i][1] + 1 < ex[i + 1][0] for i in range(len(ex) - 1))


def introns_of(ex):
    return [(ex[i][1] + 1, ex[i + 1][0] - 1) for i in range(len(ex) - 1) if ex[i][1] + 1 < ex[i + 1][0]]


def noisy_read(rng, iso, delta, small=False):
    """read exons derived from an isoform: site jitter within/around delta, skipped exon, fake terminal micro-exon,
    retained micro intron, truncation"""
    e = [list(x) for x in iso]
    if len(e) > 2 and rng.random() < 0.3:
        k = rng.randint(0, len(e) - 2)
        e = e[k:]
    if len(e) > 2 and rng.random() < 0.3:
        e = e[:rng.randint(2, len(e))]
    for i in range(len(e)):
        if i > 0 and rng.random() < 0.5:
            e[i][0] += rng.randint(-delta - 2, delta + 2)
        if i + 1 < len(e) and rng.random() < 0.5:
            e[i][1] += rng.randint(-delta - 2, delta + 2)
    if len(e) > 2 and rng.random() < 0.25:
        del e[rng.randint(1, len(e) - 2)]          # skipped (micro-)exon
    if len(e) > 1 and rng.random() < 0.2:          # merge two exons (intron retention)
        k = rng.randint(0, len(e) - 2)
        e[k] = [e[k][0], e[k + 1][1]]
        del e[k + 1]
    if rng.random() < 0.25:                        # fake terminal micro-exon
        ln = rng.randint(1, 5)
        gap = rng.randint(2, 40)
        if rng.random() < 0.5:
            s = e[0][0] - gap - ln
            if s >= 1:
                e.insert(0, [s, s + ln - 1])
        else:
            s = e[-1][1] + gap + 1
            e.append([s, s + ln - 1])
    e[0][0] += rng.randint(-3, 10)
    e[-1][1] += rng.randint(-10, 3)
    out = [(a, b) for a, b in e]
    # repair to a gapped list (the domain of read_exons)
    res = []
    for a, b in out:
        if a > b:
            continue
        if res and a <= res[-1][1] + 1:
            if b > res[-1][1]:
                res[-1] = (res[-1][0], b)
            continue
        res.append((a, b))
    if not res or res[0][0] < 1:
        return [(max(1, iso[0][0]), iso[0][1])] if iso[0][1] >= 1 else [(1, 2)]
    return res


def rand_flags(rng, presets):
    if rng.random() < 0.7:
        return dict(rng.choice(presets)[1])
    return {k: rng.random() < 0.5 for k in FLAG_NAMES}


def rand_err_table(rng, n):
    def one():
        return [rng.choice([0, 0, 0, 1, 2]), rng.choice([0, 0, 1, 1, 2, 3])]
    return [[one(), one()] for _ in range(n)]


def rand_event(rng, n_read, n_iso, known_types, malformed=False):
    """one MatchEvent description {t, iso, read}; regions are index ranges of read / isoform introns"""
    r = rng.random()
    if r < 0.30:
        t = rng.choice(TERMINAL)
    elif r < 0.50:
        t = rng.choice(MISALIGN)
    elif r < 0.62:
        t = "fake_micro_intron_retention"
    elif r < 0.82:
        t = rng.choice(known_types)
    else:
        t = rng.choice(OTHER)

    def idx_range(n, single):
        if n == 0:
            return (0, 0)
        a = rng.randint(0, n - 1)
        b = a if single or rng.random() < 0.6 else rng.randint(a, n - 1)
        return (a, b)

    single = t in TERMINAL or t in MISALIGN and rng.random() < 0.9
    read = idx_range(n_read, single)
    iso = idx_range(n_iso, t in TERMINAL)
    if t == "fake_micro_intron_retention" or (t in ("intron_retention",) and rng.random() < 0.7):
        read = (ABSENT, rng.randint(0, n_read))
    if t in ("fake_terminal_exon_left",) and rng.random() < 0.8:
        read = (0, 0)
        iso = ((1 << 30) - 1, (1 << 30) - 1)
    if t in ("fake_terminal_exon_right",) and rng.random() < 0.8:
        read = (max(0, n_read - 1), max(0, n_read - 1))
        iso = ((1 << 30) + 1, (1 << 30) + 1)
    if t == "terminal_exon_misalignment_left" and rng.random() < 0.8:
        read, iso = (0, 0), (0, 0)
    if t == "terminal_exon_misalignment_right" and rng.random() < 0.8:
        read, iso = (max(0, n_read - 1),) * 2, (max(0, n_iso - 1),) * 2
    if rng.random() < 0.04:
        read = (UNDEF, UNDEF)
    if malformed:
        m = rng.random()
        if m < 0.25:
            read = (read[0], read[0] - rng.randint(1, 3)) if read[0] != ABSENT else read       # rr1 < rr0
        elif m < 0.45:
            read = (read[0], read[1] + rng.randint(1, 3) + n_read) if read[0] != ABSENT else (ABSENT, n_read + 3)
        elif m < 0.6:
            read = (-rng.randint(1, n_read + 2), rng.randint(0, max(0, n_read - 1)))
        elif m < 0.8:
            iso = (rng.randint(-n_iso - 2, n_iso + 2), rng.randint(-n_iso - 2, n_iso + 2))
        else:
            iso = (ABSENT, rng.randint(0, max(0, n_iso - 1)))
    return {"t": t, "iso": list(iso), "read": list(read)}


def rand_events(rng, n_read, n_iso, known_types, malformed=False):
    k = rng.choice([0, 1, 1, 2, 2, 3, 4])
    evs = [rand_event(rng, n_read, n_iso, known_types, malformed and rng.random() < 0.5) for _ in range(k)]
    if n_iso > 0 and rng.random() < 0.25:
        # several isoform micro introns retained in ONE read exon (JunctionComparator emits one event per isoform intron,
        # in ascending order), in any exon: the first (0), an inner one, the LAST (n_read: no read intron follows it)
        ex = rng.choice([0, n_read, rng.randint(0, n_read)])
        a = rng.randint(0, n_iso - 1)
        burst = [{"t": "fake_micro_intron_retention", "iso": [j, j], "read": [ABSENT, ex]}
                 for j in range(a, min(n_iso, a + rng.choice([1, 2, 2, 3])))]
        pos = rng.randint(0, len(evs))
        evs = evs[:pos] + burst + evs[pos:]
    return evs


def corrector_case(rng, presets, known_types, small=False, malformed=False):
    delta = rng.choice([0, 1, 2, 4, 6, 12]) if not small else rng.choice([0, 1, 2, 3])
    fam = isoform_family(rng, small)
    iso = rng.choice(fam)
    if len(iso) < 2:
        iso = fam[0]
    read = noisy_read(rng, iso, delta, small)
    n_read = len(introns_of(read))
    n_iso = len(introns_of(iso))
    return {"family": [[list(e) for e in t] for t in fam], "iso_index": fam.index(iso), "exons": [list(e) for e in read],
            "delta": delta, "flags": rand_flags(rng, presets), "err": rand_err_table(rng, n_read),
            "events": rand_events(rng, n_read, n_iso, known_types, malformed),
            "noninformative": rng.random() < 0.05, "no_match": rng.random() < 0.05}


def rand_blocks(rng, malformed=False):
    n = rng.randint(1, 8)
    ex = rand_exons(rng, n, small=rng.random() < 0.5)
    if malformed:
        r = rng.random()
        if r < 0.3:
            return []
        if r < 0.6:
            rng.shuffle(ex)
        else:
            i = rng.randint(0, len(ex) - 1)
            ex[i] = (ex[i][1] + 1, ex[i][0] - 1)
    return ex


def illumina_case(rng):
    """read exons + a set of short-read introns near / around the read's introns"""
    ex = rand_exons(rng, rng.randint(2, 7), small=rng.random() < 0.3)
    intr = introns_of(ex)
    short = set()
    for (a, b) in intr:
        r = rng.random()
        if r < 0.3:
            short.add((a, b))
        elif r < 0.55:
            short.add((a, b + 4) if rng.random() < 0.5 else (a - 4, b))
        elif r < 0.75:
            # two short introns that split the read intron around a skipped exon
            if b - a > 12:
                m1 = rng.randint(a + 2, b - 6)
                m2 = min(b - 2, m1 + rng.randint(1, 60))
                if m1 < m2:
                    short.add((a + rng.choice([0, 0, 3, -3]), m1))
                    short.add((m2 + 1, b + rng.choice([0, 0, 5, -5])))
        elif r < 0.9:
            short.add((a + rng.randint(-30, 30), b + rng.randint(-30, 30)))
    for _ in range(rng.randint(0, 3)):
        a = rng.randint(max(1, ex[0][0] - 50), ex[-1][1] + 50)
        short.add((a, a + rng.randint(1, 400)))
    short = {(a, b) for a, b in short if 1 <= a <= b}
    return {"exons": [list(e) for e in ex], "short": sorted(list(s) for s in short)}


# ------------------------------------------------------------------------------------------------
# synthetic pipeline data: genes with micro-exons / micro-introns / close alternative sites, noisy reads

def _gene_exons(rng, start, n, chrom_len):
    ex = []
    p = start
    for i in range(n):
        r = rng.random()
        if 0 < i < n - 1 and r < 0.25:
            ln = rng.randint(4, 40)            # micro-exon
        elif r < 0.32 and (i == 0 or i == n - 1):
            ln = rng.randint(8, 45)            # short terminal exon
        else:
            ln = rng.randint(70, 320)
        if p + ln - 1 > chrom_len:
            break
        ex.append((p, p + ln - 1))
        g = rng.randint(20, 50) if rng.random() < 0.15 else rng.randint(70, 900)   # micro-intron / intron
        p += ln + g
    return ex


def _variants(rng, ex):
    """isoforms of one gene: full, exon skipping, close alternative splice sites (within / just beyond delta)"""
    txs = [list(ex)]
    if len(ex) >= 4 and rng.random() < 0.7:
        k = rng.randint(1, len(ex) - 2)
        txs.append(ex[:k] + ex[k + 1:])
    if len(ex) >= 3 and rng.random() < 0.7:
        k = rng.randint(1, len(ex) - 1)
        d = rng.choice([-9, -5, -3, 3, 4, 7, 11])
        a, b = ex[k]
        if a + d > ex[k - 1][1] + 2 and a + d <= b - 2:
            txs.append(ex[:k] + [(a + d, b)] + ex[k + 1:])
    if len(ex) >= 3 and rng.random() < 0.5:
        k = rng.randint(0, len(ex) - 2)
        d = rng.choice([-8, -4, 4, 6, 10])
        a, b = ex[k]
        if b + d < ex[k + 1][0] - 2 and b + d >= a + 2:
            txs.append(ex[:k] + [(a, b + d)] + ex[k + 1:])
    res = []
    for t in txs:
        if t not in res and gapped(t) and len(t) >= 2:
            res.append(t)
    return res


def _noisy_read_exons(rng, iso, delta, chrom_len):
    e = [list(x) for x in iso]
    tags = []
    tiny = _tiny_terminal(rng, e, delta)
    if tiny is not None:
        return tiny
    if len(e) > 3 and rng.random() < 0.25:
        e = e[rng.randint(1, len(e) - 3):]
        tags.append("trunc5")
    if len(e) > 3 and rng.random() < 0.25:
        e = e[:rng.randint(3, len(e))]
        tags.append("trunc3")
    # skipped micro-exons / retained micro-introns
    i = 1
    while i < len(e) - 1:
        if e[i][1] - e[i][0] + 1 <= 50 and rng.random() < 0.45:
            del e[i]
            tags.append("skip_micro_exon")
        else:
            i += 1
    i = 0
    while i < len(e) - 1:
        if e[i + 1][0] - e[i][1] - 1 <= 50 and rng.random() < 0.5:
            e[i] = [e[i][0], e[i + 1][1]]
            del e[i + 1]
            tags.append("retain_micro_intron")
        else:
            i += 1
    # splice-site noise
    for i in range(len(e) - 1):
        r = rng.random()
        if r < 0.12:
            d = rng.choice([-1, 1]) * rng.randint(delta + 1, 40)       # intron shift (both sites, same direction)
            e[i][1] += d
            e[i + 1][0] += d
            tags.append("intron_shift")
        else:
            if rng.random() < 0.4:
                e[i][1] += rng.choice([-1, 1]) * rng.randint(1, delta + 3)
                tags.append("jitter")
            if rng.random() < 0.4:
                e[i + 1][0] += rng.choice([-1, 1]) * rng.randint(1, delta + 3)
                tags.append("jitter")
    # terminal exon misalignment: the terminal exon is placed further away with (almost) the same length
    if len(e) >= 3 and rng.random() < 0.12:
        ln = e[0][1] - e[0][0] + 1
        s = rng.randint(ln + 5, ln + 300)
        e[0] = [e[0][0] - s, e[0][1] - s + rng.randint(-3, 3)]
        tags.append("terminal_misalign_left")
    if len(e) >= 3 and rng.random() < 0.12:
        ln = e[-1][1] - e[-1][0] + 1
        s = rng.randint(ln + 5, ln + 300)
        e[-1] = [e[-1][0] + s + rng.randint(-3, 3), e[-1][1] + s]
        tags.append("terminal_misalign_right")
    # ragged ends
    e[0][0] += rng.randint(0, 30)
    e[-1][1] -= rng.randint(0, 30)
    # fake terminal micro-exons
    if rng.random() < 0.18:
        ln = rng.randint(3, 35)
        gap = rng.randint(40, 400)
        e.insert(0, [e[0][0] - gap - ln, e[0][0] - gap - 1])
        tags.append("fake_terminal_left")
    if rng.random() < 0.18:
        ln = rng.randint(3, 35)
        gap = rng.randint(40, 400)
        e.append([e[-1][1] + gap + 1, e[-1][1] + gap + ln])
        tags.append("fake_terminal_right")
    res = []
    for a, b in e:
        a, b = max(1, a), min(chrom_len, b)
        if a > b:
            continue
        if res and a <= res[-1][1] + 1:
            if b > res[-1][1]:
                res[-1] = (res[-1][0], b)
            continue
        res.append((a, b))
    return res, tags


def _tiny_terminal(rng, e, delta):
    """a few terminal bases aligned on the wrong side of an annotated intron: a terminal exon shorter than delta whose
    intron lies within delta of the annotated one (the read bases there do not match the reference)"""
    if len(e) < 3 or rng.random() > 0.08:
        return None
    x = rng.randint(0, 2)
    ln = rng.randint(1, 4)
    if rng.random() < 0.5:
        k = rng.randint(1, len(e) - 2)
        t = [e[k + 1][0] - x - ln, e[k + 1][0] - 1 - x]
        if t[0] <= e[k][1] + 2:
            return None
        ex = [tuple(b) for b in e[:k + 1]] + [tuple(t)]
        ex[0] = (ex[0][0] + rng.randint(0, 20), ex[0][1])
        if ex[0][0] > ex[0][1]:
            return None
        return ex, ["tiny_terminal_right"]
    k = rng.randint(1, len(e) - 2)
    t = [e[k - 1][1] + 1 + x, e[k - 1][1] + x + ln]
    if t[1] >= e[k][0] - 2:
        return None
    ex = [tuple(t)] + [tuple(b) for b in e[k:]]
    ex[-1] = (ex[-1][0], ex[-1][1] - rng.randint(0, 20))
    if ex[-1][0] > ex[-1][1]:
        return None
    return ex, ["tiny_terminal_left"]


def _read_cigar_seq(rng, ref, exons, sub_rate, junction_noise, scramble=(), poly=None):
    """CIGAR (M/I/D/N) and query sequence for a read following `exons`; substitutions everywhere at `sub_rate`,
    extra substitutions / indels within 6 bp of the splice sites with probability `junction_noise`"""
    cig = []
    seq = []
    for i, (a, b) in enumerate(exons):
        if i > 0:
            cig.append((3, a - exons[i - 1][1] - 1))
        s = list(ref[a - 1:b])
        ln = len(s)
        if i in scramble:
            s = [rng.choice([c for c in "ACGT" if c != x]) for x in s]
        if poly and i in poly:
            # an aligned polyA tail / polyT head: the whole block is A (T), no noise
            cig.append((0, ln))
            seq += [poly[i]] * ln
            continue
        for j in range(ln):
            near = (i > 0 and j < 6) or (i + 1 < len(exons) and j >= ln - 6)
            pr = sub_rate + (junction_noise * 0.25 if near else 0.0)
            if rng.random() < pr:
                s[j] = rng.choice([c for c in "ACGT" if c != s[j]])
        ops = [(0, ln)]
        if ln >= 14 and rng.random() < junction_noise:
            # one small indel 3..6 bp away from one end of the block
            at = rng.randint(3, 6) if rng.random() < 0.5 else ln - rng.randint(3, 6)
            k = rng.randint(1, 2)
            if rng.random() < 0.5:   # deletion of k reference bases: drop them from the query
                del s[at:at + k]
                ops = [(0, at), (2, k), (0, ln - at - k)]
            else:                    # insertion of k bases
                s[at:at] = list("C" * k)
                ops = [(0, at), (1, k), (0, ln - at)]
        cig += ops
        seq += s
    return cig, "".join(seq)


def cigar_string(cig):
    return "".join("%d%s" % (n, "MIDNSHP=X"[op]) for op, n in cig)


def noisy_dataset(seed, delta=6, n_genes=5, reads_per_iso=10, sub_rate=0.01, junction_noise=0.35, polya_exon_rate=0.12):
    """-> (Dataset, truth) ; truth[read name] = dict(chr, exons, iso (transcript id), tags)"""
    from gen import synth
    import random
    ds = synth.Dataset(seed)
    rng = random.Random(seed * 7919 + 13)
    truth = {}
    layout = [("chr1", 42000, n_genes), ("chr2", 9000, 2)]
    rid = 0
    for chrom, clen, ng in layout:
        ds.add_chrom(chrom, clen)
        pos = rng.randint(2, 6)        # the first gene starts next to the chromosome start
        for gi in range(ng):
            last_gene = gi == ng - 1
            ex = _gene_exons(rng, pos, rng.randint(3, 8), clen)
            if len(ex) < 2:
                break
            if last_gene and chrom == "chr2":
                # stretch the last exon to the chromosome end
                ex[-1] = (ex[-1][0], clen - rng.randint(0, 2))
                if ex[-1][0] > ex[-1][1]:
                    ex = ex[:-1]
            strand = rng.choice("+-")
            txs = _variants(rng, ex)
            gid = "G_%s_%d" % (chrom, gi)
            named = [("%s_t%d" % (gid, k), t) for k, t in enumerate(txs)]
            ds.add_gene(chrom, gid, strand, named, plant=True)
            for tid, t in named:
                for _ in range(reads_per_iso):
                    exons, tags = _noisy_read_exons(rng, t, delta, clen)
                    if not exons:
                        continue
                    poly = None
                    head = tail = 0
                    if len(exons) >= 2 and not tags[:1] in (["tiny_terminal_left"], ["tiny_terminal_right"]) \
                            and rng.random() < polya_exon_rate:
                        # the mapper aligned the polyT head (minus-strand transcript) / polyA tail (plus strand) as a
                        # separate small terminal exon; IsoQuant trims such exons before the assignment
                        ln = rng.randint(20, 32)
                        dist = rng.randint(150, 900)
                        if strand == "-":
                            a = exons[0][0] - dist - ln
                            if a >= 1:
                                exons = [(a, a + ln - 1)] + list(exons)
                                poly = {0: "T"}
                                head = 1
                                tags = tags + ["polyT_head_exon"]
                        else:
                            a = exons[-1][1] + dist + 1
                            if a + ln - 1 <= clen:
                                exons = list(exons) + [(a, a + ln - 1)]
                                poly = {len(exons) - 1: "A"}
                                tail = 1
                                tags = tags + ["polyA_tail_exon"]
                    scr = ()
                    if "tiny_terminal_right" in tags:
                        scr = (len(exons) - 1,)
                    elif "tiny_terminal_left" in tags:
                        scr = (0,)
                    if head:
                        scr = tuple(i + 1 for i in scr)
                    cig, seq = _read_cigar_seq(rng, ds.chroms[chrom], exons, sub_rate, junction_noise, scr, poly)
                    name = "r%05d" % rid
                    rid += 1
                    flag = 16 if rng.random() < 0.5 else 0
                    if head:
                        flag = 16
                    if tail:
                        flag = 0
                    ds.add_read(name, chrom, exons[0][0] - 1, cigar_string(cig), flag=flag, seq=seq)
                    truth[name] = {"chr": chrom, "exons": [list(x) for x in exons], "iso": tid, "tags": tags,
                                   "polyt_head_exons": head, "polya_tail_exons": tail}
            pos = ex[-1][1] + rng.randint(600, 2500)
            if pos > clen - 400:
                break
    return ds, truth


# ------------------------------------------------------------------------------------------------
# pipeline data for the short-read (Illumina) corrector: unannotated spliced loci + a short-read BAM of junction reads

def illumina_dataset(seed, n_loci=3, reads_per_locus=10):
    """-> (long-read Dataset, short-read Dataset, truth, short_introns)
    truth[name] = dict(chr, exons, tags, intergenic=True/False); short_introns = {chr: set of (a, b)}"""
    from gen import synth
    import random
    rng = random.Random(seed * 104729 + 7)
    ds = synth.Dataset(seed)
    ds.add_chrom("chr1", 24000)
    gex = [(1001, 1200), (1401, 1520), (1801, 2100)]
    ds.add_gene("chr1", "G1", "+", [("G1_t0", gex)])
    truth = {}
    rid = 0
    for k in range(4):
        name = "g%03d" % k
        ds.read_from_exons(name, "chr1", gex)
        truth[name] = {"chr": "chr1", "exons": [list(e) for e in gex], "tags": ["genic"], "intergenic": False, "iso": "G1_t0"}
    short = set()
    sh = synth.Dataset(seed + 1)
    pos = 5000
    sid = 0
    for li in range(n_loci):
        n = rng.randint(3, 6)
        ex = []
        p = pos
        for i in range(n):
            ln = rng.randint(5, 40) if (0 < i < n - 1 and rng.random() < 0.4) else rng.randint(60, 300)
            ex.append((p, p + ln - 1))
            p += ln + rng.randint(80, 600)
        pos = p + 1500
        if pos > 22000:
            break
        true_introns = introns_of(ex)
        for (a, b) in true_introns:
            short.add((a, b))
        # an alternative short-read junction that skips nothing but overlaps (noise)
        if true_introns and rng.random() < 0.5:
            a, b = rng.choice(true_introns)
            short.add((a, b + rng.choice([7, 11])))
        for _ in range(reads_per_locus):
            e = [list(x) for x in ex]
            tags = []
            r = rng.random()
            if r < 0.3:
                j = rng.randint(0, len(e) - 2)
                if rng.random() < 0.5:
                    e[j + 1][0] -= 4          # read intron ends 4 bp before the short-read junction
                    tags.append("offset4_right")
                else:
                    e[j][1] += 4              # read intron starts 4 bp after the short-read junction
                    tags.append("offset4_left")
            elif r < 0.5:
                cand = [i for i in range(1, len(e) - 1) if e[i][1] - e[i][0] + 1 <= 50]
                if cand:
                    i = rng.choice(cand)
                    del e[i]
                    tags.append("skipped_exon")
                    if rng.random() < 0.5:
                        e[i - 1][1] += rng.choice([0, 3, -3])
            elif r < 0.7:
                ln = rng.randint(1, 4)
                if rng.random() < 0.5:
                    e[-1][1] = e[-1][0] + ln - 1
                    if rng.random() < 0.7:
                        e[-1][0] -= 4
                        e[-1][1] -= 4
                    tags.append("tiny_terminal_right")
                else:
                    e[0][0] = e[0][1] - ln + 1
                    if rng.random() < 0.7:
                        e[0][0] += 4
                        e[0][1] += 4
                    tags.append("tiny_terminal_left")
            elif r < 0.85:
                j = rng.randint(0, len(e) - 2)
                e[j][1] += rng.choice([-2, -1, 1, 2, 5])
                tags.append("jitter")
            exons = [(a, b) for a, b in e if a <= b]
            if not gapped(exons):
                continue
            name = "i%03d" % rid
            rid += 1
            ds.read_from_exons(name, "chr1", exons)
            truth[name] = {"chr": "chr1", "exons": [list(x) for x in exons], "tags": tags, "intergenic": True, "iso": None}
    sh.chroms = ds.chroms
    for (a, b) in sorted(short):
        for _ in range(3):
            la = rng.randint(20, 45)
            lb = rng.randint(20, 45)
            sh.read_from_exons("s%04d" % sid, "chr1", [(a - la, a - 1), (b + 1, b + lb)])
            sid += 1
    return ds, sh, truth, {"chr1": short}


# ------------------------------------------------------------------------------------------------
# IlluminaExonCorrector (Model/Illumina.lean): reads x ORDERED short-read junction lists around the thresholds of the
# two rules (4 bp; 25 bp / 50 bp), tiny terminal and internal exons, ties of both scores

ILL_SIDE = [0, 0, 0, 1, -1, 3, -3, 4, -4, 5, 24, -24, 25, -25, 26, -26, 30, -30]
ILL_MID = [1, 2, 3, 10, 30, 48, 49, 50, 51, 52, 60]


def illumina_exons(rng):
    """block list of a long read: mostly gapped, with tiny (1-4 bp) terminal / internal exons and short introns;
    sometimes two adjacent blocks (outside the domain of the identity clause, still compared)"""
    n = rng.randint(2, 6)
    p = rng.randint(1, 40) if rng.random() < 0.3 else rng.randint(100, 5000)
    ex = []
    gapped = True
    for k in range(n):
        r = rng.random()
        if r < 0.3:
            ln = rng.randint(1, 5)
        elif r < 0.5:
            ln = rng.randint(6, 30)
        else:
            ln = rng.randint(31, 200)
        ex.append((p, p + ln - 1))
        r = rng.random()
        if r < 0.04:
            g = 0
            gapped = False
        elif r < 0.3:
            g = rng.randint(1, 12)
        elif r < 0.6:
            g = rng.randint(13, 80)
        else:
            g = rng.randint(81, 600)
        p += ln + g
    return ex, gapped


def illumina_case2(rng):
    """-> {"exons", "short" (list, enumeration order), "gapped", "wf_short"}"""
    ex, gapped = illumina_exons(rng)
    intr = introns_of(ex)
    short = []
    for (a, b) in intr:
        r = rng.random()
        if r < 0.12:
            short.append((a, b))
        elif r < 0.34:
            short.append(rng.choice([(a, b + 4), (a - 4, b), (a, b + 4), (a - 4, b), (a, b + 3), (a, b + 5), (a - 5, b),
                                     (a - 3, b), (a + 4, b), (a, b - 4), (a - 4, b + 4)]))
            if rng.random() < 0.3:
                short.append(rng.choice([(a, b + 4), (a - 4, b), (a, b), (a + 1, b - 1)]))     # ties / closer competitors
        elif r < 0.72:
            # candidates of the skipped-exon rule: left = (a + dl, m1), right = (m2, b + dr)
            for _ in range(rng.choice([1, 1, 1, 2])):
                dl, dr = rng.choice(ILL_SIDE), rng.choice(ILL_SIDE)
                gap = rng.choice(ILL_MID)
                lo, hi = a + dl, b + dr
                if hi - lo < 3:
                    continue
                m1 = rng.randint(lo, max(lo, hi - 2))
                m2 = m1 + gap
                if rng.random() < 0.8:
                    m2 = min(m2, hi)
                short.append((lo, m1))
                short.append((m2, hi))
            if rng.random() < 0.25:
                short.append(rng.choice([(a, b + 4), (a - 4, b), (a, b)]))
        elif r < 0.85:
            short.append((a + rng.randint(-30, 30), b + rng.randint(-30, 30)))
        elif r < 0.9 and len(intr) > 1:
            (c, d) = rng.choice(intr)
            short.append((min(a, c), max(b, d)))        # spans several read introns
    for _ in range(rng.choice([0, 0, 1, 2, 3])):
        a = rng.randint(max(1, ex[0][0] - 40), ex[-1][1] + 40)
        short.append((a, a + rng.randint(0, 300)))
    wf = True
    if rng.random() < 0.03 and intr:
        a, b = rng.choice(intr)
        m = rng.randint(a, b)
        short.append((m + rng.randint(1, 3), m))      # malformed junction (start > end) that still overlaps
        wf = False
    seen = set()
    out = []
    for s in short:
        if s not in seen:
            seen.add(s)
            out.append(s)
    rng.shuffle(out)
    return {"exons": [list(e) for e in ex], "short": [list(s) for s in out], "ordered": True, "gapped": gapped,
            "wf_short": wf and all(s[0] <= s[1] for s in out)}


def illumina_critical_universe():
    """two read layouts with the junction end points that decide the rules (4 bp, 25 bp, 50 bp, the read ends);
    -> [(exons, [junction, ...])]; the harness enumerates ordered pairs of junctions"""
    res = []
    # read intron 100-200, long terminal exons
    lefts = [74, 75, 76, 96, 99, 100, 101, 104, 124, 125, 126, 150, 179, 180, 181]
    rights = [130, 174, 175, 176, 196, 199, 200, 201, 204, 224, 225, 226]
    res.append(([(50, 99), (201, 260)], [(a, b) for a in lefts for b in rights if a <= b]))
    # terminal exons shorter than the shifts: read 90-99, 201-206
    lefts = [75, 86, 89, 90, 91, 96, 100, 125, 150, 180]
    rights = [130, 175, 196, 200, 204, 205, 206, 207, 225]
    res.append(([(90, 99), (201, 206)], [(a, b) for a in lefts for b in rights if a <= b]))
    return res
