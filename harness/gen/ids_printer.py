"""Seeded generator of GFFPrinter.dump call sequences for C17 (two printers sharing one FeatureIdStorage)."""
from gen import ids as G

FTYPES = ["CDS", "start_codon", "stop_codon", "UTR", "exon", "Selenocysteine"]


def rand_exons(rng):
    k = rng.random()
    n = rng.randint(1, 5)
    pos = rng.randint(1, 40) * 10
    ex = []
    for _ in range(n):
        ln = rng.randint(1, 6) * 10
        ex.append([pos, pos + ln])
        pos += ln + rng.randint(1, 5) * 10
    if k < 0.04:
        return []
    if k < 0.08 and n > 1:
        rng.shuffle(ex)
        return ex
    if k < 0.11:
        ex[0][0] = rng.choice([0, -5])
        return ex
    if k < 0.14:
        i = rng.randrange(n)
        ex[i] = [ex[i][1] + 1, ex[i][0]]
        return ex
    if k < 0.17 and n > 1:
        ex[1] = list(ex[0])      # duplicate block: still "sorted"
        return ex
    return ex


def rand_model(rng, chrom, gene_pool, tcount):
    ex = rand_exons(rng)
    strand = rng.choice(["+", "-", "+", "-", "."])
    other = []
    for _ in range(rng.choice([0, 0, 0, 1, 2, 3])):
        if ex and rng.random() < 0.6:
            e = rng.choice(ex)
            other.append([e[0], e[1], rng.choice(FTYPES)])
        else:
            a = rng.randint(1, 60) * 10
            other.append([a, a + rng.randint(0, 3) * 10, rng.choice(FTYPES)])
    tid = "t%d" % rng.randint(1, 6) if rng.random() < 0.1 else "t%d" % tcount
    return {"chr": chrom if rng.random() < 0.97 else rng.choice(G.CHROMS), "strand": strand, "tid": tid,
            "gid": rng.choice(gene_pool), "exons": ex, "other": other}


def rand_dump_case(rng, records=False):
    """`records`: the reference also carries exon_id on CDS / UTR / codon records; such a record, when reused, is printed
    as an `other_features` entry of the model (that is how reference CDS lines reach the printer)"""
    chrom = rng.choice(G.CHROMS)
    if records:
        feats = G.rand_record_reference(rng, chrom, n_max=6, isoquant_style=0.6)
    else:
        feats = G.rand_exon_reference(rng, chrom, n_max=6, isoquant_style=0.6)
    genedb = None if rng.random() < 0.3 else feats
    gene_pool = ["g%d" % i for i in range(1, rng.randint(2, 5))]
    dumps = []
    tcount = 0
    for _ in range(rng.randint(1, 4)):
        models = []
        for _ in range(rng.choice([0, 1, 2, 3, 4, 6])):
            tcount += 1
            m = rand_model(rng, chrom, gene_pool, tcount)
            if genedb and rng.random() < 0.3 and m["exons"] and all(len(e) == 2 for e in m["exons"]):
                # reuse a reference exon so that reference ids are looked up
                f = rng.choice(feats) if feats else None
                if f and f.get("type", "exon") != "exon":
                    m["other"] = m["other"] + [[f["start"], f["end"], f["type"]]]
                    m["strand"] = f["strand"]
                elif f:
                    m["exons"] = [[f["start"], f["end"]]]
                    m["strand"] = f["strand"]
            models.append(m)
        regions = None
        if rng.random() < 0.5:
            regions = [[g, rng.randint(1, 30) * 10, rng.randint(31, 90) * 10] for g in gene_pool if rng.random() < 0.6]
        dumps.append({"printer": rng.randint(0, 1), "gene_chr": chrom if rng.random() < 0.97 else "other",
                      "gene_regions": regions, "models": models})
    return {"chr": chrom, "genedb": genedb, "dumps": dumps}
