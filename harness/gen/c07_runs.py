"""C07: real-pipeline runs under the FS-mutation wrapper (harness/c07_wrap.py): clean run, kill at mutation k, --resume.

Everything lives in a scratch directory given by the caller.  A *configuration* is a dict
  {"n": chromosomes, "genedb": bool, "rg": "none"|"inline"|"file", "keep_tmp": bool, "unmapped": bool, "toy": bool, "seed": int}
"""
import hashlib
import os
import re
import shutil
import sys

HERE = os.path.dirname(os.path.abspath(__file__))
sys.path.insert(0, os.path.dirname(HERE))
import pipeline as P  # noqa: E402
from gen import synth  # noqa: E402

WRAP = os.path.join(os.path.dirname(HERE), "c07_wrap.py")
PREFIX = "S"
GZ_REF_NAME = "refgenome.fa"            # a plain-gzip reference is `<GZ_REF_NAME>.gz`; unpacked into <out>/<GZ_REF_NAME>
MULTI_PREFIXES = ["expA", "expB"]       # experiment names of a two-experiment invocation (--bam_list)


def natural_key(s):
    return [int(t) if t.isdigit() else t.lower() for t in re.split(r'(\d+)', s)]


def make_dataset(cfg, d):
    """writes the input files of a configuration; returns dict(paths=..., chrs=[processing order], mchrs=[merge order],
    bchrs=[BAM header order])"""
    os.makedirs(d, exist_ok=True)
    if cfg.get("toy"):
        paths = P.copy_toy(d)
        chrs = ["chr9"]
        names = ["chr9"]
    else:
        import random
        rng = random.Random(cfg["seed"])
        n = cfg["n"]
        ds = synth.Dataset(cfg["seed"])
        # chromosome names whose natural-sort order differs from the length order (processing order = length, descending)
        pool = ["chr%d" % i for i in range(1, 30)] + ["chrX", "chrM", "scaf_7", "scaf_12"]
        names = rng.sample(pool, n)
        lens = rng.sample(range(22000, 42000, 500), n)
        for ci, (nm, ln) in enumerate(zip(names, lens)):
            ds.add_chrom(nm, ln)
            if ci > 0 and rng.random() < 0.2 and not cfg.get("gz_ref"):
                continue        # a chromosome without genes and reads (not with a plain-gzip reference: there the last
                                # chromosome of the FASTA - absent from a partially unpacked copy - must have reads)
            pos = 1000
            for gi in range(rng.randint(1, 2)):
                strand = rng.choice("+-")
                nex = rng.randint(2, 4)
                exons = []
                p = pos
                for _ in range(nex):
                    ln2 = rng.randint(120, 300)
                    exons.append((p, p + ln2 - 1))
                    p += ln2 + rng.randint(300, 900)
                txs = [("T_%s_%d_a" % (nm, gi), exons)]
                if nex >= 3:
                    txs.append(("T_%s_%d_b" % (nm, gi), exons[:1] + exons[2:]))
                ds.add_gene(nm, "G_%s_%d" % (nm, gi), strand, txs)
                for tid, ex in txs:
                    for k in range(rng.randint(3, 5)):
                        e = list(ex)
                        e[0] = (e[0][0] + rng.randint(0, 30), e[0][1])
                        e[-1] = (e[-1][0], e[-1][1] - rng.randint(0, 30))
                        pa = 20 if strand == "+" and rng.random() < 0.6 else 0
                        pt = 20 if strand == "-" and rng.random() < 0.6 else 0
                        ds.read_from_exons("r_%s_%d_g%d" % (tid, k, rng.randint(0, 2)), nm, e, polya=pa, polyt=pt)
                pos = p + 1500
        if cfg.get("unmapped"):
            for i in range(rng.randint(1, 6)):
                ds.add_read("unm%d_g0" % i, None, 0, "", flag=4, seq="ACGTTGCAAC" * 5)
        paths = ds.write(d)
        # a second alignment file (other reads): the input of the "earlier run with other inputs" of the history scenarios
        paths["bam_alt"] = ds.write(d, bam_name="reads_alt.bam", reads=[r for i, r in enumerate(ds.reads) if i % 3 != 0],
                                    write_ref=False)["bam"]
        if cfg.get("multi"):
            # a second experiment (--bam_list): every other aligned read, and every unaligned one
            paths["bam_b"] = ds.write(d, bam_name="reads_b.bam", write_ref=False,
                                      reads=[r for i, r in enumerate(ds.reads) if i % 2 == 0 or (r["flag"] & 4)])["bam"]
            paths["bam_list"] = os.path.join(d, "bams.list")
            with open(paths["bam_list"], "w") as f:
                f.write("#%s\n%s\n#%s\n%s\n" % (MULTI_PREFIXES[0], paths["bam"], MULTI_PREFIXES[1], paths["bam_b"]))
        with open(os.path.join(d, "groups.tsv"), "w") as f:
            for i, r in enumerate(ds.reads):
                f.write("%s\tgrp%d\n" % (r["name"], i % 3))
        paths["groups"] = os.path.join(d, "groups.tsv")
        chrs = [nm for nm, _ in sorted(zip(names, lens), key=lambda x: -x[1])]
    if cfg.get("gz_ref"):
        # the reference gzip- but NOT bgzip-compressed: pyfaidx refuses it, DatasetProcessor.__init__ unpacks it into the
        # output folder.  Every run gets its own copy of the compressed file (GzRefSession.prepare): pyfaidx writes the
        # index of the unpacked copy next to the *compressed* file, runs in parallel must not share it
        import gzip
        paths["ref_gz"] = os.path.join(d, GZ_REF_NAME + ".gz")
        with open(paths["ref"], "rb") as f, gzip.open(paths["ref_gz"], "wb") as g:
            shutil.copyfileobj(f, g)
    # annotation database converted once (the conversion stage is outside the property's quantifier)
    if cfg.get("genedb", True):
        import gffutils
        db = os.path.join(d, "ann.db")
        if not os.path.exists(db):
            gffutils.create_db(paths["gtf"], db, force=True, keep_order=True, merge_strategy="error",
                               sort_attribute_values=True, disable_infer_transcripts=True, disable_infer_genes=True)
        paths["db"] = db
    mchrs = sorted(chrs, key=natural_key)
    return {"paths": paths, "chrs": chrs, "mchrs": mchrs, "bchrs": list(names)}


def cli_args(cfg, data, threads=1, alt=False, saves=None, force=False, ref=None):
    """alt: the other alignment file; saves: prefix of kept save files (--read_assignments instead of --bam);
    ref: the reference file to use instead of the data set's uncompressed one"""
    p = dict(data["paths"])
    if ref:
        p["ref"] = ref
    inp = ["--read_assignments", saves] if saves else ["--bam", p["bam_alt"] if alt else p["bam"]]
    if cfg.get("multi"):
        inp = ["--bam_list", p["bam_list"]]
    a = ["--threads", str(threads)] + inp + ["--reference", p["ref"], "--data_type", "nanopore"] + \
        ([] if cfg.get("multi") else ["-p", cfg.get("prefix", PREFIX)]) + ([] if cfg.get("gzip") else ["--no_gzip"]) + \
        (["--force"] if force else [])
    if cfg.get("sqanti"):
        a += ["--sqanti_output"]
    if cfg.get("count_exons"):
        a += ["--count_exons"]
    if cfg.get("no_model"):
        a += ["--no_model_construction"]
    if cfg.get("high_memory"):
        a += ["--high_memory"]
    if cfg.get("genedb", True):
        # `gtf_input`: the annotation as GTF - the run converts it (gffutils / sqlite, inside the output folder) after `.params`
        a += ["--genedb", p["gtf"] if cfg.get("gtf_input") else p["db"], "--complete_genedb"]
    if cfg.get("rg") == "inline":
        a += ["--read_group", "read_id:_"]
    elif cfg.get("rg") == "file":
        a += ["--read_group", "file:" + p["groups"]]
    if cfg.get("keep_tmp"):
        a += ["--keep_tmp"]
    return a


def read_trace(state):
    """-> list of (n or None, op, relpath)"""
    res = []
    fp = os.path.join(state, "trace.tsv")
    if not os.path.exists(fp):
        return res
    with open(fp) as f:
        for l in f:
            l = l.rstrip("\n")
            if not l:
                continue
            n, op, rel = l.split("\t", 2)
            res.append((None if n == "-" else int(n), op, rel))
    return res


def final_outputs(outdir, prefix=PREFIX):
    """hashes of the final files under <out>/<prefix>/ modulo the command-line/version header lines"""
    res = {}
    if isinstance(prefix, (list, tuple)):             # several experiments: keys <experiment>/<file>
        for px in prefix:
            for fn, h in final_outputs(outdir, px).items():
                res[px + "/" + fn] = h
        for fn in sorted(os.listdir(outdir)) if os.path.isdir(outdir) else []:
            if fn.startswith("combined_") and os.path.isfile(os.path.join(outdir, fn)):   # tables combined over the experiments
                with open(os.path.join(outdir, fn), errors="replace") as f:
                    res[fn] = hashlib.sha1(P.strip_cmdline(f.read()).encode()).hexdigest()
        return res
    for fn, p in P.out_files(outdir, prefix).items():
        res[fn] = hashlib.sha1(P.strip_cmdline(read_output(p)).encode()).hexdigest()
    return res


def read_output(p):
    """text of a final file; a gzip stream is compared by its decompressed content (the gzip header carries the time
    of the run), a stream that cannot be read to its end (truncated, no trailer) by its raw bytes + a marker"""
    if p.endswith(".gz"):
        import gzip
        try:
            with gzip.open(p, "rt", errors="replace") as f:
                return f.read()
        except (EOFError, OSError, ValueError) as ex:
            with open(p, "rb") as f:
                return "UNREADABLE GZIP STREAM (%s) %s" % (type(ex).__name__, hashlib.sha1(f.read()).hexdigest())
    with open(p, errors="replace") as f:
        return f.read()


def run_wrapped(workdir, cfg, data, crash=None, resume=False, threads=1, timeout=600, args=None, state="state",
                resume_state="state_resume"):
    """one (possibly killed) run under the wrapper in `workdir` (out/, home/, state*/).  Returns (rc, log, trace).
    `args`: the command line of a history scenario (default: cli_args of the configuration)"""
    state = os.path.join(workdir, resume_state if resume else state)
    os.makedirs(state, exist_ok=True)
    env = {"ABLAB_ISOQUANT_VERIF": "1", "VERIF_C07_STATE": state, "VERIF_REPO": P.REPO}
    if crash:
        env["VERIF_C07_CRASH"] = "%d:%s" % crash
    # `--resume` takes only --output/--threads/--debug/--high_memory/--keep_tmp; --high_memory is NOT restored from .params
    args = (["--resume"] + (["--high_memory"] if cfg.get("resume_high_memory") else [])) if resume else \
        (args if args is not None else cli_args(cfg, data, threads))
    rc, log = P.run_isoquant(os.path.join(workdir, "out"), args, home=os.path.join(workdir, "home"), env=env,
                             wrapper=WRAP, timeout=timeout)
    return rc, log, read_trace(state)


def crash_resume_twice(workdir, cfg, data, k1, ph1, k2, ph2, clean_outputs, prepare=None, args=None, prefix=PREFIX):
    """two interruptions: the run is killed at its mutation k1, the resumed run at ITS mutation k2 (own numbering), then
    --resume runs to its end and is judged.  Returns dict(verdict, detail, trace2 = trace of the killed resumed run,
    resume_trace = trace of the last run, snapshot = files after the second kill)"""
    shutil.rmtree(workdir, ignore_errors=True)
    os.makedirs(workdir)
    if prepare:
        prepare(workdir)
    rc1, _, tr1 = run_wrapped(workdir, cfg, data, crash=(k1, ph1), args=args(workdir) if args else None)
    if rc1 == 0:
        return {"verdict": "NOCRASH", "detail": "first run finished before mutation %d" % k1}
    rc2, _, tr2 = run_wrapped(workdir, cfg, data, resume=True, crash=(k2, ph2))
    snap = snapshot(os.path.join(workdir, "out"))
    if rc2 == 0:
        return {"verdict": "NOCRASH", "detail": "resumed run finished before its mutation %d" % k2, "trace2": tr2}
    rc3, log3, tr3 = run_wrapped(workdir, cfg, data, resume=True, resume_state="state_resume2")
    if rc3 != 0:
        err = [l for l in log3.split("\n") if "Error" in l or "error" in l][-2:]
        return {"verdict": "FAIL", "detail": "rc=%d %s" % (rc3, err), "trace2": tr2, "resume_trace": tr3, "snapshot": snap}
    got = final_outputs(os.path.join(workdir, "out"), prefix)
    if got == clean_outputs:
        return {"verdict": "EQUAL", "detail": "", "trace2": tr2, "resume_trace": tr3, "snapshot": snap}
    bad = sorted(f for f in set(got) | set(clean_outputs) if got.get(f) != clean_outputs.get(f))
    return {"verdict": "DIFF", "detail": "differing/missing/extra final files: %s" % bad, "trace2": tr2, "resume_trace": tr3,
            "snapshot": snap}


def snapshot(outdir):
    """relative path -> size of every file under the output directory"""
    res = {}
    for root, _, fs in os.walk(outdir):
        for fn in fs:
            p = os.path.join(root, fn)
            res[os.path.relpath(p, outdir)] = os.path.getsize(p)
    return res


def crash_resume(workdir, cfg, data, k, phase, clean_outputs, threads=1, prepare=None, args=None, prefix=PREFIX):
    """kill the run at mutation k (phase 'b'efore / 'a'fter), resume, judge.  Returns dict(verdict, detail, ...).
    prepare(workdir): puts the leftovers of the history scenario into workdir/out before the run starts;
    args(workdir): its command line"""
    shutil.rmtree(workdir, ignore_errors=True)
    os.makedirs(workdir)
    if prepare:
        prepare(workdir)
    rc1, log1, tr1 = run_wrapped(workdir, cfg, data, crash=(k, phase), threads=threads,
                                 args=args(workdir) if args else None)
    snap = snapshot(os.path.join(workdir, "out"))
    if rc1 == 0:
        return {"verdict": "NOCRASH", "detail": "run finished before mutation %d" % k, "trace": tr1, "snapshot": snap}
    rc2, log2, tr2 = run_wrapped(workdir, cfg, data, resume=True, threads=threads)
    if rc2 != 0:
        err = [l for l in log2.split("\n") if "Error" in l or "error" in l][-2:]
        return {"verdict": "FAIL", "detail": "rc=%d %s" % (rc2, err), "trace": tr1, "resume_trace": tr2, "snapshot": snap}
    got = final_outputs(os.path.join(workdir, "out"), prefix)
    if got == clean_outputs:
        return {"verdict": "EQUAL", "detail": "", "trace": tr1, "resume_trace": tr2, "snapshot": snap}
    bad = sorted(f for f in set(got) | set(clean_outputs) if got.get(f) != clean_outputs.get(f))
    return {"verdict": "DIFF", "detail": "differing/missing/extra final files: %s" % bad, "trace": tr1, "resume_trace": tr2,
            "snapshot": snap}
