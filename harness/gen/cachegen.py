"""C20 — seeded generator of cache scenarios: a set of simultaneously starting IsoQuant runs (as far as the per-user
caches are concerned), an initial state of the cache directory, and an interleaving.

A scenario is a plain dict (JSON-able, enough to replay it):
  {"n": int, "runs": [run...], "warm": [run...], "touch": [[file, mtime]...], "corrupt": {file_id: text},
   "schedule": [pid...], "clock0": int}
run = {"out": "o3", "clean_start": bool,
       "db": {"gtf": "annA.gtf", "complete": bool} | None,
       "stores": [{"kind": "index", "reference": "ref1.fa", "data_type": "nanopore"} |
                  {"kind": "bed", "genedb": "g1.db"} |
                  {"kind": "align", "fastq": "r1.fq", "index": "i1.idx", "annotation": "b1.bed" | None}]}
File names are relative to the scenario's scratch directory; `materialise` creates the input files with fixed integer
mtimes (the code compares and stores `os.path.getmtime`), output folders are per run (the property's premise).
"""
import os

INPUT_MTIMES = {"annA.gtf": 11, "annB.gtf": 12, "annC.gtf.gz": 13, "ref1.fa": 21, "ref2.fa": 22, "g1.db": 31, "g2.db": 32,
                "r1.fq": 41, "r2.fq": 42, "i1.idx": 51, "i2.idx": 52, "b1.bed": 61,
                # same file names in another folder: an earlier run that re-used an output folder overwrote the artefact
                "alt/annA.gtf": 14, "alt/ref1.fa": 23}


def rand_run(rng, idx, rich):
    run = {"out": "o%d" % idx, "clean_start": rng.random() < 0.08, "db": None, "stores": []}
    if rng.random() < 0.9:
        run["db"] = {"gtf": rng.choice(["annA.gtf", "annA.gtf", "annB.gtf", "annC.gtf.gz"]), "complete": rng.random() < 0.7}
    if rich and rng.random() < 0.6:
        if rng.random() < 0.7:
            run["stores"].append({"kind": "index", "reference": rng.choice(["ref1.fa", "ref2.fa"]),
                                  "data_type": rng.choice(["nanopore", "pacbio_ccs", "assembly"])})
        if rng.random() < 0.6:
            run["stores"].append({"kind": "bed", "genedb": rng.choice(["g1.db", "g2.db"])})
        for _ in range(rng.choice([0, 1, 1, 2])):
            run["stores"].append({"kind": "align", "fastq": rng.choice(["r1.fq", "r2.fq"]),
                                  "index": rng.choice(["i1.idx", "i2.idx"]),
                                  "annotation": rng.choice([None, "b1.bed"])})
    if run["db"] is None and not run["stores"]:
        run["db"] = {"gtf": "annA.gtf", "complete": True}
    return run


def rand_schedule(rng, n, length):
    """mixture of uniformly random slots, bursts and round-robin stretches"""
    s = []
    while len(s) < length:
        r = rng.random()
        if r < 0.45:
            s.append(rng.randrange(n))
        elif r < 0.8:
            s += [rng.randrange(n)] * rng.randint(2, 9)
        else:
            order = list(range(n))
            rng.shuffle(order)
            s += order * rng.randint(1, 3)
    return s[:length]


def rand_scenario(rng, max_n=8, rich=True):
    n = rng.randint(2, max_n)
    runs = [rand_run(rng, i, rich) for i in range(n)]
    sc = {"n": n, "runs": runs, "warm": [], "touch": [], "corrupt": {}, "clock0": 1000,
          "schedule": rand_schedule(rng, n, rng.randint(4 * n, 22 * n))}
    r = rng.random()
    if r < 0.45:       # an earlier, sequential generation of runs populated the caches
        sc["warm"] = [dict(rand_run(rng, 100 + i, rich), clean_start=False) for i in range(rng.randint(1, 3))]
        if rng.random() < 0.35:
            # history: a later sequential run re-used the output folder of the first one with another annotation /
            # reference of the same file name, overwriting the first run's database / index
            first = sc["warm"][0]
            again = {"out": first["out"], "clean_start": False, "db": None, "stores": []}
            if first["db"] and first["db"]["gtf"] == "annA.gtf":
                again["db"] = {"gtf": "alt/annA.gtf", "complete": first["db"]["complete"]}
            for st in first["stores"]:
                if st["kind"] == "index" and st["reference"] == "ref1.fa":
                    again["stores"].append(dict(st, reference="alt/ref1.fa"))
            if again["db"] or again["stores"]:
                sc["warm"].append(again)
        if rng.random() < 0.4:   # an input was modified afterwards: stale entries
            sc["touch"] = [[rng.choice(["annA.gtf", "annB.gtf", "ref1.fa", "g1.db", "r1.fq"]), 900 + rng.randint(0, 9)]]
    elif r < 0.6:      # a config file left corrupted by an older version / an interrupted run
        f = rng.choice([0, 0, 1, 2, 3])
        sc["corrupt"] = {str(f): rng.choice(["", "{", '{"a": {"genedb": "x"}} "tail": 1}', "[]", "null", '{"k": 5}}'])}
    return sc


def reuse_finished_folder(sc):
    """C20Stable (audit finding C20-G1): let ONE of the simultaneously starting runs take the output folder of a finished
    (`warm`) run whose artefacts are in the cache - "separate output folders" holds between the running runs, not between a
    running run and the history.  Mostly with a same-named OTHER annotation / reference (the run converts into the very
    path another running run may have taken from the cache), sometimes with the same input (then it only re-converts
    with --clean_start).  Another running run gets the finished run's clients, so that cache hits on that folder occur.
    Deterministic post-processing with a private generator seeded by the scenario itself: the stream of `rand_scenario`
    is exactly the one it was before this option existed.  Returns True when the scenario was changed."""
    import json
    import random
    import zlib
    if not sc["warm"] or sc["n"] < 2:
        return False
    r2 = random.Random(zlib.crc32(json.dumps(sc, sort_keys=True).encode()))
    if r2.random() >= 0.45:
        return False
    first = sc["warm"][0]
    j = r2.randrange(sc["n"])
    run = dict(sc["runs"][j], out=first["out"])
    other = r2.random() < 0.7
    if first["db"]:
        if other and first["db"]["gtf"] == "annA.gtf":
            run["db"] = {"gtf": "alt/annA.gtf", "complete": first["db"]["complete"]}
        elif other:
            run["db"] = {"gtf": first["db"]["gtf"], "complete": not first["db"]["complete"]}
        else:
            run["db"] = dict(first["db"])
            run["clean_start"] = r2.random() < 0.5
    stores = []
    for st in first["stores"]:
        if st["kind"] == "index" and st["reference"] == "ref1.fa" and other:
            stores.append(dict(st, reference="alt/ref1.fa"))
        elif st["kind"] == "align" and other:
            stores.append(dict(st, index="i2.idx" if st["index"] == "i1.idx" else "i1.idx"))
        else:
            stores.append(dict(st))
    if stores:
        run["stores"] = stores
    sc["runs"][j] = run
    i = (j + 1 + r2.randrange(sc["n"] - 1)) % sc["n"]        # a running run with the finished run's own inputs
    sc["runs"][i] = dict(sc["runs"][i], clean_start=False, db=dict(first["db"]) if first["db"] else sc["runs"][i]["db"],
                         stores=[dict(st) for st in first["stores"]] or sc["runs"][i]["stores"])
    sc["reuse"] = {"run": j, "folder_of_warm": 0, "other_input": other, "reader": i}
    return True


def malformed_entries(sc, allow_partial_dict=True):
    """audit2 C20-G5: a config file that IS a JSON dict but whose entry under the key a run looks up is malformed (written by
    another version, edited by hand): a string / null / list / number instead of a dict, or (`allow_partial_dict`) a dict
    without the target field.  Deterministic post-processing of a scenario with a corrupted file (private generator seeded
    by the scenario; the stream of `rand_scenario` is unchanged).  `<S>` stands for the scratch directory."""
    import json
    import random
    import zlib
    if not sc["corrupt"] or sc.get("malformed"):
        return False
    r2 = random.Random(zlib.crc32(json.dumps(sc, sort_keys=True).encode()) ^ 0x5A5A)
    if r2.random() >= 0.5:
        return False
    f = int(sorted(sc["corrupt"])[0])
    keys = []
    for r in sc["runs"]:
        if f == 0 and r["db"]:
            keys.append("<S>/" + r["db"]["gtf"])
        for st in r["stores"]:
            if f == 1 and st["kind"] == "index":
                keys.append("<S>/" + st["reference"])
            if f == 2 and st["kind"] == "bed":
                keys.append("<S>/" + st["genedb"])
    if not keys:
        return False
    pool = ['"a string"', "null", "[1, 2]", "5", "true"] + (['{"gtf_mtime": 11.0}', "{}"] if allow_partial_dict else [])
    val = r2.choice(pool)
    sc["corrupt"] = {str(f): "{%s: %s}" % (json.dumps(r2.choice(keys)), val)}
    sc["malformed"] = "partial_dict" if val.startswith("{") else "not_a_dict"
    return True


def late_start_scenarios():
    """seed C20_b2, deterministic: run 0 performs k of its steps (k = 0..13: every position of its start-up and of its
    first cycle, in particular between the mkstemp and the os.replace of each store), then run 1 STARTS - everything before
    its first cache step included - and runs to its end, then run 0 goes on"""
    a = {"out": "o0", "clean_start": False, "db": {"gtf": "annA.gtf", "complete": True}, "stores": []}
    b = {"out": "o1", "clean_start": False, "db": {"gtf": "annB.gtf", "complete": True}, "stores": []}
    c = {"out": "o0", "clean_start": False, "db": None,
         "stores": [{"kind": "index", "reference": "ref1.fa", "data_type": "nanopore"}, {"kind": "bed", "genedb": "g1.db"}]}
    res = []
    for k in range(14):
        res.append({"n": 2, "runs": [a, b], "warm": [], "touch": [], "corrupt": {}, "clock0": 1000, "late": [1],
                    "schedule": [0] * k + [1] * 40, "name": "late_start_db_%d" % k})
    for k in range(0, 18, 2):
        res.append({"n": 2, "runs": [c, b], "warm": [], "touch": [], "corrupt": {}, "clock0": 1000, "late": [1],
                    "schedule": [0] * k + [1] * 40, "name": "late_start_stores_%d" % k})
    return res


def rebuild_scenarios():
    """audit2 C20-G2 with the two phases of a conversion as steps (`hold_build`): A0 (folder oX, annA) has finished; B (folder
    o0, annA) gets a cache hit on oX/annA.db and later USES it (step `use`: it opens the path again); C (folder oX again,
    the SAME annotation, --clean_start) rebuilds oX/annA.db (steps `build`, `produce`).  First the witness - B looks up,
    C up to and including `build`, B uses - then every split of the two programs"""
    a0 = {"out": "oX", "clean_start": False, "db": {"gtf": "annA.gtf", "complete": True}, "stores": []}
    b = {"out": "o0", "clean_start": False, "db": {"gtf": "annA.gtf", "complete": True}, "stores": []}
    c = {"out": "oX", "clean_start": True, "db": {"gtf": "annA.gtf", "complete": True}, "stores": []}
    c2 = {"out": "oX", "clean_start": True, "db": {"gtf": "alt/annA.gtf", "complete": True}, "stores": []}
    base = {"n": 2, "runs": [b, c], "warm": [a0], "touch": [], "corrupt": {}, "clock0": 1000, "hold_build": True}
    res = [dict(base, schedule=[0] * 6 + [1] * 6 + [0] + [1] * 3, name="rebuild_same_input_midway_witness")]
    for i in range(0, 8):
        for j in range(0, 9, 2 if i % 2 else 1):
            res.append(dict(base, schedule=[0] * i + [1] * j + [0] * 8 + [1] * 9, name="rebuild_split_%d_%d" % (i, j)))
    res.append(dict(base, runs=[b, c2], schedule=[0] * 6 + [1] * 6 + [0] + [1] * 3, name="rebuild_other_input_midway"))
    return res


def stable_scenarios():
    """`shared_target_overwrite_witness` (Props/C20Stable.lean) as a scenario for the real functions: A0 (folder oX, annA)
    has finished; B (folder o0, annA) performs its lookup (4 x exists, load, lookup), then A' (folder oX again, a same-named
    other annotation) runs from start to end, then B goes on; and the control in which A' comes first (B then converts
    itself: nothing is shared)"""
    a0 = {"out": "oX", "clean_start": False, "db": {"gtf": "annA.gtf", "complete": True}, "stores": []}
    b = {"out": "o0", "clean_start": False, "db": {"gtf": "annA.gtf", "complete": True}, "stores": []}
    a1 = {"out": "oX", "clean_start": False, "db": {"gtf": "alt/annA.gtf", "complete": True}, "stores": []}
    base = {"n": 2, "runs": [b, a1], "warm": [a0], "touch": [], "corrupt": {}, "clock0": 1000}
    i0 = {"out": "oX", "clean_start": False, "db": None,
          "stores": [{"kind": "index", "reference": "ref1.fa", "data_type": "nanopore"}]}
    ib = dict(i0, out="o0")
    i1 = {"out": "oX", "clean_start": False, "db": None,
          "stores": [{"kind": "index", "reference": "alt/ref1.fa", "data_type": "nanopore"}]}
    return [dict(base, schedule=[0] * 6 + [1] * 8, name="shared_target_overwrite_witness"),
            dict(base, schedule=[1] * 8 + [0] * 8, name="shared_target_overwrite_control"),
            {"n": 2, "runs": [ib, i1], "warm": [i0], "touch": [], "corrupt": {}, "clock0": 1000,
             "schedule": [0] * 5 + [1] * 8, "name": "shared_index_overwrite_witness"}]


def witness_scenarios():
    """the two Lean witnesses of the original protocol as scenarios for the real code (the schedule is given in terms
    of `until`: process, step label, file, occurrence – resolved against the realised trace by the harness)"""
    a = {"out": "o0", "clean_start": False, "db": {"gtf": "annA.gtf", "complete": True}, "stores": []}
    b = {"out": "o1", "clean_start": False, "db": {"gtf": "annB.gtf", "complete": True}, "stores": []}
    half = {"n": 2, "runs": [a, b], "warm": [], "touch": [], "corrupt": {}, "clock0": 1000,
            # P0: up to (and including) the first half of its store of db_config; P1: up to its load
            "schedule": [0] * 16 + [1] * 5, "name": "half_written_observable_witness"}
    c = {"out": "o0", "clean_start": False, "db": None,
         "stores": [{"kind": "align", "fastq": "r1.fq", "index": "i1.idx", "annotation": None}]}
    d = {"out": "o1", "clean_start": False, "db": None,
         "stores": [{"kind": "align", "fastq": "r2.fq", "index": "i1.idx", "annotation": "b1.bed"}]}
    e = {"out": "o2", "clean_start": False, "db": None,
         "stores": [{"kind": "align", "fastq": "r1.fq", "index": "i1.idx", "annotation": None}]}
    tail = {"n": 3, "runs": [c, d, e], "warm": [], "touch": [], "corrupt": {}, "clock0": 1000,
            # Lean: 16 x P0, 8 x P1, T0 T1 W1 W0, 5 x P2 – the lookup of find_stored_alignment is inline in the real code
            # (no barrier of its own), hence one slot less per process here
            "schedule": [0] * 15 + [1] * 7 + [0, 1, 1, 0] + [2] * 5, "name": "lost_tail_corruption_witness"}
    return [half, tail]


def materialise(base, sc):
    """create the input files of a scenario under `base`; returns (home, list of harness cfgs, warm cfgs)"""
    os.makedirs(base, exist_ok=True)
    for fn, m in INPUT_MTIMES.items():
        p = os.path.join(base, fn)
        os.makedirs(os.path.dirname(p), exist_ok=True)
        # annotation inputs hold one real GTF line (gzip-compressed under a `.gz` name): since /repo c5c49d6 gtf2db sniffs the
        # dialect of the file before the (stand-in) conversion
        text = ('chrI\tharness\texon\t1\t10\t.\t+\t.\tgene_id "%s"; transcript_id "%s.t";\n' % (fn, fn)) if ".gtf" in fn else "input " + fn + "\n"
        if fn.endswith(".gz"):
            import gzip
            with gzip.open(p, "wt") as f:
                f.write(text)
        else:
            with open(p, "w") as f:
                f.write(text)
        os.utime(p, (m, m))
    home = os.path.join(base, "home")
    os.makedirs(home, exist_ok=True)

    for r in sc["runs"] + sc["warm"]:
        os.makedirs(os.path.join(base, r["out"]), exist_ok=True)
    return (home,) + cfgs(base, sc)


def cfgs(base, sc):
    """the harness cfgs of a scenario for a given scratch directory (pure: creates nothing); (cfgs, warm cfgs)"""
    def cfg_of(run):
        out = os.path.join(base, run["out"])
        cfg = {"output": out, "clean_start": run["clean_start"], "stores": []}
        if run["db"]:
            gtf = os.path.join(base, run["db"]["gtf"])
            stem = os.path.splitext(os.path.basename(gtf))[0]
            cfg["db"] = {"gtf": gtf, "target": os.path.join(out, stem + ".db"), "complete": run["db"]["complete"]}
        for st in run["stores"]:
            if st["kind"] == "index":
                cfg["stores"].append({"kind": "index", "reference": os.path.join(base, st["reference"]), "data_type": st["data_type"]})
            elif st["kind"] == "bed":
                cfg["stores"].append({"kind": "bed", "genedb": os.path.join(base, st["genedb"])})
            else:
                cfg["stores"].append({"kind": "align", "fastq": os.path.join(base, st["fastq"]),
                                      "index": os.path.join(base, st["index"]),
                                      "annotation": os.path.join(base, st["annotation"]) if st["annotation"] else None})
        return cfg
    return [cfg_of(r) for r in sc["runs"]], [cfg_of(r) for r in sc["warm"]]
