#!/venv/bin/python
"""C10 trace wrapper: runs isoquant.main() in this process with monkeypatches (nothing in /repo is touched) that
append one JSON line per event to the file named by C10_TRACE:

  {"ev":"sample_enter"/"sample_exit", "sample":…, "pid":…, "state":{…}}      main process, around process_sample
  {"ev":"task", "sample":…, "chr":…, "pid":…, "detected_in":[…], "detected_out":[…], "flags":{…}, "genes":[[iso,…],…]}
                                                                               any process, around construct_models_in_parallel
`genes` lists, per GraphBasedModelConstructor.process call, the known isoforms that call added to the class-level set.
Forked pool workers inherit the patches; lines are written with one os.write on an O_APPEND descriptor.
"""
import functools
import json
import os
import sys

REPO = os.environ.get("VERIF_REPO", "/repo")
sys.path.insert(0, REPO)
TRACE = os.environ.get("C10_TRACE")


def emit(rec):
    if not TRACE:
        return
    fd = os.open(TRACE, os.O_WRONLY | os.O_APPEND | os.O_CREAT, 0o644)
    try:
        os.write(fd, (json.dumps(rec, sort_keys=True) + "\n").encode())
    finally:
        os.close(fd)


class TracedSet(set):
    """the class-level set, logging additions into the list of the constructor call in progress"""
    log = None

    def add(self, x):
        if x not in self and TracedSet.log is not None:
            TracedSet.log.append(x)
        return set.add(self, x)


def install():
    import src.dataset_processor as DP
    import src.graph_based_model_construction as GB
    from src.isoform_assignment import ReadAssignment
    from src.gene_info import FeatureInfo
    from src.multimap_resolver import MultimapResolver
    from src.alignment_processor import AlignmentType

    GB.GraphBasedModelConstructor.detected_known_isoforms = TracedSet(GB.GraphBasedModelConstructor.detected_known_isoforms)

    def flags_of(args):
        return {"requires_polya": bool(getattr(args, "requires_polya_for_construction", False)),
                "mono_intronic": bool(getattr(args, "require_monointronic_polya", False)),
                "mono_exonic": bool(getattr(args, "require_monoexonic_polya", False)),
                "tech_replicas": bool(getattr(args, "use_technical_replicas", False))}

    def snapshot(proc):
        sd = proc.alignment_stat_counter.stats_dict
        un = sd.get(AlignmentType.unaligned, 0)
        return {"detected": sorted(GB.GraphBasedModelConstructor.detected_known_isoforms),
                "assignment_id": ReadAssignment.assignment_id_generator.value,
                "feature_id": FeatureInfo.feature_id_counter.value,
                "duplicates": MultimapResolver.duplicate_counter,
                "flags": flags_of(proc.args), "unaligned": un,
                "aligned": sum(v for k, v in sd.items() if k != AlignmentType.unaligned),
                "read_groups": sorted(proc.all_read_groups)}

    orig_ps = DP.DatasetProcessor.process_sample

    def process_sample(self, sample):
        emit({"ev": "sample_enter", "sample": sample.prefix, "pid": os.getpid(), "state": snapshot(self)})
        r = orig_ps(self, sample)
        emit({"ev": "sample_exit", "sample": sample.prefix, "pid": os.getpid(), "state": snapshot(self)})
        return r

    DP.DatasetProcessor.process_sample = process_sample

    orig_process = GB.GraphBasedModelConstructor.process

    def process(self, storage):
        mine = []
        prev = TracedSet.log
        TracedSet.log = mine
        try:
            return orig_process(self, storage)
        finally:
            TracedSet.log = prev
            if process.genes is not None:
                process.genes.append(mine)

    process.genes = None
    GB.GraphBasedModelConstructor.process = process

    orig_cm = DP.construct_models_in_parallel

    @functools.wraps(orig_cm)
    def construct_models_in_parallel(sample, chr_id, dump_filename, args, read_groups):
        cls = GB.GraphBasedModelConstructor
        if not isinstance(cls.detected_known_isoforms, TracedSet):
            cls.detected_known_isoforms = TracedSet(cls.detected_known_isoforms)
        din = sorted(cls.detected_known_isoforms)
        process.genes = []
        try:
            return orig_cm(sample, chr_id, dump_filename, args, read_groups)
        finally:
            if not isinstance(cls.detected_known_isoforms, TracedSet):      # re-bound by the task: keep tracing
                cls.detected_known_isoforms = TracedSet(cls.detected_known_isoforms)
            emit({"ev": "task", "sample": sample.prefix, "chr": chr_id, "pid": os.getpid(), "detected_in": din,
                  "detected_out": sorted(cls.detected_known_isoforms), "flags": flags_of(args), "genes": process.genes})
            process.genes = None

    DP.construct_models_in_parallel = construct_models_in_parallel


if __name__ == "__main__":
    import isoquant
    install()
    sys.argv = [os.path.join(REPO, "isoquant.py")] + sys.argv[1:]
    isoquant.main(sys.argv[1:])
