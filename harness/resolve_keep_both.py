#!/usr/bin/env python3
"""resolve_keep_both.py <file>... : resolve git conflict markers by keeping both sides (ours first)"""
import re, sys
pat = re.compile(r'<<<<<<< HEAD\n(.*?)=======\n(.*?)>>>>>>> [0-9a-f]+\n', re.S)
for p in sys.argv[1:]:
    s = open(p).read()
    s2 = pat.sub(lambda m: m.group(1) + m.group(2), s)
    open(p, 'w').write(s2)
    print(p, "conflicts resolved:", len(pat.findall(s)))
