#!/venv/bin/python
"""Writes /verif/MANIFEST.json from the table below (kept in one place so it is always valid)."""
import json, os
HERE = os.path.dirname(os.path.abspath(__file__))
VERIF = os.path.dirname(HERE)

def entry(what, note, design_ref, technique="Lean 4 proof about an executable model + translator-regenerated tables + model/implementation correspondence + failing-input search on the real code", category="proof"):
    return dict(text=what, note=note, design_ref=design_ref, technique=technique, category=category)


COMMON_NOTE = ("Trusted: Lean 4.33 kernel (axioms audited per theorem: subset of propext, Classical.choice, Quot.sound; no sorry/native_decide); "
               "harness/translate.py (cross-checked every run by harness/gencheck.py and the correspondence); the hand-written model is tied to /repo "
               "by differential execution only, so the theorems speak about the code as far as the correspondence generators reach. ")

CHECKS = {
 "C19": entry(
   "Theorems state that every straight-line interval primitive (regenerated from src/common.py on every run) equals its position-set definition for all well-formed intervals, and that the list sweeps (coverage, Jaccard, merge, prefix/suffix sums, junction/exon inversion, both binary searches incl. termination) and isoform profiles equal their set-theoretic specification for all sorted disjoint lists, grounded in position counts; a correspondence check runs model and real functions on exhaustive small universes and random large instances.",
   COMMON_NOTE + "Functions modelled and corresponded but not yet covered by a theorem are listed in docs/C19.md.", "§7 C19, docs/C19.md"),
 "C17": entry(
   "Theorems over all reference annotations, chromosome strings and call histories: id allocation terminates and is fresh, novel transcript/gene ids are unique and never collide with reference ids (incl. ids of an earlier IsoQuant run), exon_id is a function of (chr,start,end,strand) over any get_id/dump history and preserves reference exon_ids; model tied to the real id classes and GFFPrinter by correspondence and to the pipeline by two-run scenarios.",
   COMMON_NOTE + "One known finding (reference id of chromosome A located on chromosome B). See docs/C17.md.", "§7 C17, docs/C17.md"),
 "C18": entry(
   "Theorems: for every reachable memo state and query history the Canonical flag equals the pure function of the reference sequence (declaratively: every intron has a dinucleotide pair of the strand's generated table); StrandDetector memo purity; strand vote / clean strand / read strand / novel-model strand characterised and shown never to contradict all evidence; tied to the real IOSupport, StrandDetector, get_assignment_strand and construct_fl_isoforms by correspondence and to pipeline outputs by recomputation from the FASTA.",
   COMMON_NOTE + "See docs/C18.md.", "§7 C18, docs/C18.md"),
}

NOT_APPLICABLE = {}

def main():
    props = [json.loads(l)["id"] for l in open(os.path.join(VERIF, "properties.jsonl"))]
    checks = []
    for pid in props:
        if pid not in CHECKS:
            continue
        c = CHECKS[pid]
        checks.append({
            "property_id": pid,
            "quick_cmd": "/venv/bin/python harness/vcheck.py --property %s --tier quick" % pid,
            "thorough_cmd": "/venv/bin/python harness/vcheck.py --property %s --tier thorough" % pid,
            "evidence_file": "/verif/evidence/%s.json" % pid,
            "replay_cmd_template": "/venv/bin/python harness/vcheck.py --property %s --replay {path}" % pid,
            "engine": "isoverif",
            "level_claimed": {"category": c.get("category", "proof"), "text": c["text"], "design_ref": c["design_ref"]},
            "level_note": c["note"],
            "technique": c["technique"],
        })
    na = [{"property_id": p, "reason": NOT_APPLICABLE.get(p, "not yet built in this session: no check is claimed (see DESIGN.md §10 roadmap)")}
          for p in props if p not in CHECKS]
    m = {
        "version": 1,
        "setup_cmd": "cd /verif/lean && /venv/bin/python ../harness/translate.py && lake build IsoVerif isodriver",
        "hooks": {"guard": "ABLAB_ISOQUANT_VERIF", "enable": "checks export ABLAB_ISOQUANT_VERIF=1; no hook commits exist in /repo so far (instrumentation is applied by monkeypatching in the harness process)",
                  "baseline_off_cmd": "cd /repo && /venv/bin/python -m pytest -ra -q -p no:cacheprovider --timeout=900 --continue-on-collection-errors",
                  "source_commits": [], "add_only": True},
        "engines": [{"name": "isoverif", "path": "/verif/harness/vcheck.py", "serves_properties": [c["property_id"] for c in checks],
                     "kind_free_text": "Lean 4 model + theorems (lean/IsoVerif), translator harness/translate.py, line-protocol driver, Python correspondence and failing-input search"}],
        "checks": checks,
        "not_applicable": na,
        "notes": "See DESIGN.md. Fix commits in /repo are listed in known_findings.json.",
    }
    with open(os.path.join(VERIF, "MANIFEST.json"), "w") as f:
        json.dump(m, f, indent=1)
    print("MANIFEST.json: %d checks, %d not_applicable" % (len(checks), len(na)))

if __name__ == "__main__":
    main()
