#!/venv/bin/python
"""Writes /verif/MANIFEST.json from the table below (kept in one place so it is always valid)."""
import json, os
HERE = os.path.dirname(os.path.abspath(__file__))
VERIF = os.path.dirname(HERE)

def entry(what, note, design_ref, technique="Lean 4 proof about an executable model + translator-regenerated tables + model/implementation correspondence + failing-input search on the real code", category="proof"):
    return dict(text=what, note=note, design_ref=design_ref, technique=technique, category=category)


COMMON_NOTE = ("Trusted: Lean 4.33 kernel (axioms audited per theorem: subset of propext, Classical.choice, Quot.sound; no sorry/native_decide); "
               "harness/translate.py (cross-checked every run by harness/gencheck.py and the correspondence); the hand-written model is tied to /repo "
               "by differential execution only, so the theorems speak about the code as far as the correspondence generators reach. ")

CHECKS = {
 "C19": entry(
   "Theorems state that every straight-line interval primitive (regenerated from src/common.py on every run) equals its position-set definition for all well-formed intervals, and that the list sweeps (coverage, Jaccard, merge, prefix/suffix sums, junction/exon inversion, both binary searches incl. termination) and isoform profiles equal their set-theoretic specification for all sorted disjoint lists, grounded in position counts; a correspondence check runs model and real functions on exhaustive small universes and random large instances.",
   COMMON_NOTE + "Functions modelled and corresponded but not yet covered by a theorem are listed in docs/C19.md.", "§7 C19, docs/C19.md"),
 "C17": entry(
   "Theorems over all reference annotations, chromosome strings and call histories: id allocation terminates and is fresh, novel transcript/gene ids are unique and never collide with reference ids (incl. ids of an earlier IsoQuant run), exon_id is a function of (chr,start,end,strand) over any get_id/dump history and preserves reference exon_ids; model tied to the real id classes and GFFPrinter by correspondence and to the pipeline by two-run scenarios.",
   COMMON_NOTE + "One known finding (reference id of chromosome A located on chromosome B). See docs/C17.md.", "§7 C17, docs/C17.md"),
 "C18": entry(
   "Theorems: for every reachable memo state and query history the Canonical flag equals the pure function of the reference sequence (declaratively: every intron has a dinucleotide pair of the strand's generated table); StrandDetector memo purity; strand vote / clean strand / read strand / novel-model strand characterised and shown never to contradict all evidence; tied to the real IOSupport, StrandDetector, get_assignment_strand and construct_fl_isoforms by correspondence and to pipeline outputs by recomputation from the FASTA.",
   COMMON_NOTE + "See docs/C18.md.", "§7 C18, docs/C18.md"),
 "C02": entry(
   "Theorems over all call histories and all strategies: every dumped gene/transcript/model count is the sum of the documented per-read weights (regenerated weight functions and strategy flags) if the feature is confirmed and 0 otherwise; a record contributes at most 1; a uniquely assigned spliced read is never zeroed; the statistics lines equal the class counts; per-chromosome merge sums; TPM tables are one positive rescaling summing to 10^6. Tied to the real counters, merge and TPM code by correspondence on dumped files and to pipeline outputs by an independent recount.",
   COMMON_NOTE + "Known finding multilocus_tie_weight (a read retained on >= 2 loci weighs 1 per record). See docs/C02.md.", "§7 C02, docs/C02.md"),
 "C03": entry(
   "Theorems over all dump-call histories: printed transcripts pass the coordinate gate, exon/transcript records are exactly the model's, gene and transcript lines appear once, reference transcripts are printed verbatim, extended = reference + novel, novel exon constructors (get_exons, end correction, mono-exon) yield well-formed exon lists, natural merge order is a total function of the file-name set and merging preserves records; gene-contains-all-transcripts is proved for genes dumped in one call with a witness otherwise. Tied to the real GFFPrinter and constructors by correspondence and to pipeline GTFs by a validator.",
   COMMON_NOTE + "Known finding gene_range_across_calls; assumption interface (monotone intron paths, one strand per gene, distinct ids) monitored by the oracle. See docs/C03.md.", "§7 C03, docs/C03.md"),
 "C05": entry(
   "Theorems for all alignment streams: clusters partition the input; coverage-valley splitting terminates and its sub-regions tile the region exactly; every alignment is forwarded for at least one sub-region in BAM mode and the in-memory storage returns exactly the overlap filter (so both memory modes agree); statistics equal per-category counts; a record processed in two regions never survives as identical twins. Tied to the real collector/storages/splitter by correspondence and to pipeline outputs (both memory modes) by read-id multisets.",
   COMMON_NOTE + "pysam fetch semantics assumed and re-checked each run. See docs/C05.md.", "§7 C05, docs/C05.md"),
 "C06": entry(
   "Theorems: pool.map returns in submission order and the merged output is independent of the task->worker assignment, completion order, worker count and initial worker state for every schedule (given per-task output independent of worker state, discharged per component of the regenerated shared-state inventory by decide); each modelled set-iteration site is permutation independent; the natural merge order is total; both memory modes hand the resolver identical lists. Tied to the pipeline by a byte-level matrix over threads x hash seeds x memory mode x keep_tmp x repetition.",
   COMMON_NOTE + "The regenerated inventories (shared state, set-iteration sites) are heuristic AST scans; the pipeline matrix is the backstop. See docs/C06.md.", "§7 C06, docs/C06.md"),
 "C07": entry(
   "Theorem resume_correct over a model of the file-system protocol: for every configuration (any number of chromosomes, read groups, keep_tmp, annotation) and every kill point after .params is saved, the resumed run completes and the final files equal those of an uninterrupted run (also after repeated interruptions); invariant: every existing lock vouches only for complete files. Tied to the real pipeline by FS-mutation traces and by kill->resume verdicts at sampled (quick) or all (thorough) kill points.",
   COMMON_NOTE + "Theorems cover the --threads 1 event order; pool interleavings by per-chromosome trace projection and sampled kill points. See docs/C07.md.", "§7 C07, docs/C07.md"),
 "C08": entry(
   "Theorems for all record lists: the resolver never raises, retains exactly the winners of the documented priority class, suspends all losers in both type fields, flags ties ambiguous, keeps the first of __eq__ duplicates, and the retained set is invariant under every permutation of records / chromosomes / files (List.Perm) and between the two memory-mode paths; suspended records reach no consumer and the intron graph ignores multimappers (regenerated guard tables). Tied to the real resolver/loader by exhaustive small and random correspondence and to the pipeline by synthetic multi-mapping BAMs.",
   COMMON_NOTE + "Known finding multilocus_tie_weight (read-level total > 1), with exact boundary theorem. See docs/C08.md.", "§7 C08, docs/C08.md"),
 "C09": entry(
   "Theorems for all call streams and all set-iteration orders: each read is counted under exactly the documented group (NA when none; no abort), per-group counts sum to the ungrouped count, matrix and linear renderings contain identical (feature, group, value) triples, group universe facts, table round trip, exon/intron grouped tables partition. Tied to the real groupers/counters under several PYTHONHASHSEED values and to pipeline runs over all grouping modes and formats.",
   COMMON_NOTE + "See docs/C09.md.", "§7 C09, docs/C09.md"),
 "C10": entry(
   "Theorem sample_independent: for every history of experiments and every execution (threads 1 or any pool schedule) the outputs of an experiment equal those of processing it alone, via a per-component lemma for every item of the regenerated inventories of state surviving between experiments (closed by decide, so new shared state re-opens the obligation); combined tables contain exactly the per-experiment columns. Tied to the pipeline by joint vs stand-alone byte comparison over orders and thread counts.",
   COMMON_NOTE + "Known finding read_group_auto_from_other_experiment. See docs/C10.md.", "§7 C10, docs/C10.md"),
 "C12": entry(
   "Partial by nature: theorems carry the BAM-partition clause (k-way merge is a permutation sorted by start, region clusters and per-region record multisets are invariant under any partition of the records into files) and the cache clause (a lookup succeeds only for the same path with matching mtimes and flag, for all histories); the format-equivalence clause (.gtf/.gtf.gz/.db, --complete_genedb) is exercised by differential pipeline runs only (search).",
   COMMON_NOTE + "End-to-end theorem over the composed C12+C08+C02 models: any two file partitions give the same loaded record multisets and count/TPM tables under AssignDupFree (known finding eq_duplicate_file_order otherwise). Format equivalence is search only. See docs/C12.md.", "§7 C12, docs/C12.md"),
 "C13": entry(
   "Theorems: include/exclude counts are folds counting reads whose profile is +1/-1 at the feature, for all histories and groups (grouped partition, one row per annotated feature); soundness of +1 (a read feature matches within delta) for all inputs and of -1, and the iff characterisations under the explicit decidable hypothesis on feature lengths/gaps with witnesses for the excluded corner. Tied to the real counters/profiles by correspondence and to pipeline tables by a recount from BAM + GTF.",
   COMMON_NOTE + "Known finding tie_loser_exon. See docs/C13.md.", "§7 C13, docs/C13.md"),
 "C14": entry(
   "Theorems for ALL event lists (the junction comparator is quantified over): a BED12 record is valid iff the exon list is sorted, disjoint, well formed and inside the chromosome; the corrector's output is always such a list; strategy none is the identity; read ends change only in the terminal branches enabled by the strategy; every output splice site is the read's own, the best-matching annotated site within delta, or belongs to an intron of the assigned isoform; process_events terminates. Tied to the real ExonCorrector/BEDPrinter by correspondence and to pipeline BEDs for all strategies.",
   COMMON_NOTE + "IlluminaExonCorrector.correct_exons is modelled too (scoring rules regenerated): valid blocks, ends preserved, site provenance, identity without junctions, for all junction sets and enumeration orders. See docs/C14.md.", "§7 C14, docs/C14.md"),
 "C15": entry(
   "Theorems for every value in the representable domain (exact encodable-iff characterisations): every primitive and object (events, matches, read assignments, compact records, gene header) round-trips through the byte format, the abridged reader consumes exactly the same bytes as the full reader and returns the projection, streams of gene-info and assignment records round-trip, terminators are unambiguous, penalties are idempotent. The reuse clause (--read_assignments) is a theorem over the modelled halves of process_sample (collect_reads incl. both memory modes, multimapper resolution, the _info file with the unaligned count; load_read_info / load_unaligned_reads, the full loader, verdicts, counters, merge, TPM): a restart recomputes exactly what the saving run computed from its files (restart_is_second_half, reuse_reproduces_outputs), also from save folders of the older _info format. The read-level printers (read_assignments.tsv, corrected_reads.bed lines and their merge) are modelled too, so the restart reproduces the printed files (reuse_reproduces_printed). Tied byte-for-byte to the real serialisers, both real loaders, the real printers and the files the real collect_reads writes; transcript model construction of the restart is compared by in-process pipeline pairs (search).",
   COMMON_NOTE + "See docs/C15.md.", "§7 C15, docs/C15.md"),
 "C16": entry(
   "Theorems for every CIGAR over all nine operation kinds (unbounded): the exon blocks equal a loop-free SAM specification (maximal runs between N/S containing an aligned base), are sorted and well formed, read-coordinate blocks are consistent with the query; polyA/polyT exon trimming never empties or disorders the exon list and moves the tail position onto the retained exon, for every exon list and position quadruple. Tied to get_read_blocks, AlignmentInfo and pysam by exhaustive short and random long CIGARs.",
   COMMON_NOTE + "See docs/C16.md.", "§7 C16, docs/C16.md"),
 "C20": entry(
   "Theorems over an interleaving model of the per-user JSON cache protocol, for any number of processes and every merge of their step lists: with the (repaired) atomic store / tolerant load no load ever sees a partial file, nobody crashes and every run finishes, and a successful lookup returns only an artefact stored for the same key with matching mtimes and flags; the pre-fix protocol's two failure modes are kept as decide-checked witnesses. Tied to the real load/store functions by a step-token scheduler and to real concurrent isoquant.py processes.",
   COMMON_NOTE + "json and os.replace atomicity are assumed externals (laws checked at run time). See docs/C20.md.", "§7 C20, docs/C20.md"),
 "C01": entry(
   "Theorems over a model of the assigner (profiles, match_consistent, nucleotide-score resolution, read-end and polyA verification, classify_assignment over regenerated event tables, the whole inconsistent path, assign_to_isoform) and of JunctionComparator.compare_junctions (never raises, events well formed, presence marks = within-delta partner, no contradiction iff all spanned introns have partners; far_never_consistent: a read intron without partner outside the explicit tolerance classes always yields a major event, hence never a consistent type), plus, with the comparator quantified: classification is sound for all event sets and the tables partition; every isoform reported by the consistent path is structurally compatible with the read (declarative Compatible), uniqueness when only one isoform is compatible, full-length isoform kept under the score condition, exact introns marked; a far read goes down the inconsistent path and is consistent only if the comparator emits no major event. The remaining clauses (comparator always emits a major event for far reads; geometric-to-profile forward direction) are carried by the oracle on in-process reads and pipeline runs for the four matching presets.",
   COMMON_NOTE + "Partial: the forward geometric-to-profile direction and far reads by retained intron / long end extension / deep polyA are carried by the oracle. Known finding terminal_exon_misalignment_far (tolerance class (e)). See docs/C01.md.", "§7 C01, docs/C01.md"),
 "C04": entry(
   "Theorems over a model of intron collection, the intron graph as abstract operations, path storage and the decision block of construct_fl_isoforms: for every operation history every graph vertex and every image of the correction map is an intron of some non-multimapper read's corrected alignment, hence every intron of every emitted novel model is observed (end to end from reads); .nic iff all introns annotated; the chain differs from every reference chain; surviving models keep >= 1 supporting read and transcript_model_reads refers only to stored models (min_novel_count >= 1 by decide over the regenerated presets); definite strand for the quantified reporting levels; annotation-free runs yield only novel genes; distinctness among novel models is proved under the no-shared-inner-chain hypothesis with a witness otherwise. Tied to the real IntronCollector/IntronGraph/constructor by correspondence and to pipeline GTFs by an output validator.",
   COMMON_NOTE + "Also modelled: edge relation, threading, terminal attachment, path enumeration (every novel model has a strictly increasing chain of observed introns: discharges C03's path assumption) and the gene joiner strand clause. Known finding monointron_apa_duplicates. IntronGraph.simplify internals are replayed from recorded traces. See docs/C04.md.", "§7 C04, docs/C04.md"),
 "C11": entry(
   "102 theorems for all inputs and all shifts k / mirror lengths L: every generated primitive and every function of the interval, profile and polyA-shift models is translation equivariant; primitives, sums, coverage/Jaccard sweeps, junction/exon conversion, preceding/following exon, both binary searches (index i <-> n-1-i) and the polyA/polyT count and shift pairs are mirror dual, with the exact condition (and witnesses) where the code is not; left/right event tables are closed under the swap (decide over regenerated tables). The relations are also evaluated on the real functions and the real assigner; whole-pipeline shift and reflection runs are search only.",
   COMMON_NOTE + "Three known findings (polyA finder offset, flanking-intron side naming, left-site-only intron shift). Reflection of split_exons/merge/truncate/profiles and the pipeline clauses are evaluated, not proved. See docs/C11.md.", "§7 C11, docs/C11.md"),
}

NOT_APPLICABLE = {}

def main():
    props = [json.loads(l)["id"] for l in open(os.path.join(VERIF, "properties.jsonl"))]
    checks = []
    kf = json.load(open(os.path.join(VERIF, "known_findings.json")))
    for pid in props:
        if pid not in CHECKS:
            continue
        c = dict(CHECKS[pid])
        ids = [e["id"] for e in kf.get("findings", []) if e.get("property") == pid]
        nfix = sum(1 for l in kf.get("fixed", []) if ("property=%s " % pid) in l)
        c["note"] = c["note"] + (" Known findings listed in known_findings.json: %s." % ", ".join(ids) if ids else " No known finding listed.") + \
            (" %d defect(s) of the pinned tree repaired by fix: commits (DESIGN §14)." % nfix if nfix else "") + \
            " Theorem list with meanings, partial / witness theorems and the hypotheses that are run-time monitored: docs/%s.md; reading rules: DESIGN §6." % pid
        checks.append({
            "property_id": pid,
            "quick_cmd": "/venv/bin/python harness/vcheck.py --property %s --tier quick" % pid,
            "thorough_cmd": "/venv/bin/python harness/vcheck.py --property %s --tier thorough" % pid,
            "evidence_file": "/verif/evidence/%s.json" % pid,
            "replay_cmd_template": "/venv/bin/python harness/vcheck.py --property %s --replay {path}" % pid,
            "engine": "isoverif",
            "level_claimed": {"category": c.get("category", "proof"), "text": c["text"], "design_ref": c["design_ref"]},
            "level_note": c["note"],
            "technique": c["technique"],
        })
    na = [{"property_id": p, "reason": NOT_APPLICABLE.get(p, "not yet built in this session: no check is claimed (see DESIGN.md §10 roadmap)")}
          for p in props if p not in CHECKS]
    m = {
        "version": 1,
        "setup_cmd": "cd /verif/lean && /venv/bin/python ../harness/translate.py && lake build IsoVerif isodriver",
        "hooks": {"guard": "ABLAB_ISOQUANT_VERIF", "enable": "checks export ABLAB_ISOQUANT_VERIF=1; no hook commits exist in /repo so far (instrumentation is applied by monkeypatching in the harness process)",
                  "baseline_off_cmd": "cd /repo && /venv/bin/python -m pytest -ra -q -p no:cacheprovider --timeout=900 --continue-on-collection-errors",
                  "source_commits": [], "add_only": True},
        "engines": [{"name": "isoverif", "path": "/verif/harness/vcheck.py", "serves_properties": [c["property_id"] for c in checks],
                     "kind_free_text": "Lean 4 model + theorems (lean/IsoVerif), translator harness/translate.py, line-protocol driver, Python correspondence and failing-input search"}],
        "checks": checks,
        "not_applicable": na,
        "notes": "See DESIGN.md. Fix commits in /repo are listed in known_findings.json.",
    }
    with open(os.path.join(VERIF, "MANIFEST.json"), "w") as f:
        json.dump(m, f, indent=1)
    print("MANIFEST.json: %d checks, %d not_applicable" % (len(checks), len(na)))

if __name__ == "__main__":
    main()
