#!/venv/bin/python
"""Writes /verif/MANIFEST.json from the table below (kept in one place so it is always valid)."""
import json, os
HERE = os.path.dirname(os.path.abspath(__file__))
VERIF = os.path.dirname(HERE)

CHECKS = {
 "C19": dict(
   text="Lean 4 theorems state that every straight-line interval primitive (generated from src/common.py on every run) equals its position-set definition for all well-formed intervals, and that the list sweeps equal their set-theoretic specification for all sorted disjoint lists; a correspondence check runs the executable model and the real functions on exhaustive small universes and random large instances.",
   note="Trusted: Lean kernel; translator harness/translate.py (cross-checked by the correspondence); hand-written model of the loop functions tied by differential execution only. Theorems proved so far are listed in the evidence file (theorems); functions that are modelled and corresponded but not yet covered by a theorem are named in DESIGN.md §7/C19.",
   technique="Lean 4 proof over generated definitions + model/implementation correspondence",
   design_ref="§7 C19"),
}

NOT_APPLICABLE = {}

def main():
    props = [json.loads(l)["id"] for l in open(os.path.join(VERIF, "properties.jsonl"))]
    checks = []
    for pid in props:
        if pid not in CHECKS:
            continue
        c = CHECKS[pid]
        checks.append({
            "property_id": pid,
            "quick_cmd": "/venv/bin/python harness/vcheck.py --property %s --tier quick" % pid,
            "thorough_cmd": "/venv/bin/python harness/vcheck.py --property %s --tier thorough" % pid,
            "evidence_file": "/verif/evidence/%s.json" % pid,
            "replay_cmd_template": "/venv/bin/python harness/vcheck.py --property %s --replay {path}" % pid,
            "engine": "isoverif",
            "level_claimed": {"category": c.get("category", "proof"), "text": c["text"], "design_ref": c["design_ref"]},
            "level_note": c["note"],
            "technique": c["technique"],
        })
    na = [{"property_id": p, "reason": NOT_APPLICABLE.get(p, "not yet built in this session: no check is claimed (see DESIGN.md §10 roadmap)")}
          for p in props if p not in CHECKS]
    m = {
        "version": 1,
        "setup_cmd": "cd /verif/lean && /venv/bin/python ../harness/translate.py && lake build IsoVerif isodriver",
        "hooks": {"guard": "ABLAB_ISOQUANT_VERIF", "enable": "checks export ABLAB_ISOQUANT_VERIF=1; no hook commits exist in /repo so far (instrumentation is applied by monkeypatching in the harness process)",
                  "baseline_off_cmd": "cd /repo && /venv/bin/python -m pytest -ra -q -p no:cacheprovider --timeout=900 --continue-on-collection-errors",
                  "source_commits": [], "add_only": True},
        "engines": [{"name": "isoverif", "path": "/verif/harness/vcheck.py", "serves_properties": [c["property_id"] for c in checks],
                     "kind_free_text": "Lean 4 model + theorems (lean/IsoVerif), translator harness/translate.py, line-protocol driver, Python correspondence and failing-input search"}],
        "checks": checks,
        "not_applicable": na,
        "notes": "See DESIGN.md. Fix commits in /repo are listed in known_findings.json.",
    }
    with open(os.path.join(VERIF, "MANIFEST.json"), "w") as f:
        json.dump(m, f, indent=1)
    print("MANIFEST.json: %d checks, %d not_applicable" % (len(checks), len(na)))

if __name__ == "__main__":
    main()
