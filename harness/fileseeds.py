#!/venv/bin/python
"""Confirm and file a batch of independently written seeded changes, in parallel.

usage: fileseeds.py <batch_dir> <suffix> [--workers 6] [--extra C12:C02,C05 ...]

<batch_dir>/<Cxx>/<variant>/{patch.diff, demo.py, meta.json}  ->  seeded/<Cxx>_<variant><suffix>/
Each worker owns a scratch copy of /verif (own lean/.lake and Gen files) and calls that copy's seedtool.py with
--via-worktree: demo on clean HEAD (must pass), demo with the patch (must fail), pinned suite with the patch (must be the
baseline), then the quick check(s) with VERIF_REPO=<patched scratch worktree>.  Confirmed seeds are copied back into
/verif/seeded.  /repo is never patched.
"""
import concurrent.futures
import json
import os
import shutil
import subprocess
import sys
import tempfile

VERIF = os.path.dirname(os.path.dirname(os.path.abspath(__file__)))
PY = "/venv/bin/python"


def sh(cmd, **kw):
    return subprocess.run(cmd, capture_output=True, text=True, **kw)


def main():
    batch, suffix = sys.argv[1:3]
    workers = 6
    extra = {}
    for i, a in enumerate(sys.argv):
        if a == "--workers":
            workers = int(sys.argv[i + 1])
        if a == "--extra":
            for spec in sys.argv[i + 1:]:
                if ":" in spec:
                    k, v = spec.split(":")
                    extra[k] = v.split(",")
    jobs = []
    for prop in sorted(os.listdir(batch)):
        for var in sorted(os.listdir(os.path.join(batch, prop))):
            d = os.path.join(batch, prop, var)
            if os.path.isdir(d) and os.path.exists(os.path.join(d, "patch.diff")):
                jobs.append((prop, var, d))
    root = tempfile.mkdtemp(prefix="fileseeds_")
    copies = []
    results = {}
    try:
        for w in range(workers):
            c = os.path.join(root, "w%d" % w, "verif")
            os.makedirs(os.path.dirname(c))
            sh(["rsync", "-a", "--exclude", "replays", "--exclude", ".git", "--exclude", "__pycache__", "--exclude", "seeded", VERIF + "/", c + "/"])
            os.makedirs(os.path.join(c, "seeded"))
            copies.append(c)

        def worker(w):
            out = []
            for prop, var, d in jobs[w::workers]:
                sid = "%s_%s%s" % (prop, var, suffix)
                checks = [prop] + extra.get(prop, [])
                try:
                    r = sh([PY, os.path.join(copies[w], "harness", "seedtool.py"), d, sid, prop, "--checks", ",".join(checks), "--via-worktree"],
                           timeout=7200)
                    try:
                        res = json.loads(r.stdout[r.stdout.index("{"):])
                    except Exception:
                        res = {"error": (r.stdout + r.stderr)[-800:]}
                except subprocess.TimeoutExpired:
                    res = {"error": "timeout"}
                filed = os.path.join(copies[w], "seeded", sid)
                if os.path.isdir(filed):
                    dst = os.path.join(VERIF, "seeded", sid)
                    shutil.rmtree(dst, ignore_errors=True)
                    shutil.copytree(filed, dst)
                    # the agent's own description fields (seedtool reads `needs`, the agents wrote `needs_to_manifest`)
                    try:
                        am = json.load(open(os.path.join(d, "meta.json")))
                        mp = os.path.join(dst, "meta.json")
                        m = json.load(open(mp))
                        m["needs_to_manifest"] = m.get("needs_to_manifest") or am.get("needs_to_manifest")
                        m["summary"] = m.get("summary") or am.get("summary")
                        json.dump(m, open(mp, "w"), indent=1)
                    except Exception:
                        pass
                det = {k: v.get("rc") for k, v in (res.get("detected_by") or {}).items()}
                print("done", sid, "confirmed=%s" % res.get("confirmed"), det, res.get("error", "")[:300], flush=True)
                out.append((sid, res))
            return out
        with concurrent.futures.ThreadPoolExecutor(workers) as ex:
            for out in ex.map(worker, range(workers)):
                results.update(dict(out))
    finally:
        shutil.rmtree(root, ignore_errors=True)
    with open(os.path.join(VERIF, "seeded", "batch%s_results.json" % suffix), "w") as f:
        json.dump(results, f, indent=1, sort_keys=True)
    conf = [s for s, r in results.items() if r.get("confirmed")]
    caught = [s for s in conf if any(v.get("rc") == 1 for v in (results[s].get("detected_by") or {}).values())]
    print("seeds: %d, confirmed: %d, reported as VIOLATION: %d, confirmed but not reported: %s, not confirmed: %s"
          % (len(results), len(conf), len(caught), sorted(set(conf) - set(caught)), sorted(set(results) - set(conf))))


if __name__ == "__main__":
    main()
