#!/venv/bin/python
"""merge_shared.py Cxx : merge a builder copy's additions to the shared registry files into /verif
(Driver/All.lean, IsoVerif.lean, known_findings.json).  translate.py is merged separately (git merge-file)."""
import json, re, sys, os
P = sys.argv[1]
SRC = "/tmp/b-%s/verif" % P
V = "/verif"

def read(p):
    return open(p).read()

# Driver/All.lean
a_src = read(SRC + "/lean/IsoVerif/Driver/All.lean")
a = read(V + "/lean/IsoVerif/Driver/All.lean")
for m in re.finditer(r"^import (IsoVerif\.Driver\.\S+)$", a_src, re.M):
    if m.group(0) not in a:
        # insert after last import
        idx = [x.end() for x in re.finditer(r"^import .*$", a, re.M)][-1]
        a = a[:idx] + "\n" + m.group(0) + a[idx:]
for m in re.finditer(r'prefixOps "(\w+)" (\S+)', a_src):
    if ('prefixOps "%s"' % m.group(1)) not in a:
        a = a.rstrip("\n")
        # append to the allOps expression (before the final 'end IsoVerif.Driver')
        a = a.replace("\n\nend IsoVerif.Driver", "\n  ++ prefixOps \"%s\" %s\n\nend IsoVerif.Driver" % (m.group(1), m.group(2)))
        if not a.endswith("\n"):
            a += "\n"
open(V + "/lean/IsoVerif/Driver/All.lean", "w").write(a)

# IsoVerif.lean: import every Props module of the property and every Gen module present
root = read(V + "/lean/IsoVerif.lean")
props = sorted(f[:-5] for f in os.listdir(V + "/lean/IsoVerif/Props") if f.endswith(".lean"))
for pm in props:
    line = "import IsoVerif.Props.%s" % pm
    if line not in root:
        root = root.rstrip("\n") + "\n" + line + "\n"
open(V + "/lean/IsoVerif.lean", "w").write(root)

# known_findings.json
k = json.load(open(V + "/known_findings.json"))
ks = json.load(open(SRC + "/known_findings.json"))
for line in ks.get("fixed", []):
    if line not in k["fixed"]:
        k["fixed"].append(line)
ids = {e["id"] + e["property"] for e in k["findings"]}
for e in ks.get("findings", []):
    if e["id"] + e["property"] not in ids:
        k["findings"].append(e)
json.dump(k, open(V + "/known_findings.json", "w"), indent=1)
print("merged registry files for", P)
