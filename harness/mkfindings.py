#!/venv/bin/python
"""Regenerates the two lists of DESIGN.md §14 (fixes, known findings) from known_findings.json."""
import json, os, re
V = os.path.dirname(os.path.dirname(os.path.abspath(__file__)))
k = json.load(open(os.path.join(V, "known_findings.json")))
fx = []
for f in k["fixed"]:
    m = re.match(r"fixed: property=(C\d+) (\w+) (.*)", f)
    fx.append("* **%s** `%s` — %s" % (m.group(1), m.group(2), m.group(3)) if m else "* " + f)
fn = ["* **%s** `%s` — %s" % (e["property"], e["id"], e["what"]) for e in k["findings"]]
p = os.path.join(V, "DESIGN.md")
s = open(p).read()
a = s.index("### Fixes (commit — what failed)")
b = s.index("Not in the design round's list and found by the machinery itself")
s = s[:a] + "### Fixes (commit — what failed)\n\n" + "\n".join(fx) + "\n\n" + s[b:]
a = s.index("### Known findings (recorded, not repaired)")
b = s.index("Why not repaired:")
s = s[:a] + "### Known findings (recorded, not repaired)\n\n" + "\n".join(fn) + "\n\n" + s[b:]
open(p, "w").write(s)
print("DESIGN §14: %d fixes, %d findings" % (len(fx), len(fn)))
