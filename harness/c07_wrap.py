"""C07 wrapper: runs /repo/isoquant.py with file-system mutations counted, traced and (optionally) a kill injected.

Run *instead of* isoquant.py (harness/pipeline.run_isoquant(wrapper=<this file>)).  Nothing in /repo is edited: the
wrapper monkeypatches builtins.open / io.open / gzip.open / os.remove in its own process (inherited by forked
workers) and is active only when ABLAB_ISOQUANT_VERIF=1.

Environment
  VERIF_C07_STATE   directory for the shared counter (`cnt`) and the trace (`trace.tsv`)         (required)
  VERIF_C07_CRASH   "<k>:b"  kill the whole process group just before mutation k is performed
                    "<k>:a"  kill it immediately after mutation k returned (nothing written since is flushed)
                    "<k>:t<s>" kill it <s> seconds after mutation k returned (a point inside work that performs no mutation
                             the wrapper sees: the annotation conversion right after `.params`)
                    "<k>:w"  kill it inside the write session opened by mutation k: right after the first write() call
                             on that file returned and its data was handed to the OS (a copy in progress:
                             shutil.copyfileobj writes 64 KiB pieces, the file holds the first one)
  VERIF_REPO        source tree to run (default /repo)

A mutation = open() in a write/append/create mode, gzip.open() in a write/append mode, os.remove(), or os.replace() /
os.rename() (op `replace:<destination>`, path = the source), on a path under the --output directory.  Trace line: `<n>\t<op>\t<path relative to the output dir>`; closing a file that was
opened for writing is traced as an *unnumbered* line `-\tclose\t<path>`, an explicit flush as `-\tflush\t<path>`
(content commits; not crash points of their own: the kill "after k" precedes every commit that follows mutation k);
opening a file of the output directory for reading as an unnumbered line `-\tread\t<path>`.
"""
import builtins
import fcntl
import gzip
import io
import os
import runpy
import signal
import sys

if os.environ.get("ABLAB_ISOQUANT_VERIF") != "1":
    sys.stderr.write("c07_wrap: ABLAB_ISOQUANT_VERIF=1 required\n")
    sys.exit(2)

REPO = os.environ.get("VERIF_REPO", "/repo")
STATE = os.environ["VERIF_C07_STATE"]
CNT = os.path.join(STATE, "cnt")
TRACE = os.path.join(STATE, "trace.tsv")
_crash = os.environ.get("VERIF_C07_CRASH", "")
CRASH_K, CRASH_PHASE = (int(_crash.split(":")[0]), _crash.split(":")[1]) if _crash else (-1, "")
CRASH_DELAY = None
if CRASH_PHASE.startswith("t"):            # "<k>:t<seconds>": kill <seconds> after mutation k returned (whatever the run is
    CRASH_DELAY = float(CRASH_PHASE[1:])   # doing then - e.g. inside the annotation conversion, which writes through sqlite)
    CRASH_PHASE = "t"


def _outdir(argv):
    for i, a in enumerate(argv):
        if a in ("--output", "-o") and i + 1 < len(argv):
            return os.path.abspath(argv[i + 1])
        if a.startswith("--output="):
            return os.path.abspath(a.split("=", 1)[1])
    return None


ROOT = _outdir(sys.argv)
if ROOT is None:
    sys.stderr.write("c07_wrap: --output required\n")
    sys.exit(2)

try:
    os.setsid()          # own process group: the injected kill takes the workers along, never the harness
except OSError:
    pass

_open = builtins.open
_gzopen = gzip.open
_remove = os.remove

if not os.path.exists(CNT):
    with _open(CNT, "w") as f:
        f.write("0")


def _rel(path):
    try:
        p = os.path.abspath(os.fspath(path))
    except TypeError:
        return None
    if isinstance(p, bytes):
        p = p.decode()
    if p == ROOT or p.startswith(ROOT + os.sep):
        return os.path.relpath(p, ROOT)
    return None


def _kill():
    os.killpg(os.getpgid(0), signal.SIGKILL)


def _bump(op, rel):
    """number the mutation; returns its index (kill before it if asked)"""
    with _open(CNT, "r+") as f:
        fcntl.flock(f, fcntl.LOCK_EX)
        n = int(f.read() or "0") + 1
        f.seek(0)
        f.truncate()
        f.write(str(n))
        f.flush()
        with _open(TRACE, "a") as lg:
            lg.write("%d\t%s\t%s\n" % (n, op, rel))
        if n == CRASH_K and CRASH_PHASE == "b":
            _kill()
    return n


def _after(n):
    if n == CRASH_K and CRASH_PHASE == "a":
        _kill()
    if n == CRASH_K and CRASH_PHASE == "t":
        import threading
        t = threading.Timer(CRASH_DELAY, _kill)
        t.daemon = True
        t.start()


def _note(what, rel):
    try:
        with _open(TRACE, "a") as lg:
            fcntl.flock(lg, fcntl.LOCK_EX)
            lg.write("-\t%s\t%s\n" % (what, rel))
    except Exception:
        pass


class _M:
    """bound-method stand-in that keeps the proxy alive (pickle.Pickler keeps only file.write)"""
    __slots__ = ("_p", "_v")

    def __init__(self, p, v):
        self._p = p
        self._v = v

    def __call__(self, *a, **kw):
        return self._v(*a, **kw)


class _W:
    """transparent proxy of a file object opened for writing.  It observes content commits only:
    `flush+`/`close+` = data written since the previous commit reached the file, `flush0`/`close0` = nothing new.
    The content of a write session is complete at its last `+` commit (at the open itself if there is none)."""
    __slots__ = ("_f", "_rel", "_done", "_pid", "_dirty", "_n")

    def __init__(self, f, rel, n=None):
        object.__setattr__(self, "_n", n)
        object.__setattr__(self, "_f", f)
        object.__setattr__(self, "_rel", rel)
        object.__setattr__(self, "_done", False)
        object.__setattr__(self, "_pid", os.getpid())
        object.__setattr__(self, "_dirty", False)

    def __getattr__(self, name):
        v = getattr(object.__getattribute__(self, "_f"), name)
        if callable(v):
            return _M(self, v)
        return v

    def __setattr__(self, name, value):
        setattr(object.__getattribute__(self, "_f"), name, value)

    def _commit(self, what):
        if object.__getattribute__(self, "_pid") == os.getpid():
            d = object.__getattribute__(self, "_dirty")
            _note(what + ("+" if d else "0"), object.__getattribute__(self, "_rel"))
        object.__setattr__(self, "_dirty", False)

    def write(self, data):
        object.__setattr__(self, "_dirty", True)
        r = object.__getattribute__(self, "_f").write(data)
        if CRASH_PHASE == "w" and object.__getattribute__(self, "_n") == CRASH_K:
            object.__getattribute__(self, "_f").flush()        # what was written so far is in the file, the rest is not
            _kill()
        return r

    def writelines(self, lines):
        object.__setattr__(self, "_dirty", True)
        return object.__getattribute__(self, "_f").writelines(lines)

    def flush(self):
        r = object.__getattribute__(self, "_f").flush()
        self._commit("flush")
        return r

    def close(self):
        f = object.__getattribute__(self, "_f")
        was_open = not f.closed
        r = f.close()
        if was_open and not object.__getattribute__(self, "_done"):
            object.__setattr__(self, "_done", True)
            self._commit("close")
        return r

    def __del__(self):
        try:
            self.close()
        except Exception:
            pass

    def __enter__(self):
        object.__getattribute__(self, "_f").__enter__()
        return self

    def __exit__(self, *a):
        self.close()
        return False

    def __iter__(self):
        return iter(object.__getattribute__(self, "_f"))

    def __next__(self):
        return next(object.__getattribute__(self, "_f"))


_GZ = []     # the mode of the gzip.open call in progress (its file is opened by GzipFile through builtins.open)


def my_open(file, mode="r", *a, **kw):
    rel = _rel(file) if isinstance(file, (str, bytes, os.PathLike)) else None
    if rel is not None and isinstance(mode, str) and any(c in mode for c in "wax+"):
        # a file opened by gzip.open is ONE mutation (op `gzip:<mode>`), performed by this nested open; the proxy sees
        # the compressed bytes: its close is the moment the gzip trailer has reached the file
        n = _bump(("gzip:" + _GZ.pop()) if _GZ else ("open:" + mode), rel)
        f = _open(file, mode, *a, **kw)
        _after(n)
        if rel.endswith(".log") or rel.endswith(".log.old"):
            return f          # the log is numbered (it is a mutation of the output directory) but not observed further
        return _W(f, rel, n)
    if rel is not None and not (rel.endswith(".log") or rel.endswith(".log.old")):
        _note("read", rel)          # a file of the output directory opened for reading (unnumbered: no mutation)
    return _open(file, mode, *a, **kw)


def my_gz(file, mode="rb", *a, **kw):
    rel = _rel(file) if isinstance(file, (str, bytes, os.PathLike)) else None
    if rel is not None and isinstance(mode, str) and any(c in mode for c in "wax"):
        _GZ.append(mode)
        try:
            return _gzopen(file, mode, *a, **kw)
        finally:
            del _GZ[:]
    return _gzopen(file, mode, *a, **kw)


def my_rm(path, *a, **kw):
    rel = _rel(path)
    if rel is not None:
        n = _bump("remove", rel)
        r = _remove(path, *a, **kw)
        _after(n)
        return r
    return _remove(path, *a, **kw)


_replace = os.replace
_rename = os.rename


def _mk_mv(orig):
    def my_mv(src, dst, *a, **kw):
        rs, rd = _rel(src), _rel(dst)
        if rs is not None or rd is not None:
            # one mutation: the source name disappears, the destination holds its content (atomic)
            n = _bump("replace:%s" % (rd if rd is not None else "<outside>"), rs if rs is not None else "<outside>")
            r = orig(src, dst, *a, **kw)
            _after(n)
            return r
        return orig(src, dst, *a, **kw)
    return my_mv


builtins.open = my_open
io.open = my_open
gzip.open = my_gz
os.remove = my_rm
os.replace = _mk_mv(_replace)
os.rename = _mk_mv(_rename)

script = os.path.join(REPO, "isoquant.py")
sys.argv = [script] + sys.argv[1:]
sys.path.insert(0, REPO)
runpy.run_path(script, run_name="__main__")
