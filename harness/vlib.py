"""Shared machinery of the IsoQuant verification harness (see /verif/DESIGN.md §2, §3, §8)."""
import fcntl
import json
import os
import random
import re
import shutil
import subprocess
import sys
import tempfile
import time

HERE = os.path.dirname(os.path.abspath(__file__))
VERIF = os.path.dirname(HERE)
LEAN = os.path.join(VERIF, "lean")
REPO = os.environ.get("VERIF_REPO", "/repo")
PY = "/venv/bin/python"
EVIDENCE = os.path.join(VERIF, "evidence")
REPLAYS = os.path.join(VERIF, "replays")
DRIVER_EXE = os.path.join(LEAN, ".lake", "build", "bin", "isodriver")
GUARD = "ABLAB_ISOQUANT_VERIF"

ACCEPTED_AXIOMS = {"propext", "Classical.choice", "Quot.sound"}
FORBIDDEN = re.compile(r"\b(sorry|admit|native_decide|bv_decide|implemented_by|unsafe)\b|^\s*axiom\s|maxHeartbeats\s+0\b")


def repo_on_path():
    if REPO not in sys.path:
        sys.path.insert(0, REPO)


class Lock:
    def __init__(self, name="lake"):
        self.path = os.path.join(LEAN, ".%s.lock" % name)

    def __enter__(self):
        self.f = open(self.path, "w")
        fcntl.flock(self.f, fcntl.LOCK_EX)
        return self

    def __exit__(self, *a):
        fcntl.flock(self.f, fcntl.LOCK_UN)
        self.f.close()


def run_translate():
    """re-generate lean/IsoVerif/Gen from the current /repo; returns the report dict"""
    with Lock():
        p = subprocess.run([PY, os.path.join(HERE, "translate.py"), "--json"], capture_output=True, text=True,
                           env=dict(os.environ, VERIF_REPO=REPO))
    try:
        rep = json.loads(p.stdout)
    except Exception:
        rep = {"ok": False, "errors": {"translator": (p.stdout + p.stderr)[-2000:]}, "changed": [], "info": {}}
    return rep


def lake_build(targets, timeout=3000):
    """returns (ok, log)"""
    with Lock():
        t0 = time.time()
        try:
            p = subprocess.run(["lake", "build"] + list(targets), cwd=LEAN, capture_output=True, text=True,
                               timeout=timeout)
        except subprocess.TimeoutExpired:
            return None, "lake build timed out after %ss" % timeout
        log = p.stdout + p.stderr
        return p.returncode == 0, log


def strip_comments(text):
    # remove /- ... -/ (nested not handled beyond one level) and -- ... comments
    out = []
    i = 0
    depth = 0
    n = len(text)
    while i < n:
        if text.startswith("/-", i):
            depth += 1
            i += 2
            continue
        if depth > 0 and text.startswith("-/", i):
            depth -= 1
            i += 2
            continue
        if depth > 0:
            if text[i] == "\n":
                out.append("\n")
            i += 1
            continue
        if text.startswith("--", i):
            while i < n and text[i] != "\n":
                i += 1
            continue
        out.append(text[i])
        i += 1
    return "".join(out)


def hygiene():
    """grep every .lean file of the package for forbidden constructs (outside comments)"""
    hits = []
    for root, _, files in os.walk(LEAN):
        if ".lake" in root:
            continue
        for fn in files:
            if fn.endswith(".lean"):
                path = os.path.join(root, fn)
                with open(path) as f:
                    txt = strip_comments(f.read())
                for ln, line in enumerate(txt.split("\n"), 1):
                    if FORBIDDEN.search(line):
                        hits.append("%s:%d: %s" % (os.path.relpath(path, LEAN), ln, line.strip()[:100]))
    return hits


THEOREM_RE = re.compile(r"^\s*(?:protected\s+|private\s+)?theorem\s+([A-Za-z_][A-Za-z0-9_'.]*)", re.M)
NAMESPACE_RE = re.compile(r"^namespace\s+(\S+)", re.M)


def theorems_of(relpath):
    """[(fully qualified name, line)] of the theorems declared in a Props file (single top namespace)"""
    path = os.path.join(LEAN, relpath)
    with open(path) as f:
        raw = f.read()
    txt = strip_comments(raw)
    ns = NAMESPACE_RE.search(txt)
    prefix = (ns.group(1) + ".") if ns else ""
    res = []
    for m in THEOREM_RE.finditer(txt):
        line = txt.count("\n", 0, m.start()) + 1
        res.append((prefix + m.group(1), line))
    return res


def audit(prop_files):
    """#print axioms for every theorem of the given Props files.
    returns dict name -> {'axioms': [...], 'ok': bool} ; missing names (do not compile) have ok False"""
    names = []
    mods = []
    for rel in prop_files:
        names += [n for n, _ in theorems_of(rel)]
        mods.append(rel[:-5].replace("/", "."))
    res = {n: {"axioms": None, "ok": False} for n in names}
    if not names:
        return res
    d = tempfile.mkdtemp(prefix="isoverif_audit_")
    try:
        # one file per module so that a module that does not compile does not hide the others
        for rel, mod in zip(prop_files, mods):
            mnames = [n for n, _ in theorems_of(rel)]
            src = "import %s\n" % mod + "".join("#print axioms %s\n" % n for n in mnames)
            fp = os.path.join(d, "Audit_%s.lean" % mod.replace(".", "_"))
            with open(fp, "w") as f:
                f.write(src)
            p = subprocess.run(["lake", "env", "lean", fp], cwd=LEAN, capture_output=True, text=True, timeout=1200)
            out = p.stdout + p.stderr
            # "'name' depends on axioms: [a, b]"  |  "'name' does not depend on any axioms"
            for m in re.finditer(r"'([^']+)' depends on axioms: \[([^\]]*)\]", out):
                ax = [a.strip() for a in m.group(2).replace("\n", " ").split(",") if a.strip()]
                if m.group(1) in res:
                    res[m.group(1)] = {"axioms": ax, "ok": set(ax) <= ACCEPTED_AXIOMS}
            for m in re.finditer(r"'([^']+)' does not depend on any axioms", out):
                if m.group(1) in res:
                    res[m.group(1)] = {"axioms": [], "ok": True}
    finally:
        shutil.rmtree(d, ignore_errors=True)
    return res


def failed_theorems(log, prop_files):
    """map `error: path:line:col` of a lake log to enclosing theorem names"""
    bad = set()
    for rel in prop_files:
        ths = theorems_of(rel)
        for m in re.finditer(r"error: (?:\./)?%s:(\d+):" % re.escape(rel), log):
            ln = int(m.group(1))
            cur = None
            for n, l in ths:
                if l <= ln:
                    cur = n
            bad.add(cur or (rel + ":" + str(ln)))
    return sorted(bad)


class Driver:
    """batch interface to the compiled line-protocol driver"""

    def __init__(self):
        self.exe = DRIVER_EXE if os.path.exists(DRIVER_EXE) else None
        self.calls = 0

    def available(self):
        return self.exe is not None

    def run(self, lines):
        """lines: list of 'op json' strings -> list of decoded JSON values"""
        if not lines:
            return []
        data = "\n".join(lines) + "\n"
        p = subprocess.run([self.exe], input=data, capture_output=True, text=True, timeout=3000)
        outs = p.stdout.split("\n")
        if outs and outs[-1] == "":
            outs.pop()
        if len(outs) != len(lines):
            raise RuntimeError("driver returned %d lines for %d requests (rc=%s, stderr=%s)" %
                               (len(outs), len(lines), p.returncode, p.stderr[-500:]))
        self.calls += len(lines)
        return [json.loads(o) for o in outs]


def req(op, **kw):
    return op + " " + json.dumps(kw, separators=(",", ":"))


_MERGE_ORDER_CACHE = {}


def model_merge_order(names):
    """visiting order of per-chromosome part files as indices into `names`, computed by the C06 model
    (Model/Schedule.lean mergeOrder through the driver) - never a harness-side re-implementation of the sort key"""
    key = tuple(names)
    if key not in _MERGE_ORDER_CACHE:
        out = Driver().run([req("C06.merge_order", names=list(names))])[0]
        if not isinstance(out, list) or sorted(out) != sorted(names):
            raise RuntimeError("C06.merge_order returned %r for %r" % (out, names))
        left = list(range(len(names)))
        order = []
        for nm in out:                      # stable for duplicate names
            i = next(k for k in left if names[k] == nm)
            left.remove(i)
            order.append(i)
        _MERGE_ORDER_CACHE[key] = order
    return list(_MERGE_ORDER_CACHE[key])


def canon(x):
    """tuples -> lists, for comparison with JSON"""
    if isinstance(x, (tuple, list)):
        return [canon(y) for y in x]
    if isinstance(x, dict):
        return {str(k): canon(v) for k, v in x.items()}
    if isinstance(x, bool) or x is None or isinstance(x, (int, str)):
        return x
    if isinstance(x, float):
        return x
    return repr(x)


def call_impl(fn, *a, **kw):
    """call the real code; exceptions become the error enum"""
    try:
        return canon(fn(*a, **kw))
    except (IndexError, AssertionError, ZeroDivisionError, KeyError, ValueError, TypeError, AttributeError) as ex:
        return {"error": "error", "exc": type(ex).__name__}


def is_err(x):
    return isinstance(x, dict) and "error" in x


def same(model, impl):
    if is_err(model) and is_err(impl):
        return True
    if is_err(model) or is_err(impl):
        return False
    return model == impl


class Ctx:
    """collects what a check run covered"""

    def __init__(self, prop, tier, seed):
        self.prop = prop
        self.tier = tier
        self.seed = seed
        self.rng = random.Random(seed)
        self.driver = Driver()
        self.evaluations = 0
        self.nontrivial = set()
        self.samples = []
        self.hist = {}
        self.disagreements = []     # correspondence: model != implementation
        self.failures = []          # oracle: property fails on the real code (concrete input)
        self.notes = []
        self.traces_validated = 0
        self.extra = {}
        self.t0 = time.time()

    def count(self, key, n=1):
        self.hist[key] = self.hist.get(key, 0) + n

    def sample(self, s, cap=12):
        if len(self.samples) < cap:
            self.samples.append(s)

    def mark_nontrivial(self, key):
        self.nontrivial.add(key if isinstance(key, (str, int)) else json.dumps(canon(key), sort_keys=True))

    def disagree(self, op, inp, model, impl):
        if len(self.disagreements) < 200:
            self.disagreements.append({"op": op, "input": canon(inp), "model": model, "impl": impl})

    def fail(self, kind, inp, detail):
        """a concrete violation of the property on the real code"""
        if len(self.failures) < 200:
            self.failures.append({"kind": kind, "input": canon(inp), "detail": detail})

    def elapsed(self):
        return time.time() - self.t0

    def diff_batch(self, op_prefix, cases, impl_fn, nontrivial=None):
        """cases: list of (op, kwargs); impl_fn(op, kwargs) -> canonical value.
        Sends all to the driver, compares, records.  Returns list of model outputs."""
        lines = [req(op_prefix + "." + op, **kw) for op, kw in cases]
        outs = self.driver.run(lines)
        for (op, kw), mo in zip(cases, outs):
            self.evaluations += 1
            self.count("op:" + op)
            if isinstance(mo, dict) and "driver_error" in mo:
                self.disagree(op, kw, mo, None)
                continue
            io = impl_fn(op, kw)
            self.traces_validated += 1
            if is_err(mo):
                self.count("model_error")
            if not same(mo, io):
                self.disagree(op, kw, mo, io)
            else:
                nt = (not is_err(mo)) if nontrivial is None else nontrivial(op, kw, mo)
                if nt:
                    self.mark_nontrivial([op, kw])
            if self.rng.random() < 0.0005 or len(self.samples) < 3:
                self.sample({"op": op, "input": canon(kw), "model": mo, "impl": io})
        return outs


def load_known_findings():
    p = os.path.join(VERIF, "known_findings.json")
    if not os.path.exists(p):
        return {"findings": [], "fixed": []}
    with open(p) as f:
        return json.load(f)


def write_replay(prop, seed, payload):
    os.makedirs(REPLAYS, exist_ok=True)
    path = os.path.join(REPLAYS, "%s_seed%d_%d.json" % (prop, seed, os.getpid()))
    with open(path, "w") as f:
        json.dump(payload, f, indent=1, sort_keys=True, default=str)
    return path


def write_evidence(prop, doc):
    os.makedirs(EVIDENCE, exist_ok=True)
    path = os.path.join(EVIDENCE, "%s.json" % prop)
    tmp = path + ".tmp%d" % os.getpid()
    with open(tmp, "w") as f:
        json.dump(doc, f, indent=1, sort_keys=True, default=str)
    os.replace(tmp, path)
    return path


def scratch_dir(prefix="isoverif_"):
    return tempfile.mkdtemp(prefix=prefix)


def gff_db_from_string(text, **kw):
    """gffutils.create_db(text, ':memory:', from_string=True, ...) without the file gffutils leaves behind: its string
    iterator writes the text to NamedTemporaryFile(delete=False) and never removes it (hundreds of files in /tmp per check
    run).  The temp file is only read while the database is built, so it goes into a private folder removed afterwards."""
    import shutil
    import tempfile
    import gffutils
    d = tempfile.mkdtemp(prefix="vgff_")
    old = tempfile.tempdir
    tempfile.tempdir = d
    try:
        return gffutils.create_db(text, ":memory:", from_string=True, **kw)
    finally:
        tempfile.tempdir = old
        shutil.rmtree(d, ignore_errors=True)
