"""Translator self-check: the generated Lean tables (queried through the driver) vs the live Python objects of /repo.
Returns {table: [mismatch descriptions]} ; empty lists mean agreement."""
import importlib

import vlib


def _mods():
    vlib.repo_on_path()
    ia = importlib.import_module("src.isoform_assignment")
    lc = importlib.import_module("src.long_read_counter")
    cm = importlib.import_module("src.common")
    ap = importlib.import_module("src.alignment_processor")
    gi = importlib.import_module("src.gene_info")
    ser = importlib.import_module("src.serialization")
    aio = importlib.import_module("src.assignment_io")
    return ia, lc, cm, ap, gi, ser, aio


def run(driver):
    ia, lc, cm, ap, gi, ser, aio = _mods()
    ops = ["enums", "rat_classes", "mes_classes", "cs_flags", "gof_flags", "matching_presets", "correction_presets",
           "constants", "shared_state"]
    outs = dict(zip(ops, driver.run([vlib.req("Gen." + o) for o in ops])))
    bad = {}

    def note(table, msg):
        bad.setdefault(table, []).append(msg)

    enums = {"ReadAssignmentType": ia.ReadAssignmentType, "MatchClassification": ia.MatchClassification,
             "MatchEventSubtype": ia.MatchEventSubtype, "CountingStrategy": lc.CountingStrategy,
             "GroupedOutputFormat": lc.GroupedOutputFormat, "CigarEvent": cm.CigarEvent, "AlignmentType": ap.AlignmentType,
             "TranscriptModelType": gi.TranscriptModelType}
    for name, E in enums.items():
        got = sorted((n, v) for n, v in outs["enums"].get(name, []))
        exp = sorted((m.name, m.value) for m in E)
        if got != exp:
            note("Enums", "%s: generated %s != live %s" % (name, got[:5], exp[:5]))
    for row in outs["rat_classes"]:
        t = ia.ReadAssignmentType[row["name"]]
        for k in ("is_inconsistent", "is_consistent", "is_unassigned", "is_unique", "is_ambiguous"):
            if getattr(t, k)() != row[k]:
                note("EventClasses", "ReadAssignmentType.%s(%s)" % (k, t.name))
    M = ia.MatchEventSubtype
    for row in outs["mes_classes"]:
        t = M[row["name"]]
        for k in ("is_alignment_artifact", "is_minor_error", "is_consistent", "is_major_elongation", "is_minor_elongation",
                  "is_major_inconsistency", "is_intronic_inconsistency"):
            if getattr(M, k)(t) != row[k]:
                note("EventClasses", "MatchEventSubtype.%s(%s)" % (k, t.name))
        if (t in ia.nnic_event_types) != row["nnic"] or (t in ia.nic_event_types) != row["nic"] or \
                (t in ia.nonintronic_events) != row["nonintronic"]:
            note("EventClasses", "nic/nnic/nonintronic membership of %s" % t.name)
        c = ia.event_subtype_cost.get(t)
        exp = None if c is None else round(c * 100)
        if exp != row["cost_hundredths"]:
            note("EventClasses", "event_subtype_cost[%s]" % t.name)
    for row in outs["cs_flags"]:
        s = lc.CountingStrategy[row["name"]]
        for k in ("no_inconsistent", "ambiguous", "inconsistent_minor", "inconsistent"):
            if getattr(s, k)() != row[k]:
                note("Strategies", "CountingStrategy.%s(%s)" % (k, s.name))
        fl = lc.CountingStrategyFlags(s)
        if (fl.use_ambiguous, fl.use_inconsistent_minor, fl.use_inconsistent) != (row["ambiguous"], row["inconsistent_minor"], row["inconsistent"]):
            note("Strategies", "CountingStrategyFlags(%s)" % s.name)
    for row in outs["gof_flags"]:
        s = lc.GroupedOutputFormat[row["name"]]
        if s.output_matrix() != row["output_matrix"] or s.output_linear() != row["output_linear"]:
            note("Strategies", "GroupedOutputFormat(%s)" % s.name)
    # presets: run the real option setters on a namespace and compare the fields they derive
    try:
        iq = _load_isoquant()
        import argparse
        for row in outs["matching_presets"]:
            a = argparse.Namespace(matching_strategy=row["name"], delta=None, resolve_ambiguous="default")
            iq.set_matching_options(a)
            exp = (a.delta, a.max_intron_shift, a.max_missed_exon_len, a.max_fake_terminal_exon_len,
                   a.max_suspicious_intron_abs_len, round(a.max_suspicious_intron_rel_len * 1000),
                   a.resolve_ambiguous.name, a.correct_minor_errors)
            got = (row["delta"], row["max_intron_shift"], row["max_missed_exon_len"], row["max_fake_terminal_exon_len"],
                   row["max_suspicious_intron_abs_len"], row["max_suspicious_intron_rel_len_milli"],
                   row["resolve_ambiguous"], row["correct_minor_errors"])
            if exp != got:
                note("Strategies", "matching preset %s: %s != %s" % (row["name"], got, exp))
        for row in outs["correction_presets"]:
            a = argparse.Namespace(splice_correction_strategy=row["name"], data_type="nanopore")
            iq.set_splice_correction_options(a)
            for k in ("fuzzy_junctions", "intron_shifts", "skipped_exons", "terminal_exons", "fake_terminal_exons",
                      "microintron_retention"):
                src = "correct_" + k if hasattr(a, "correct_" + k) else k
                if getattr(a, src, None) != row[k]:
                    note("Strategies", "correction preset %s.%s" % (row["name"], k))
    except Exception as ex:   # the option setters changed shape: report, do not crash the check
        note("Strategies", "preset cross-check could not run: %s: %s" % (type(ex).__name__, ex))
    c = outs["constants"]
    exp = {"STR_LEN_BYTES": ser.STR_LEN_BYTES, "NONE_STR_LEN": ser.NONE_STR_LEN, "SHORT_INT_BYTES": ser.SHORT_INT_BYTES,
           "LONG_INT_BYTES": ser.LONG_INT_BYTES, "TERMINATION_INT": ser.TERMINATION_INT,
           "SHORT_TERMINATION_INT": ser.SHORT_TERMINATION_INT, "SHORT_FLOAT_MULTIPLIER": int(ser.SHORT_FLOAT_MULTIPLIER),
           "DICT_TYPE_LEN": ser.DICT_TYPE_LEN, "DICT_INT_TYPE": ser.DICT_INT_TYPE, "DICT_INT_PAIR_TYPE": ser.DICT_INT_PAIR_TYPE,
           "DICT_STR_TYPE": ser.DICT_STR_TYPE,
           "COVERAGE_BIN": ap.AbstractAlignmentStorage.COVERAGE_BIN, "MAX_REGION_LEN": ap.AlignmentCollector.MAX_REGION_LEN,
           "MIN_READS_TO_SPLIT": ap.AlignmentCollector.MIN_READS_TO_SPLIT, "ABS_COV_VALLEY": ap.AlignmentCollector.ABS_COV_VALLEY,
           "REL_COV_VALLEY_e4": round(ap.AlignmentCollector.REL_COV_VALLEY * 10000),
           "GENE_INFO": aio.TmpFileAssignmentPrinter.GENE_INFO, "READ_ASSIGNMENT": aio.TmpFileAssignmentPrinter.READ_ASSIGNMENT,
           "CANONICAL_FWD_SITES": sorted(list(p) for p in cm.CANONICAL_FWD_SITES),
           "CANONICAL_REV_SITES": sorted(list(p) for p in cm.CANONICAL_REV_SITES),
           "transcript_prefix": cm.TranscriptNaming.transcript_prefix, "novel_gene_prefix": cm.TranscriptNaming.novel_gene_prefix,
           "nic_transcript_suffix": cm.TranscriptNaming.nic_transcript_suffix,
           "nnic_transcript_suffix": cm.TranscriptNaming.nnic_transcript_suffix,
           "smc_extra_left_mod_position": ia.SupplementaryMatchConstants.extra_left_mod_position,
           "smc_extra_right_mod_position": ia.SupplementaryMatchConstants.extra_right_mod_position,
           "smc_undefined_position": ia.SupplementaryMatchConstants.undefined_position,
           "smc_absent_position": ia.SupplementaryMatchConstants.absent_position}
    for k, v in exp.items():
        if c.get(k) != v:
            note("Constants", "%s: generated %r != live %r" % (k, c.get(k), v))
    # Gen/GeneAttributes (C18): the generated skip lists against the behaviour of the live set_gene_attributes
    try:
        at = driver.run([vlib.req("C18.attr_tables")])[0]
        live = live_gene_attribute_tables(at if isinstance(at, dict) else {})
        for k, v in live.items():
            got = at.get(k) if isinstance(at, dict) else None
            got = sorted(got) if isinstance(got, list) else got
            if got != v:
                note("GeneAttributes", "%s: generated %r != live %r" % (k, got, v))
    except Exception as ex:
        note("GeneAttributes", "cross-check could not run: %s: %s" % (type(ex).__name__, ex))
    return bad


ATTR_CANDIDATES = ["gene_id", "transcript_id", "ID", "Parent", "level", "exons", "Canonical", "exon", "exon_id", "exon_number",
                   "transcripts", "tag", "gene_name", "transcript_name", "gene_type", "similar_reference_id", "alternatives", "Name"]


def live_gene_attribute_tables(generated=None):
    """read the skip lists of the LIVE GeneInfo.set_gene_attributes off its behaviour: stub gene / transcript / exon features
    carrying every candidate key (the generated entries + a fixed pool) go through the real method; a key is `skipped` iff it
    does not appear in feature_attributes.  Also the key word the live add_canonical_info_for_model writes."""
    import types
    vlib.repo_on_path()
    gi = importlib.import_module("src.gene_info")
    aio = importlib.import_module("src.assignment_io")
    cands = list(ATTR_CANDIDATES)
    for k in ("gene_skip", "transcript_skip", "exon_skip"):
        for x in (generated or {}).get(k, []) or []:
            if x not in cands:
                cands.append(x)

    class F:
        def __init__(self, id_, keys, start=5, end=9, strand="+"):
            self.id, self.start, self.end, self.strand = id_, start, end, strand
            self.attributes = {k: ["v"] for k in keys}
    gene, tr, ex = F("G", cands), F("T", cands), F("E", [])

    class DB:
        def children(self, g, featuretype=None, **kw):
            return [tr] if "transcript" in featuretype else [ex]
    stub = types.SimpleNamespace(gene_db_list=[gene], db=DB())
    gi.GeneInfo.set_gene_attributes(stub)
    fa = stub.feature_attributes

    def skipped(key):
        copied = [kv.strip().split(" ")[0] for kv in fa.get(key, "").split(";") if kv.strip()]
        return sorted(k for k in cands if k not in copied)
    m = gi.TranscriptModel("chr1", "+", "t", "g", [(1, 4), (15, 18)], gi.TranscriptModelType.novel_not_in_catalog)
    g = types.SimpleNamespace(reference_region="AAAAGTCCCCCCAGTTTT", all_read_region_start=1, canonical_sites={})
    aio.IOSupport(types.SimpleNamespace()).add_canonical_info_for_model(m, g)
    keys = list(m.additional_info.keys())
    return {"gene_skip": skipped("G"), "transcript_skip": skipped("T"), "exon_skip": skipped("T_5_9_+"),
            "canonical_key": keys[0] if len(keys) == 1 else keys}


_iq = None


def _load_isoquant():
    global _iq
    if _iq is None:
        import importlib.util
        import os
        spec = importlib.util.spec_from_file_location("isoquant_main", os.path.join(vlib.REPO, "isoquant.py"))
        _iq = importlib.util.module_from_spec(spec)
        spec.loader.exec_module(_iq)
    return _iq
