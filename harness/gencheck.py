"""Translator self-check: the generated Lean tables (queried through the driver) vs the live Python objects of /repo.
Returns {table: [mismatch descriptions]} ; empty lists mean agreement."""
import importlib

import vlib


def _mods():
    vlib.repo_on_path()
    ia = importlib.import_module("src.isoform_assignment")
    lc = importlib.import_module("src.long_read_counter")
    cm = importlib.import_module("src.common")
    ap = importlib.import_module("src.alignment_processor")
    gi = importlib.import_module("src.gene_info")
    ser = importlib.import_module("src.serialization")
    aio = importlib.import_module("src.assignment_io")
    return ia, lc, cm, ap, gi, ser, aio


def run(driver):
    ia, lc, cm, ap, gi, ser, aio = _mods()
    ops = ["enums", "rat_classes", "mes_classes", "cs_flags", "gof_flags", "matching_presets", "correction_presets",
           "constants", "shared_state"]
    outs = dict(zip(ops, driver.run([vlib.req("Gen." + o) for o in ops])))
    bad = {}

    def note(table, msg):
        bad.setdefault(table, []).append(msg)

    enums = {"ReadAssignmentType": ia.ReadAssignmentType, "MatchClassification": ia.MatchClassification,
             "MatchEventSubtype": ia.MatchEventSubtype, "CountingStrategy": lc.CountingStrategy,
             "GroupedOutputFormat": lc.GroupedOutputFormat, "CigarEvent": cm.CigarEvent, "AlignmentType": ap.AlignmentType,
             "TranscriptModelType": gi.TranscriptModelType}
    for name, E in enums.items():
        got = sorted((n, v) for n, v in outs["enums"].get(name, []))
        exp = sorted((m.name, m.value) for m in E)
        if got != exp:
            note("Enums", "%s: generated %s != live %s" % (name, got[:5], exp[:5]))
    for row in outs["rat_classes"]:
        t = ia.ReadAssignmentType[row["name"]]
        for k in ("is_inconsistent", "is_consistent", "is_unassigned", "is_unique", "is_ambiguous"):
            if getattr(t, k)() != row[k]:
                note("EventClasses", "ReadAssignmentType.%s(%s)" % (k, t.name))
    M = ia.MatchEventSubtype
    for row in outs["mes_classes"]:
        t = M[row["name"]]
        for k in ("is_alignment_artifact", "is_minor_error", "is_consistent", "is_major_elongation", "is_minor_elongation",
                  "is_major_inconsistency", "is_intronic_inconsistency"):
            if getattr(M, k)(t) != row[k]:
                note("EventClasses", "MatchEventSubtype.%s(%s)" % (k, t.name))
        if (t in ia.nnic_event_types) != row["nnic"] or (t in ia.nic_event_types) != row["nic"] or \
                (t in ia.nonintronic_events) != row["nonintronic"]:
            note("EventClasses", "nic/nnic/nonintronic membership of %s" % t.name)
        c = ia.event_subtype_cost.get(t)
        exp = None if c is None else round(c * 100)
        if exp != row["cost_hundredths"]:
            note("EventClasses", "event_subtype_cost[%s]" % t.name)
    for row in outs["cs_flags"]:
        s = lc.CountingStrategy[row["name"]]
        for k in ("no_inconsistent", "ambiguous", "inconsistent_minor", "inconsistent"):
            if getattr(s, k)() != row[k]:
                note("Strategies", "CountingStrategy.%s(%s)" % (k, s.name))
        fl = lc.CountingStrategyFlags(s)
        if (fl.use_ambiguous, fl.use_inconsistent_minor, fl.use_inconsistent) != (row["ambiguous"], row["inconsistent_minor"], row["inconsistent"]):
            note("Strategies", "CountingStrategyFlags(%s)" % s.name)
    for row in outs["gof_flags"]:
        s = lc.GroupedOutputFormat[row["name"]]
        if s.output_matrix() != row["output_matrix"] or s.output_linear() != row["output_linear"]:
            note("Strategies", "GroupedOutputFormat(%s)" % s.name)
    # presets: run the real option setters on a namespace and compare the fields they derive
    try:
        iq = _load_isoquant()
        import argparse
        for row in outs["matching_presets"]:
            a = argparse.Namespace(matching_strategy=row["name"], delta=None, resolve_ambiguous="default")
            iq.set_matching_options(a)
            exp = (a.delta, a.max_intron_shift, a.max_missed_exon_len, a.max_fake_terminal_exon_len,
                   a.max_suspicious_intron_abs_len, round(a.max_suspicious_intron_rel_len * 1000),
                   a.resolve_ambiguous.name, a.correct_minor_errors)
            got = (row["delta"], row["max_intron_shift"], row["max_missed_exon_len"], row["max_fake_terminal_exon_len"],
                   row["max_suspicious_intron_abs_len"], row["max_suspicious_intron_rel_len_milli"],
                   row["resolve_ambiguous"], row["correct_minor_errors"])
            if exp != got:
                note("Strategies", "matching preset %s: %s != %s" % (row["name"], got, exp))
        for row in outs["correction_presets"]:
            a = argparse.Namespace(splice_correction_strategy=row["name"], data_type="nanopore")
            iq.set_splice_correction_options(a)
            for k in ("fuzzy_junctions", "intron_shifts", "skipped_exons", "terminal_exons", "fake_terminal_exons",
                      "microintron_retention"):
                src = "correct_" + k if hasattr(a, "correct_" + k) else k
                if getattr(a, src, None) != row[k]:
                    note("Strategies", "correction preset %s.%s" % (row["name"], k))
    except Exception as ex:   # the option setters changed shape: report, do not crash the check
        note("Strategies", "preset cross-check could not run: %s: %s" % (type(ex).__name__, ex))
    c = outs["constants"]
    exp = {"STR_LEN_BYTES": ser.STR_LEN_BYTES, "NONE_STR_LEN": ser.NONE_STR_LEN, "SHORT_INT_BYTES": ser.SHORT_INT_BYTES,
           "LONG_INT_BYTES": ser.LONG_INT_BYTES, "TERMINATION_INT": ser.TERMINATION_INT,
           "SHORT_TERMINATION_INT": ser.SHORT_TERMINATION_INT, "SHORT_FLOAT_MULTIPLIER": int(ser.SHORT_FLOAT_MULTIPLIER),
           "DICT_TYPE_LEN": ser.DICT_TYPE_LEN, "DICT_INT_TYPE": ser.DICT_INT_TYPE, "DICT_INT_PAIR_TYPE": ser.DICT_INT_PAIR_TYPE,
           "DICT_STR_TYPE": ser.DICT_STR_TYPE,
           "COVERAGE_BIN": ap.AbstractAlignmentStorage.COVERAGE_BIN, "MAX_REGION_LEN": ap.AlignmentCollector.MAX_REGION_LEN,
           "MIN_READS_TO_SPLIT": ap.AlignmentCollector.MIN_READS_TO_SPLIT, "ABS_COV_VALLEY": ap.AlignmentCollector.ABS_COV_VALLEY,
           "REL_COV_VALLEY_e4": round(ap.AlignmentCollector.REL_COV_VALLEY * 10000),
           "GENE_INFO": aio.TmpFileAssignmentPrinter.GENE_INFO, "READ_ASSIGNMENT": aio.TmpFileAssignmentPrinter.READ_ASSIGNMENT,
           "CANONICAL_FWD_SITES": sorted(list(p) for p in cm.CANONICAL_FWD_SITES),
           "CANONICAL_REV_SITES": sorted(list(p) for p in cm.CANONICAL_REV_SITES),
           "transcript_prefix": cm.TranscriptNaming.transcript_prefix, "novel_gene_prefix": cm.TranscriptNaming.novel_gene_prefix,
           "nic_transcript_suffix": cm.TranscriptNaming.nic_transcript_suffix,
           "nnic_transcript_suffix": cm.TranscriptNaming.nnic_transcript_suffix,
           "smc_extra_left_mod_position": ia.SupplementaryMatchConstants.extra_left_mod_position,
           "smc_extra_right_mod_position": ia.SupplementaryMatchConstants.extra_right_mod_position,
           "smc_undefined_position": ia.SupplementaryMatchConstants.undefined_position,
           "smc_absent_position": ia.SupplementaryMatchConstants.absent_position}
    for k, v in exp.items():
        if c.get(k) != v:
            note("Constants", "%s: generated %r != live %r" % (k, c.get(k), v))
    # Gen/GeneAttributes (C18): the generated skip lists against the behaviour of the live set_gene_attributes
    try:
        at = driver.run([vlib.req("C18.attr_tables")])[0]
        live = live_gene_attribute_tables(at if isinstance(at, dict) else {})
        for k, v in live.items():
            got = at.get(k) if isinstance(at, dict) else None
            got = sorted(got) if isinstance(got, list) else got
            if got != v:
                note("GeneAttributes", "%s: generated %r != live %r" % (k, got, v))
    except Exception as ex:
        note("GeneAttributes", "cross-check could not run: %s: %s" % (type(ex).__name__, ex))
    for table in ("Loops", "LoopsCigar"):
        if not _wanted(table):
            continue
        try:
            for msg in check_loops(driver, cm, table):
                note(table, msg)
        except Exception as ex:   # a crash of the self-check is a failed self-check, not a crash of the run
            note(table, "self-check of Gen/%s.lean could not run: %s: %s" % (table, type(ex).__name__, ex))
    return bad


# ---------------------------------------------------------------------------------------------------
# Gen/Loops.lean: every translated loop function, executed through the driver (ops Gen.<name>), against the live
# Python function it was translated from -- exhaustive small universes (malformed lists included) + seeded random
# large instances.  Error (`none`) must coincide with "the Python function raises".

LOOP_STATS = {}


def _wanted(table):
    """the loop self-check costs ~10 s: run it only for the checks whose GEN_DEPS name the table (all tables when the
    property cannot be determined)"""
    import sys
    try:
        if "--property" in sys.argv:
            prop = sys.argv[sys.argv.index("--property") + 1]
            mod = importlib.import_module("props." + prop)
            return table in getattr(mod, "GEN_DEPS", [])
    except Exception:
        pass
    return True


def _small_lists(maxc, maxlen):
    import itertools
    ivs = [(a, b) for a in range(maxc + 1) for b in range(maxc + 1)]      # includes ill-formed (a > b)
    res = [[]]
    for n in range(1, maxlen + 1):
        res += [list(c) for c in itertools.product(ivs, repeat=n)]
    return res


def _cigar_inputs(params, rng, quick):
    """inputs of the CIGAR walkers: parameter `cigar_tuples` = (code, length) pairs, `blocks` = the M/=/X blocks pysam
    would report for that CIGAR (or unrelated lists), `ref_start` = small ints incl. -1 and 0"""
    import itertools
    codes = [0, 1, 2, 3, 4, 5, 7, 9]            # M I D N S H = and an invalid code
    names = [p for p, _ in params]

    def blocks_of(cig, start):
        pos, out = start, []
        for c, n in cig:
            if c in (0, 7, 8):
                out.append((pos, pos + n))
                pos += n
            elif c in (2, 3):
                pos += n
        return out

    def args_for(cig):
        a = []
        for p in names:
            if p == "cigar_tuples":
                a.append([tuple(x) for x in cig])
            elif p == "blocks":
                b = blocks_of(cig, rng.choice([0, 5, 100]))
                r = rng.random()
                if r < 0.1 and b:
                    b = b[:-1]
                elif r < 0.15:
                    b = b + [(1000, 1001)]
                a.append(b)
            elif p == "ref_start":
                a.append(rng.choice([-1, 0, 0, 7, 1000, rng.randint(0, 10 ** 6)]))
            else:
                raise ValueError(p)
        return tuple(a)

    cases = []
    ops = [(c, n) for c in codes for n in (1, 2)]
    small = [[]]
    for k in (1, 2, 3):
        small += [list(c) for c in itertools.product(ops, repeat=k)]
    if quick:
        small = small[:1 + 16 + 256] + rng.sample(small[1 + 16 + 256:], 3000)
    cases += [args_for(c) for c in small]
    n_small = len(cases)
    for _ in range(2000 if quick else 8000):
        k = rng.randint(1, 30)
        cig = [(rng.choice([0, 0, 0, 1, 2, 3, 3, 4, 5, 7, 8] + ([9] if rng.random() < 0.03 else [])),
                rng.choice([1, 2, 5, 30, 1000])) for _ in range(k)]
        cases.append(args_for(cig))
    return cases, n_small


def _loop_inputs(params, rng, quick):
    """list of argument tuples for a parameter signature"""
    import itertools
    from gen import intervals as G
    if any(p == "cigar_tuples" for p, _ in params):
        return _cigar_inputs(params, rng, quick)
    tys = [t for _, t in params]
    nlist = sum(1 for t in tys if t == "ListIv")
    cases = []
    if nlist == 1:
        small = _small_lists(3, 2) + [l for l in G.all_sd_lists(6, 3)]
        ints = list(range(-2, 8))
    else:
        small = _small_lists(2, 2) + rng.sample(G.all_sd_lists(6, 3), 60)
        ints = list(range(-1, 5))
    pools = [small if t == "ListIv" else ints if t == "Int" else [(a, b) for a in range(0, 4) for b in range(0, 4)]
             for t in tys]
    allc = 1
    for p in pools:
        allc *= len(p)
    cap = 12000 if quick else 60000
    if allc <= cap:
        cases += list(itertools.product(*pools))
    else:
        cases += [tuple(rng.choice(p) for p in pools) for _ in range(cap)]
    n_small = len(cases)
    for _ in range(1500 if quick else 6000):
        base = G.rand_sd_list(rng, rng.randint(1, 40), 10 ** rng.choice([3, 6, 9]))
        args = []
        for t in tys:
            if t == "ListIv":
                l = base if rng.random() < 0.4 else G.perturb(rng, base)
                r = rng.random()
                if r < 0.05:
                    l = list(l)
                    rng.shuffle(l)
                elif r < 0.08:
                    l = []
                args.append([tuple(x) for x in l])
            elif t == "Int":
                args.append(G.rand_point(rng, base) if rng.random() < 0.9 else rng.choice([-1, 0, 1]))
            elif t == "Iv":
                args.append((base[0][0] + rng.choice([-3, 0, 3]), base[-1][1] + rng.choice([-3, 0, 3])))
            else:
                raise ValueError(t)
        cases.append(tuple(args))
    return cases, n_small


class _Hang(Exception):
    pass


class _time_limit:
    """wall-clock limit for one call of the live function (main thread only; no-op elsewhere)"""

    def __init__(self, seconds):
        self.seconds = seconds
        self.armed = False

    def __enter__(self):
        import signal
        import threading
        if threading.current_thread() is threading.main_thread():
            def onalarm(signum, frame):
                raise _Hang()
            self.old = signal.signal(signal.SIGALRM, onalarm)
            signal.setitimer(signal.ITIMER_REAL, self.seconds)
            self.armed = True
        return self

    def __exit__(self, *a):
        if self.armed:
            import signal
            signal.setitimer(signal.ITIMER_REAL, 0)
            signal.signal(signal.SIGALRM, self.old)
        return False


def check_loops(driver, cm, table="Loops"):
    import json
    import os
    import random
    msgs = []
    info_path = os.path.join(vlib.LEAN, "IsoVerif", "Gen", "gen_info.json")
    with open(info_path) as f:
        rep = json.load(f)
    if table in rep.get("errors", {}):
        return ["translation failed, Gen/%s.lean is stale: %s" % (table, rep["errors"][table])]
    fns = rep.get("info", {}).get(table, {}).get("functions", {})
    if not fns:
        return ["no translated loop functions recorded in gen_info.json"]
    import sys
    quick = os.environ.get("VERIF_TIER", "quick") != "thorough" and "thorough" not in sys.argv   # vcheck --tier thorough
    rng = random.Random(int(os.environ.get("VERIF_SEED", "20260926")) + 19)
    LOOP_STATS.setdefault("functions", {})
    for name, meta in fns.items():
        params = [tuple(p) for p in meta["params"]]
        pyfn = getattr(cm, name, None)
        if pyfn is None:
            msgs.append("%s: no such function in src.common" % name)
            continue
        cases, n_small = _loop_inputs(params, rng, quick)
        if meta.get("inf"):      # math.inf is an arbitrary integer parameter of the generated function
            reqs = [vlib.req("Gen." + name, inf_=rng.choice([0, 1, -7, 10 ** 12, -10 ** 12, rng.randint(-50, 50)]),
                             **{p: vlib.canon(a) for (p, _), a in zip(params, args)}) for args in cases]
        else:
            reqs = [vlib.req("Gen." + name, **{p: vlib.canon(a) for (p, _), a in zip(params, args)}) for args in cases]
        outs = driver.run(reqs)
        st = {"cases": len(cases), "exhaustive_small": n_small, "errors_both": 0, "values": 0, "mismatches": 0}
        for args, got in zip(cases, outs):
            try:
                with _time_limit(2.0):
                    exp = pyfn(*[list(a) if isinstance(a, list) else a for a in args])
                raised = None
            except (IndexError, AssertionError, ZeroDivisionError, TypeError, ValueError) as ex:
                exp, raised = None, type(ex).__name__
            except _Hang:
                # the live loop did not terminate (possible on malformed lists, e.g. the binary searches): the generated
                # function must have run out of fuel (`none`)
                exp, raised = None, "no termination within 2 s"
                st["hangs"] = st.get("hangs", 0) + 1
            is_err = isinstance(got, dict) and "error" in got
            ok = False
            if isinstance(got, dict) and "driver_error" in got:
                ok = False
            elif raised is not None or is_err:
                ok = raised is not None and is_err
                st["errors_both"] += 1 if ok else 0
            elif meta["ret"] == "Frac":
                ok = isinstance(got, list) and got[1] != 0 and abs(exp - got[0] / got[1]) <= 1e-9 * max(1.0, abs(exp))
            else:
                ok = vlib.canon(exp) == got
            if ok and raised is None:
                st["values"] += 1
            if not ok:
                st["mismatches"] += 1
                if st["mismatches"] <= 2:
                    msgs.append("%s%s: generated %s != live %s" % (name, json.dumps(vlib.canon(list(args)))[:200], json.dumps(got)[:120],
                                                                     raised or json.dumps(vlib.canon(exp))[:120]))
        LOOP_STATS["functions"][name] = st
    return msgs


ATTR_CANDIDATES = ["gene_id", "transcript_id", "ID", "Parent", "level", "exons", "Canonical", "exon", "exon_id", "exon_number",
                   "transcripts", "tag", "gene_name", "transcript_name", "gene_type", "similar_reference_id", "alternatives", "Name"]


def live_gene_attribute_tables(generated=None):
    """read the skip lists of the LIVE GeneInfo.set_gene_attributes off its behaviour: stub gene / transcript / exon features
    carrying every candidate key (the generated entries + a fixed pool) go through the real method; a key is `skipped` iff it
    does not appear in feature_attributes.  Also the key word the live add_canonical_info_for_model writes."""
    import types
    vlib.repo_on_path()
    gi = importlib.import_module("src.gene_info")
    aio = importlib.import_module("src.assignment_io")
    cands = list(ATTR_CANDIDATES)
    for k in ("gene_skip", "transcript_skip", "exon_skip"):
        for x in (generated or {}).get(k, []) or []:
            if x not in cands:
                cands.append(x)

    class F:
        def __init__(self, id_, keys, start=5, end=9, strand="+"):
            self.id, self.start, self.end, self.strand = id_, start, end, strand
            self.attributes = {k: ["v"] for k in keys}
    gene, tr, ex = F("G", cands), F("T", cands), F("E", [])

    class DB:
        def children(self, g, featuretype=None, **kw):
            return [tr] if "transcript" in featuretype else [ex]
    stub = types.SimpleNamespace(gene_db_list=[gene], db=DB())
    gi.GeneInfo.set_gene_attributes(stub)
    fa = stub.feature_attributes

    def skipped(key):
        copied = [kv.strip().split(" ")[0] for kv in fa.get(key, "").split(";") if kv.strip()]
        return sorted(k for k in cands if k not in copied)
    m = gi.TranscriptModel("chr1", "+", "t", "g", [(1, 4), (15, 18)], gi.TranscriptModelType.novel_not_in_catalog)
    g = types.SimpleNamespace(reference_region="AAAAGTCCCCCCAGTTTT", all_read_region_start=1, canonical_sites={})
    aio.IOSupport(types.SimpleNamespace()).add_canonical_info_for_model(m, g)
    keys = list(m.additional_info.keys())
    return {"gene_skip": skipped("G"), "transcript_skip": skipped("T"), "exon_skip": skipped("T_5_9_+"),
            "canonical_key": keys[0] if len(keys) == 1 else keys}


_iq = None


def _load_isoquant():
    global _iq
    if _iq is None:
        import importlib.util
        import os
        spec = importlib.util.spec_from_file_location("isoquant_main", os.path.join(vlib.REPO, "isoquant.py"))
        _iq = importlib.util.module_from_spec(spec)
        spec.loader.exec_module(_iq)
    return _iq
