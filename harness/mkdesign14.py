#!/venv/bin/python
"""Regenerates the two bullet lists of DESIGN.md §14 (fixes, known findings) from known_findings.json, so that the
design document and the file the checks read cannot drift apart. The prose around the lists is kept."""
import json, os, re
V = os.path.dirname(os.path.dirname(os.path.abspath(__file__)))
k = json.load(open(os.path.join(V, "known_findings.json")))
fixes = []
for line in k["fixed"]:
    m = re.match(r"fixed: property=(C\d\d) ([0-9a-f]{7}) (.*)", line, re.S)
    fixes.append("* **%s** `%s` — %s" % (m.group(1), m.group(2), m.group(3)) if m else "* " + line)
finds = ["* **%s** `%s` — %s" % (e["property"], e["id"], e.get("what", "")) for e in k["findings"]]
p = os.path.join(V, "DESIGN.md")
s = open(p).read()
a = s.index("### Fixes (commit — what failed)")
b = s.index("Not in the design round's list and found by the machinery itself")
s = s[:a] + "### Fixes (commit — what failed)\n\n(generated from `known_findings.json` by `harness/mkdesign14.py`; %d fixes)\n\n" % len(fixes) + "\n".join(fixes) + "\n\n" + s[b:]
a = s.index("### Known findings (recorded, not repaired)")
b = s.index("Why not repaired:")
s = s[:a] + "### Known findings (recorded, not repaired)\n\n(generated from `known_findings.json`; %d findings)\n\n" % len(finds) + "\n".join(finds) + "\n\n" + s[b:]
open(p, "w").write(s)
print("DESIGN §14: %d fixes, %d findings" % (len(fixes), len(finds)))
