"""Runs the real IsoQuant pipeline offline in a scratch directory (HOME redirected) and parses outputs."""
import os
import shutil
import subprocess
import sys
import tempfile

REPO = os.environ.get("VERIF_REPO", "/repo")
PY = "/venv/bin/python"
TOY = os.path.join(REPO, "tests", "simple_data")


def scratch(prefix="isoverif_pipe_"):
    return tempfile.mkdtemp(prefix=prefix)


def copy_toy(dst):
    """toy data copied to scratch (pyfaidx writes an index next to its input, so /repo is never passed directly)"""
    os.makedirs(dst, exist_ok=True)
    res = {}
    for k, fn in [("bam", "chr9.4M.ont.sim.polya.bam"), ("bai", "chr9.4M.ont.sim.polya.bam.bai"),
                  ("ref", "chr9.4M.fa.gz"), ("gtf", "chr9.4M.gtf.gz")]:
        src = os.path.join(TOY, fn)
        if os.path.exists(src):
            shutil.copy(src, os.path.join(dst, fn))
            res[k] = os.path.join(dst, fn)
    return res


def run_isoquant(outdir, args, home=None, env=None, timeout=600, wrapper=None, python=PY):
    """args: list of CLI arguments (without --output).  Returns (rc, combined log text)."""
    home = home or os.path.join(os.path.dirname(outdir.rstrip("/")), "home")
    os.makedirs(home, exist_ok=True)
    e = dict(os.environ)
    e["HOME"] = home
    e.setdefault("PYTHONHASHSEED", "0")
    if env:
        e.update({k: str(v) for k, v in env.items()})
    cmd = [python] + ([wrapper] if wrapper else [os.path.join(REPO, "isoquant.py")]) + ["--output", outdir] + list(args)
    try:
        p = subprocess.run(cmd, capture_output=True, text=True, env=e, timeout=timeout, cwd=os.path.dirname(outdir.rstrip("/")))
    except subprocess.TimeoutExpired as ex:
        return 124, "timeout: %s" % ex
    return p.returncode, p.stdout + p.stderr


# Output prefixes (`-p`) / experiment names a run may be given.  Every entry but the last two occurs inside a file suffix
# IsoQuant itself appends (`.transcript_models.gtf`, `.corrected_reads.bed`, `.gene_counts.tsv`,
# `.read_assignments.tsv`, `.novel_vs_known.SQANTI-like.tsv`): audit2-A F1 / audit2-B defect 13 - `merge_file_list` used to
# replace the LAST occurrence of the prefix in the path.  `S` stays in the pool: together with `--sqanti_output` it is the
# first recorded case of the family.
PREFIX_POOL = ["S", "a", "t", "e", "reads", "gene", "counts", "S", "Q7x", "x.y"]
_CURRENT_PREFIX = ["S"]


def pick_prefix(rng):
    return rng.choice(PREFIX_POOL)


def use_prefix(prefix):
    """prefix used by `std_args` / `out_files` calls that do not name one (a property module draws it with `pick_prefix`
    from its seeded generator and records it in the failure input; `use_prefix("S")` restores the default)"""
    _CURRENT_PREFIX[0] = prefix or "S"


def current_prefix():
    return _CURRENT_PREFIX[0]


def std_args(paths, prefix=None, data_type="nanopore", threads=1, genedb=True, extra=(), gzipped=False):
    """gzipped=True: IsoQuant's default output mode (read_assignments.tsv.gz, corrected_reads.bed.gz,
    transcript_model_reads.tsv.gz); compare such files decompressed (DESIGN §6: the header line to ignore and the gzip time
    stamp are inside the compressed file)"""
    a = ["--threads", str(threads), "--bam", paths["bam"], "--reference", paths["ref"], "--data_type", data_type,
         "-p", prefix or current_prefix()] + ([] if gzipped else ["--no_gzip"])
    if genedb:
        a += ["--genedb", paths["gtf"], "--complete_genedb"]
    return a + list(extra)


def out_files(outdir, prefix=None):
    """file name -> path of <outdir>/<prefix>/*.  Without an explicit prefix the run used `current_prefix()` and the keys
    are given as if it had been `S` (`S.corrected_reads.bed`, ...), so callers written for the default keep working."""
    p = prefix or current_prefix()
    d = os.path.join(outdir, p)
    if not os.path.isdir(d):
        return {}
    res = {fn: os.path.join(d, fn) for fn in sorted(os.listdir(d)) if os.path.isfile(os.path.join(d, fn))}
    if prefix is None and p != "S":
        res = {("S" + fn[len(p):] if fn.startswith(p) else fn): path for fn, path in res.items()}
    return res


def read_lines(path, skip_header=True):
    with open(path) as f:
        return [l.rstrip("\n") for l in f if not (skip_header and (l.startswith("#") or l.startswith("__")))]


def read_table(path):
    """tsv count table -> {feature: [values...]}, header list, stats {__x: value}"""
    rows, stats, header = {}, {}, None
    with open(path) as f:
        for l in f:
            l = l.rstrip("\n")
            if l.startswith("#"):
                header = l[1:].split("\t")
                continue
            p = l.split("\t")
            if p[0].startswith("__"):
                stats[p[0]] = p[1:]
            else:
                rows[p[0]] = p[1:]
    return rows, header, stats


def read_assignments(path):
    """read_assignments.tsv -> list of dicts"""
    res = []
    with open(path) as f:
        hdr = None
        for l in f:
            if l.startswith("#"):
                hdr = l[1:].rstrip("\n").split("\t")
                continue
            p = l.rstrip("\n").split("\t")
            res.append(dict(zip(hdr, p)) if hdr else p)
    return res


def read_bed(path):
    res = []
    with open(path) as f:
        for l in f:
            if l.startswith("#") or l.startswith("track"):
                continue
            res.append(l.rstrip("\n").split("\t"))
    return res


def parse_gtf(path):
    """-> list of dict(chr, feature, start, end, strand, attrs{})"""
    import gzip
    op = gzip.open if path.endswith(".gz") else open
    res = []
    with op(path, "rt") as f:
        for l in f:
            if l.startswith("#") or not l.strip():
                continue
            p = l.rstrip("\n").split("\t")
            attrs = {}
            for kv in p[8].strip().split(";"):
                kv = kv.strip()
                if not kv:
                    continue
                k, _, v = kv.partition(" ")
                attrs.setdefault(k, v.strip('"'))
            res.append({"chr": p[0], "feature": p[2], "start": int(p[3]), "end": int(p[4]), "strand": p[6], "attrs": attrs})
    return res


def strip_cmdline(text):
    """output files compared modulo the command-line / version header lines"""
    return "\n".join(l for l in text.split("\n") if not (l.startswith("# Command line") or "IsoQuant version" in l or l.startswith("# IsoQuant")))


def read_text(path):
    """text of an output file; a .gz file decompressed"""
    if path.endswith(".gz"):
        import gzip
        with gzip.open(path, "rt", errors="replace") as f:
            return f.read()
    with open(path, errors="replace") as f:
        return f.read()
