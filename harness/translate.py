#!/venv/bin/python
"""Translator /repo -> lean/IsoVerif/Gen/*.lean.

Re-run on every check.  Parses the *current* /repo sources with `ast` and writes Lean definitions:
  Gen/Prims.lean        direct translation of the straight-line interval primitives of src/common.py
  Gen/Enums.lean        enum classes (members, values, names)
  Gen/EventClasses.lean membership lists of the is_* classifiers / nic / nnic / cost tables
  Gen/Strategies.lean   CountingStrategy flags, matching / correction / construction presets
  Gen/Constants.lean    numeric / string constants used by the models
  Gen/SharedState.lean  inventory of class-level / module-level mutable state
  Gen/Loops.lean        direct translation of the LOOP functions of src/common.py (for / while / list updates; see the
                        section "LOOP functions" below), Gen/LoopsCigar.lean the CIGAR walkers, Gen/LoopsRt.lean their
                        run-time helpers, Gen/Loops(Cigar)Ops.lean the driver handlers `Gen.<function>`

A construct outside the supported subset raises TranslationError (a broken tie, handled by vcheck).
Files are rewritten only when their content changes (so lake does not rebuild needlessly).
Exit status: 0 ok, 3 translation error (message on stderr, JSON report on stdout with --json).
"""
import ast
import json
import os
import sys

REPO = os.environ.get("VERIF_REPO", "/repo")
HERE = os.path.dirname(os.path.abspath(__file__))
GEN = os.path.join(os.path.dirname(HERE), "lean", "IsoVerif", "Gen")


class TranslationError(Exception):
    pass


def parse(rel):
    path = os.path.join(REPO, rel)
    with open(path) as f:
        import warnings
        with warnings.catch_warnings():
            warnings.simplefilter("ignore")
            return ast.parse(f.read(), filename=path)


def find_def(tree, name, cls=None):
    body = tree.body
    if cls is not None:
        for n in body:
            if isinstance(n, ast.ClassDef) and n.name == cls:
                body = n.body
                break
        else:
            raise TranslationError("class %s not found" % cls)
    for n in body:
        if isinstance(n, (ast.FunctionDef, ast.ClassDef)) and n.name == name:
            return n
    raise TranslationError("definition %s%s not found" % ((cls + ".") if cls else "", name))


def find_assign(tree_or_body, name):
    body = tree_or_body.body if hasattr(tree_or_body, "body") else tree_or_body
    for n in body:
        if isinstance(n, ast.Assign) and len(n.targets) == 1 and isinstance(n.targets[0], ast.Name) \
                and n.targets[0].id == name:
            return n.value
    raise TranslationError("assignment %s not found" % name)


# ----------------------------------------------------------------------------------------------
# expression translator for the primitive subset
# types: 'Int', 'Bool', 'Iv'

class ExprTr:
    def __init__(self, env):
        self.env = dict(env)   # name -> type

    def ty(self, e):
        return self.tr(e)[1]

    def tr(self, e):
        """returns (lean_text, type)"""
        if isinstance(e, ast.Constant):
            if isinstance(e.value, bool):
                return ("true" if e.value else "false", "Bool")
            if isinstance(e.value, int):
                return ("(%d : Int)" % e.value if e.value >= 0 else "(-%d : Int)" % -e.value, "Int")
            raise TranslationError("unsupported constant %r" % (e.value,))
        if isinstance(e, ast.Name):
            if e.id not in self.env:
                raise TranslationError("unknown name %s" % e.id)
            return (e.id, self.env[e.id])
        if isinstance(e, ast.Subscript):
            base, bt = self.tr(e.value)
            if bt != "Iv":
                raise TranslationError("subscript on non-interval")
            idx = e.slice
            if isinstance(idx, ast.Constant) and idx.value in (0, 1):
                return ("%s.%d" % (base, idx.value + 1), "Int")
            raise TranslationError("unsupported subscript")
        if isinstance(e, ast.Tuple) and len(e.elts) == 2:
            a, ta = self.tr(e.elts[0])
            b, tb = self.tr(e.elts[1])
            if ta != "Int" or tb != "Int":
                raise TranslationError("tuple of non-ints")
            return ("(%s, %s)" % (a, b), "Iv")
        if isinstance(e, ast.UnaryOp):
            a, ta = self.tr(e.operand)
            if isinstance(e.op, ast.Not):
                if ta != "Bool":
                    raise TranslationError("not on non-bool")
                return ("(!%s)" % a, "Bool")
            if isinstance(e.op, ast.USub) and ta == "Int":
                return ("(-%s)" % a, "Int")
            raise TranslationError("unsupported unary op")
        if isinstance(e, ast.BinOp):
            a, ta = self.tr(e.left)
            b, tb = self.tr(e.right)
            if ta != "Int" or tb != "Int":
                raise TranslationError("arithmetic on non-ints")
            ops = {ast.Add: "+", ast.Sub: "-", ast.Mult: "*"}
            for k, v in ops.items():
                if isinstance(e.op, k):
                    return ("(%s %s %s)" % (a, v, b), "Int")
            raise TranslationError("unsupported binary op %s" % type(e.op).__name__)
        if isinstance(e, ast.BoolOp):
            parts = [self.tr(v) for v in e.values]
            if any(t != "Bool" for _, t in parts):
                raise TranslationError("bool op on non-bool")
            op = " && " if isinstance(e.op, ast.And) else " || "
            return ("(" + op.join(p for p, _ in parts) + ")", "Bool")
        if isinstance(e, ast.Compare):
            items = [self.tr(e.left)] + [self.tr(c) for c in e.comparators]
            if any(t != "Int" for _, t in items):
                raise TranslationError("comparison of non-ints")
            cm = {ast.Lt: "<", ast.LtE: "≤", ast.Gt: ">", ast.GtE: "≥", ast.Eq: "=", ast.NotEq: "≠"}
            parts = []
            for i, op in enumerate(e.ops):
                for k, v in cm.items():
                    if isinstance(op, k):
                        parts.append("decide (%s %s %s)" % (items[i][0], v, items[i + 1][0]))
                        break
                else:
                    raise TranslationError("unsupported comparison")
            return ("(" + " && ".join(parts) + ")", "Bool")
        if isinstance(e, ast.Call) and isinstance(e.func, ast.Name):
            fn = e.func.id
            args = [self.tr(a) for a in e.args]
            if fn in ("max", "min") and len(args) == 2 and all(t == "Int" for _, t in args):
                return ("(%s %s %s)" % (fn, args[0][0], args[1][0]), "Int")
            if fn == "abs" and len(args) == 1 and args[0][1] == "Int":
                return ("(iabs %s)" % args[0][0], "Int")
            if fn in PRIM_SIGS and not e.keywords:
                sig = PRIM_SIGS[fn]
                if len(args) != len(sig[0]):
                    raise TranslationError("arity mismatch calling %s" % fn)
                return ("(%s %s)" % (fn, " ".join(a for a, _ in args)), sig[1])
            raise TranslationError("unsupported call %s" % fn)
        raise TranslationError("unsupported expression %s" % ast.dump(e)[:80])


# name -> ([(param, type)], return type)
PRIM_SIGS = {
    "cmp": ([("x", "Int"), ("y", "Int")], "Int"),
    "overlaps": ([("range1", "Iv"), ("range2", "Iv")], "Bool"),
    "overlap_intervals": ([("range1", "Iv"), ("range2", "Iv")], "Iv"),
    "overlaps_at_least": ([("range1", "Iv"), ("range2", "Iv"), ("delta", "Int")], "Bool"),
    "overlaps_at_least_when_overlap": ([("range1", "Iv"), ("range2", "Iv"), ("delta", "Int")], "Bool"),
    "intersection_len": ([("range1", "Iv"), ("range2", "Iv")], "Int"),
    "left_of": ([("range1", "Iv"), ("range2", "Iv")], "Bool"),
    "equal_ranges": ([("range1", "Iv"), ("range2", "Iv"), ("delta", "Int")], "Bool"),
    "covers_end": ([("bigger_range", "Iv"), ("smaller_range", "Iv")], "Bool"),
    "covers_start": ([("bigger_range", "Iv"), ("smaller_range", "Iv")], "Bool"),
    "contains": ([("bigger_range", "Iv"), ("smaller_range", "Iv")], "Bool"),
    "contains_well_inside": ([("bigger_range", "Iv"), ("smaller_range", "Iv"), ("delta", "Int")], "Bool"),
    "contains_approx": ([("bigger_range", "Iv"), ("smaller_range", "Iv"), ("delta", "Int")], "Bool"),
    "max_range": ([("range1", "Iv"), ("range2", "Iv")], "Iv"),
    "interval_len": ([("interval", "Iv")], "Int"),
}
PRIM_ORDER = ["cmp", "overlaps", "overlap_intervals", "overlaps_at_least", "overlaps_at_least_when_overlap",
              "intersection_len", "left_of", "equal_ranges", "covers_end", "covers_start", "contains",
              "contains_well_inside", "contains_approx", "max_range", "interval_len"]


def tr_block(stmts, tr, ret_ty, indent):
    """statements ending in a return on every path -> Lean term"""
    pad = "  " * indent
    if not stmts:
        raise TranslationError("path without return")
    s = stmts[0]
    rest = stmts[1:]
    if isinstance(s, ast.Expr) and isinstance(s.value, ast.Constant) and isinstance(s.value.value, str):
        return tr_block(rest, tr, ret_ty, indent)   # docstring
    if isinstance(s, ast.Return):
        txt, t = tr.tr(s.value)
        if t != ret_ty:
            raise TranslationError("return type %s, expected %s" % (t, ret_ty))
        return pad + txt
    if isinstance(s, ast.Assign) and len(s.targets) == 1 and isinstance(s.targets[0], ast.Name):
        txt, t = tr.tr(s.value)
        name = s.targets[0].id
        tr2 = ExprTr(tr.env)
        tr2.env[name] = t
        return pad + "let %s := %s\n" % (name, txt) + tr_block(rest, tr2, ret_ty, indent)
    if isinstance(s, ast.If):
        c, ct = tr.tr(s.test)
        if ct != "Bool":
            raise TranslationError("non-bool condition")
        then = tr_block(s.body + ([] if _returns(s.body) else rest), tr, ret_ty, indent + 1)
        els_stmts = s.orelse if s.orelse else []
        els = tr_block(els_stmts + ([] if (els_stmts and _returns(els_stmts)) else rest), tr, ret_ty, indent + 1)
        return pad + "if %s then\n%s\n%selse\n%s" % (c, then, pad, els)
    raise TranslationError("unsupported statement %s" % type(s).__name__)


def _returns(stmts):
    if not stmts:
        return False
    last = stmts[-1]
    if isinstance(last, ast.Return):
        return True
    if isinstance(last, ast.If):
        return _returns(last.body) and bool(last.orelse) and _returns(last.orelse)
    return False


def gen_prims():
    tree = parse("src/common.py")
    out = ["-- GENERATED by harness/translate.py from /repo/src/common.py -- do not edit",
           "namespace IsoVerif.Gen", "",
           "abbrev Iv := Int × Int", "",
           "def iabs (x : Int) : Int := if x < 0 then -x else x", ""]
    defaults = {}
    for name in PRIM_ORDER:
        fn = find_def(tree, name)
        params, ret = PRIM_SIGS[name]
        argnames = [a.arg for a in fn.args.args]
        if argnames != [p for p, _ in params]:
            raise TranslationError("%s: parameters %s, expected %s" % (name, argnames, [p for p, _ in params]))
        # defaults (recorded for the harness; Lean side takes all arguments explicitly)
        ds = fn.args.defaults
        for a, d in zip(argnames[len(argnames) - len(ds):], ds):
            if not (isinstance(d, ast.Constant) and isinstance(d.value, int)):
                raise TranslationError("%s: unsupported default" % name)
            defaults["%s.%s" % (name, a)] = d.value
        tr = ExprTr(dict(params))
        body = tr_block(fn.body, tr, ret, 1)
        sig = " ".join("(%s : %s)" % (p, t) for p, t in params)
        out.append("def %s %s : %s :=\n%s\n" % (name, sig, ret, body))
    out.append("end IsoVerif.Gen\n")
    return "\n".join(out), {"prim_defaults": defaults}


# ----------------------------------------------------------------------------------------------
# enums and tables

def lean_ident(s):
    kw = {"none", "all", "match", "end", "at", "from", "with", "do", "then", "else", "if", "fun", "let", "in",
          "unique", "private", "open", "default"}
    return "«%s»" % s if s in kw else s


def enum_members(cls):
    mem = []
    for n in cls.body:
        if isinstance(n, ast.Assign) and len(n.targets) == 1 and isinstance(n.targets[0], ast.Name):
            v = n.value
            if isinstance(v, ast.Constant) and isinstance(v.value, int):
                mem.append((n.targets[0].id, v.value))
            else:
                raise TranslationError("enum %s: non-int member %s" % (cls.name, n.targets[0].id))
    if not mem:
        raise TranslationError("enum %s has no members" % cls.name)
    return mem


ENUMS = [("src/isoform_assignment.py", "ReadAssignmentType"),
         ("src/isoform_assignment.py", "MatchClassification"),
         ("src/isoform_assignment.py", "MatchEventSubtype"),
         ("src/long_read_counter.py", "CountingStrategy"),
         ("src/long_read_counter.py", "GroupedOutputFormat"),
         ("src/long_read_counter.py", "NormalizationMethod"),
         ("src/common.py", "CigarEvent"),
         ("src/alignment_processor.py", "AlignmentType"),
         ("src/gene_info.py", "TranscriptModelType"),
         ("src/polya_verification.py", "PolyACorrectionStrategy") if False else None,
         ]
ENUMS = [e for e in ENUMS if e]


def gen_enums():
    out = ["-- GENERATED by harness/translate.py -- do not edit", "namespace IsoVerif.Gen", ""]
    info = {}
    for rel, cname in ENUMS:
        cls = find_def(parse(rel), cname)
        mem = enum_members(cls)
        info[cname] = mem
        out.append("inductive %s where" % cname)
        for m, _ in mem:
            out.append("  | %s" % lean_ident(m))
        out.append("  deriving DecidableEq, Repr, Inhabited\n")
        out.append("namespace %s" % cname)
        out.append("def allMembers : List %s := [%s]" % (cname, ", ".join("." + lean_ident(m) for m, _ in mem)))
        if not any(m == "all" for m, _ in mem):
            out.append("def all : List %s := allMembers" % cname)
        out.append("def value : %s → Nat" % cname)
        for m, v in mem:
            out.append("  | .%s => %d" % (lean_ident(m), v))
        out.append("def name : %s → String" % cname)
        for m, _ in mem:
            out.append("  | .%s => \"%s\"" % (lean_ident(m), m))
        out.append("def ofValue? (n : Nat) : Option %s := allMembers.find? (fun x => x.value == n)" % cname)
        out.append("def ofName? (s : String) : Option %s := allMembers.find? (fun x => x.name == s)" % cname)
        out.append("end %s\n" % cname)
    out.append("end IsoVerif.Gen\n")
    return "\n".join(out), {"enums": info}


def attr_members(node, cname):
    """a set/list display of `cname.member` attributes -> [member]"""
    if isinstance(node, (ast.Set, ast.List, ast.Tuple)):
        res = []
        for e in node.elts:
            if isinstance(e, ast.Attribute) and isinstance(e.value, ast.Name) and e.value.id == cname:
                res.append(e.attr)
            else:
                raise TranslationError("unexpected element in %s table" % cname)
        return res
    raise TranslationError("expected a set/list display")


def method_return_members(tree, cls, meth, cname):
    fn = find_def(tree, meth, cls)
    rets = [n for n in ast.walk(fn) if isinstance(n, ast.Return)]
    if len(rets) != 1:
        raise TranslationError("%s.%s: expected one return" % (cls, meth))
    r = rets[0].value
    if not (isinstance(r, ast.Compare) and len(r.ops) == 1 and isinstance(r.ops[0], ast.In)):
        raise TranslationError("%s.%s: expected `x in {...}`" % (cls, meth))
    return attr_members(r.comparators[0], cname)


def lean_list(cname, members):
    return "[" + ", ".join("%s.%s" % (cname, lean_ident(m)) for m in members) + "]"


def gen_event_classes():
    tree = parse("src/isoform_assignment.py")
    out = ["-- GENERATED by harness/translate.py from /repo/src/isoform_assignment.py -- do not edit",
           "import IsoVerif.Gen.Enums", "namespace IsoVerif.Gen", ""]
    info = {}
    for meth in ["is_inconsistent", "is_consistent", "is_unassigned", "is_unique", "is_ambiguous"]:
        ms = method_return_members(tree, "ReadAssignmentType", meth, "ReadAssignmentType")
        info["rat_" + meth] = ms
        out.append("def rat_%s_list : List ReadAssignmentType := %s" % (meth, lean_list("ReadAssignmentType", ms)))
        out.append("def ReadAssignmentType.%s (t : ReadAssignmentType) : Bool := rat_%s_list.contains t\n" % (meth, meth))
    for meth in ["is_alignment_artifact", "is_minor_error", "is_consistent", "is_major_elongation",
                 "is_minor_elongation"]:
        ms = method_return_members(tree, "MatchEventSubtype", meth, "MatchEventSubtype")
        info["mes_" + meth] = ms
        out.append("def mes_%s_list : List MatchEventSubtype := %s" % (meth, lean_list("MatchEventSubtype", ms)))
        out.append("def MatchEventSubtype.%s (t : MatchEventSubtype) : Bool := mes_%s_list.contains t\n" % (meth, meth))
    for name in ["nnic_event_types", "nic_event_types", "nonintronic_events"]:
        ms = attr_members(find_assign(tree, name), "MatchEventSubtype")
        info[name] = ms
        out.append("def %s : List MatchEventSubtype := %s\n" % (name, lean_list("MatchEventSubtype", ms)))
    # all_major_events = nic.union(nnic); intronic_major_events = all_major.difference(nonintronic)
    ame = find_assign(tree, "all_major_events")
    ime = find_assign(tree, "intronic_major_events")
    if ast.unparse(ame) != "nic_event_types.union(nnic_event_types)" or \
            ast.unparse(ime) != "all_major_events.difference(nonintronic_events)":
        raise TranslationError("all_major_events / intronic_major_events defined differently")
    out.append("def all_major_events : List MatchEventSubtype := nic_event_types ++ nnic_event_types")
    out.append("def intronic_major_events : List MatchEventSubtype := "
               "all_major_events.filter (fun e => !nonintronic_events.contains e)")
    out.append("def MatchEventSubtype.is_major_inconsistency (t : MatchEventSubtype) : Bool := all_major_events.contains t")
    out.append("def MatchEventSubtype.is_intronic_inconsistency (t : MatchEventSubtype) : Bool := intronic_major_events.contains t\n")
    # event costs in hundredths
    cost = find_assign(tree, "event_subtype_cost")
    if not isinstance(cost, ast.Dict):
        raise TranslationError("event_subtype_cost is not a dict display")
    rows = []
    for k, v in zip(cost.keys, cost.values):
        if not (isinstance(k, ast.Attribute) and isinstance(v, ast.Constant)):
            raise TranslationError("event_subtype_cost: unexpected entry")
        h = round(float(v.value) * 100)
        if abs(h - float(v.value) * 100) > 1e-9:
            raise TranslationError("event cost not a multiple of 0.01")
        rows.append((k.attr, h))
    info["event_cost_hundredths"] = rows
    out.append("/-- cost in hundredths; `none` = KeyError in the code -/")
    out.append("def event_cost_table : List (MatchEventSubtype × Nat) := [" +
               ", ".join("(.%s, %d)" % (lean_ident(m), h) for m, h in rows) + "]")
    out.append("def event_cost_hundredths (t : MatchEventSubtype) : Option Nat := "
               "(event_cost_table.find? (fun p => p.1 == t)).map (·.2)\n")
    # SupplementaryMatchConstants
    smc = find_def(tree, "SupplementaryMatchConstants")
    consts = {}
    for n in smc.body:
        if isinstance(n, ast.Assign):
            nm = n.targets[0].id
            try:
                val = eval(compile(ast.Expression(n.value), "<smc>", "eval"), {}, dict(consts))
            except Exception as ex:
                raise TranslationError("SupplementaryMatchConstants.%s: %s" % (nm, ex))
            consts[nm] = val
    info["SupplementaryMatchConstants"] = {k: list(v) if isinstance(v, tuple) else v for k, v in consts.items()}
    for k, v in consts.items():
        if isinstance(v, int):
            out.append("def smc_%s : Nat := %d" % (k, v))
        else:
            out.append("def smc_%s : Nat × Nat := (%d, %d)" % (k, v[0], v[1]))
    out.append("\nend IsoVerif.Gen\n")
    return "\n".join(out), info


def namedtuple_table(fn, table_name="strategies"):
    """dict display name -> Call(args...) inside function fn; plus the namedtuple field names"""
    fields = None
    table = None
    for n in ast.walk(fn):
        if isinstance(n, ast.Assign) and isinstance(n.value, ast.Call) and \
                isinstance(n.value.func, ast.Name) and n.value.func.id == "namedtuple":
            fl = n.value.args[1]
            fields = [e.value for e in fl.elts]
        if isinstance(n, ast.Assign) and isinstance(n.targets[0], ast.Name) and n.targets[0].id == table_name \
                and isinstance(n.value, ast.Dict):
            table = n.value
    if fields is None or table is None:
        raise TranslationError("%s: preset table not found" % fn.name)
    rows = {}
    for k, v in zip(table.keys, table.values):
        if not (isinstance(k, ast.Constant) and isinstance(v, ast.Call)):
            raise TranslationError("%s: unexpected preset row" % fn.name)
        vals = []
        for a in v.args:
            vals.append(ast.unparse(a))
        if len(vals) != len(fields):
            raise TranslationError("%s: preset row arity" % fn.name)
        rows[k.value] = vals
    return fields, rows


def lean_val(txt):
    """python literal text -> lean literal; strings/enum-attrs become strings"""
    if txt in ("True", "False"):
        return txt.lower(), "Bool"
    try:
        i = int(txt)
        return str(i), "Int"
    except ValueError:
        pass
    try:
        f = float(txt)
        # as rational thousandths
        th = round(f * 1000)
        if abs(th - f * 1000) > 1e-9:
            raise TranslationError("float %s not a multiple of 0.001" % txt)
        return str(th), "Milli"
    except ValueError:
        pass
    if txt.startswith("'") or txt.startswith('"'):
        return '"%s"' % txt[1:-1], "String"
    return '"%s"' % txt, "String"


def gen_strategies():
    out = ["-- GENERATED by harness/translate.py -- do not edit",
           "import IsoVerif.Gen.Enums", "namespace IsoVerif.Gen", ""]
    info = {}
    tree = parse("src/long_read_counter.py")
    for meth in ["no_inconsistent", "ambiguous", "inconsistent_minor", "inconsistent"]:
        ms = method_return_members(tree, "CountingStrategy", meth, "CountingStrategy")
        info["cs_" + meth] = ms
        out.append("def cs_%s_list : List CountingStrategy := %s" % (meth, lean_list("CountingStrategy", ms)))
        out.append("def CountingStrategy.%s (s : CountingStrategy) : Bool := cs_%s_list.contains s\n" % (meth, meth))
    for meth in ["output_matrix", "output_linear"]:
        ms = method_return_members(tree, "GroupedOutputFormat", meth, "GroupedOutputFormat")
        info["gof_" + meth] = ms
        out.append("def GroupedOutputFormat.%s (s : GroupedOutputFormat) : Bool := (%s).contains s\n"
                   % (meth, lean_list("GroupedOutputFormat", ms)))
    # CountingStrategyFlags wiring
    csf = find_def(tree, "__init__", "CountingStrategyFlags")
    wiring = {}
    for n in csf.body:
        if isinstance(n, ast.Assign) and isinstance(n.targets[0], ast.Attribute):
            wiring[n.targets[0].attr] = ast.unparse(n.value)
    expect = {"use_ambiguous": "counting_strategy.ambiguous()",
              "use_inconsistent_minor": "counting_strategy.inconsistent_minor()",
              "use_inconsistent": "counting_strategy.inconsistent()"}
    if wiring != expect:
        raise TranslationError("CountingStrategyFlags wiring changed: %s" % wiring)
    info["CountingStrategyFlags"] = wiring
    iq = parse("isoquant.py")
    for fname, prefix in [("set_matching_options", "matching"), ("set_splice_correction_options", "correction"),
                          ("set_model_construction_options", "construction")]:
        fn = find_def(iq, fname)
        fields, rows = namedtuple_table(fn)
        info[prefix + "_fields"] = fields
        info[prefix + "_rows"] = rows
        # one structure per table
        typed = None
        for r in rows.values():
            tys = [lean_val(v)[1] for v in r]
            if typed is None:
                typed = tys
            else:
                typed = [a if a == b else ("Milli" if {a, b} == {"Int", "Milli"} else "String") for a, b in zip(typed, tys)]
        sname = prefix.capitalize() + "Preset"
        out.append("structure %s where" % sname)
        for f, t in zip(fields, typed):
            out.append("  %s : %s" % (lean_ident(f), {"Milli": "Int"}.get(t, t)))
        out.append("  deriving Repr, DecidableEq\n")
        out.append("def %s_presets : List (String × %s) := [" % (prefix, sname))
        lines = []
        for k, r in rows.items():
            vals = []
            for v, t in zip(r, typed):
                lv, lt = lean_val(v)
                if t == "Milli" and lt == "Int":
                    lv = str(int(lv) * 1000)
                if t == "String" and lt != "String":
                    lv = '"%s"' % v
                if lv.startswith("-"):
                    lv = "(%s)" % lv
                vals.append(lv)
            lines.append('  ("%s", ⟨%s⟩)' % (k, ", ".join(vals)))
        out.append(",\n".join(lines) + "]\n")
        info[prefix + "_types"] = typed
    out.append("end IsoVerif.Gen\n")
    return "\n".join(out), info


def module_int_consts(tree, names):
    res = {}
    env = {}
    for n in tree.body:
        if isinstance(n, ast.Assign) and len(n.targets) == 1 and isinstance(n.targets[0], ast.Name):
            nm = n.targets[0].id
            try:
                val = eval(compile(ast.Expression(n.value), "<const>", "eval"), {"__builtins__": {}}, dict(env))
            except Exception:
                continue
            env[nm] = val
            if nm in names:
                res[nm] = val
    missing = [n for n in names if n not in res]
    if missing:
        raise TranslationError("constants not found: %s" % missing)
    return res


def class_consts(tree, cname):
    cls = find_def(tree, cname)
    env = {}
    for n in cls.body:
        if isinstance(n, ast.Assign) and len(n.targets) == 1 and isinstance(n.targets[0], ast.Name):
            try:
                env[n.targets[0].id] = eval(compile(ast.Expression(n.value), "<const>", "eval"),
                                            {"__builtins__": {}}, dict(env))
            except Exception:
                pass
    return env


def gen_constants():
    out = ["-- GENERATED by harness/translate.py -- do not edit", "namespace IsoVerif.Gen", ""]
    info = {}
    ser = parse("src/serialization.py")
    ser_names = [n.targets[0].id for n in ser.body
                 if isinstance(n, ast.Assign) and isinstance(n.targets[0], ast.Name) and n.targets[0].id.isupper()]
    sc = module_int_consts(ser, ser_names)
    info["serialization"] = {k: (v if not isinstance(v, float) else v) for k, v in sc.items()}
    for k, v in sc.items():
        if isinstance(v, bool) or not isinstance(v, (int, str)):
            if isinstance(v, float) and v == int(v):
                out.append("def ser_%s : Nat := %d" % (k, int(v)))
                continue
            raise TranslationError("serialization constant %s has unsupported value %r" % (k, v))
        if isinstance(v, int):
            if v < 0:
                raise TranslationError("negative serialization constant")
            out.append("def ser_%s : Nat := %d" % (k, v))
        else:
            out.append('def ser_%s : String := "%s"' % (k, v))
    out.append("")
    ap = parse("src/alignment_processor.py")
    apc = {}
    ac = class_consts(ap, "AlignmentCollector")
    ac.update(class_consts(ap, "AbstractAlignmentStorage"))
    mc = {}
    for n in ap.body:
        if isinstance(n, ast.Assign) and isinstance(n.targets[0], ast.Name) and n.targets[0].id.isupper():
            try:
                mc[n.targets[0].id] = eval(compile(ast.Expression(n.value), "<c>", "eval"), {"__builtins__": {}}, dict(mc))
            except Exception:
                pass
    apc.update(mc)
    apc.update({k: v for k, v in ac.items() if k.isupper()})
    info["alignment_processor"] = apc
    for k, v in apc.items():
        if isinstance(v, bool):
            continue
        if isinstance(v, int):
            out.append("def ap_%s : Int := %d" % (k, v))
        elif isinstance(v, float):
            th = round(v * 10000)
            if abs(th - v * 10000) > 1e-9:
                raise TranslationError("float constant %s" % k)
            out.append("def ap_%s_e4 : Int := %d" % (k, th))
    out.append("")
    aio = parse("src/assignment_io.py")
    tp = class_consts(aio, "TmpFileAssignmentPrinter")
    for k in ("GENE_INFO", "READ_ASSIGNMENT"):
        if k not in tp:
            raise TranslationError("TmpFileAssignmentPrinter.%s missing" % k)
        out.append("def tmp_%s : Nat := %d" % (k, tp[k]))
    info["tmp_printer"] = {k: tp[k] for k in ("GENE_INFO", "READ_ASSIGNMENT")}
    out.append("")
    cm = parse("src/common.py")
    for nm in ("CANONICAL_FWD_SITES", "CANONICAL_REV_SITES"):
        v = find_assign(cm, nm)
        pairs = sorted(ast.literal_eval(v))
        info[nm] = [list(p) for p in pairs]
        out.append("def %s : List (String × String) := [%s]" % (nm, ", ".join('("%s", "%s")' % p for p in pairs)))
    tn = class_consts(cm, "TranscriptNaming")
    info["TranscriptNaming"] = tn
    for k, v in tn.items():
        out.append('def tn_%s : String := "%s"' % (k, v))
    out.append("\nend IsoVerif.Gen\n")
    return "\n".join(out), info


MUTABLE_CTORS = {"set", "dict", "list", "defaultdict", "Counter", "OrderedDict", "deque"}


def is_mutable_init(v):
    if isinstance(v, (ast.Set, ast.Dict, ast.List, ast.ListComp, ast.DictComp, ast.SetComp)):
        return True
    if isinstance(v, ast.Call):
        f = v.func
        nm = f.id if isinstance(f, ast.Name) else (f.attr if isinstance(f, ast.Attribute) else "")
        if nm in MUTABLE_CTORS or nm.endswith("Distributor") or nm.endswith("Storage") or nm.endswith("Counter"):
            return True
    return False


def import_closure(root="isoquant.py"):
    """module files of /repo reachable from `root` through import statements (transitively)"""
    seen, todo = set(), [root]
    while todo:
        rel = todo.pop()
        if rel in seen or not os.path.exists(os.path.join(REPO, rel)):
            continue
        seen.add(rel)
        try:
            tree = parse(rel)
        except SyntaxError as ex:
            raise TranslationError("cannot parse %s: %s" % (rel, ex))
        pkg = os.path.dirname(rel)
        for n in ast.walk(tree):
            mods = []
            if isinstance(n, ast.Import):
                mods = [a.name for a in n.names]
            elif isinstance(n, ast.ImportFrom):
                base = n.module or ""
                if n.level:       # relative import inside the package of `rel`
                    base = (pkg.replace("/", ".") + ("." + base if base else "")) if pkg else base
                mods = [base] + [base + "." + a.name for a in n.names]
            for m in mods:
                cand = m.replace(".", "/") + ".py"
                if os.path.exists(os.path.join(REPO, cand)):
                    todo.append(cand)
    return seen


def _self_mutations(trees, owner, name, mutators):
    """mutations of a class-body container reached through an instance: `self.<name>.<mutator>(...)`,
    `self.<name>[...] = ...`, `self.<name> += ...` inside methods of `owner` or of a class deriving from it, unless
    that class gives every instance its own object (`self.<name> = ...` in its `__init__` or in the `__init__` of
    `owner`).  Such a container is shared by all instances of the process although no `Owner.`/`cls.` spelling occurs."""
    classes = {}
    for rel, tree in trees.items():
        for n in ast.walk(tree):
            if isinstance(n, ast.ClassDef):
                classes.setdefault(n.name, []).append((rel, n))

    def rebinds_in_init(cnode):
        for m in cnode.body:
            if isinstance(m, ast.FunctionDef) and m.name == "__init__":
                for n in ast.walk(m):
                    if isinstance(n, (ast.Assign, ast.AnnAssign)):
                        ts = n.targets if isinstance(n, ast.Assign) else [n.target]
                        for t in ts:
                            if isinstance(t, ast.Attribute) and t.attr == name and isinstance(t.value, ast.Name) \
                                    and t.value.id == "self":
                                return True
        return False

    def derives(cnode, seen=()):
        if cnode.name == owner:
            return True
        for b in cnode.bases:
            bn = b.id if isinstance(b, ast.Name) else (b.attr if isinstance(b, ast.Attribute) else None)
            if bn and bn not in seen:
                for _, c in classes.get(bn, []):
                    if derives(c, seen + (cnode.name,)):
                        return True
        return False

    owner_rebinds = any(rebinds_in_init(c) for _, c in classes.get(owner, []))
    is_self = lambda v: isinstance(v, ast.Attribute) and v.attr == name and isinstance(v.value, ast.Name) and v.value.id == "self"
    sites = []
    for cname, lst in classes.items():
        for rel, cnode in lst:
            if not derives(cnode):
                continue
            if rebinds_in_init(cnode) or (cnode.name != owner and owner_rebinds and not any(
                    isinstance(m, ast.FunctionDef) and m.name == "__init__" for m in cnode.body)):
                continue      # every instance has its own object
            if cnode.name == owner and owner_rebinds:
                continue
            for m in cnode.body:
                if not isinstance(m, (ast.FunctionDef, ast.AsyncFunctionDef)):
                    continue
                for n in ast.walk(m):
                    if isinstance(n, ast.Call) and isinstance(n.func, ast.Attribute) and n.func.attr in mutators \
                            and is_self(n.func.value):
                        sites.append("%s:%d" % (rel, n.lineno))
                    elif isinstance(n, (ast.Assign, ast.AugAssign)):
                        for t in (n.targets if isinstance(n, ast.Assign) else [n.target]):
                            if isinstance(t, ast.Subscript) and is_self(t.value):
                                sites.append("%s:%d" % (rel, n.lineno))
                            elif isinstance(n, ast.AugAssign) and is_self(t):
                                sites.append("%s:%d" % (rel, n.lineno))
    return sites


def _escape_sites(trees, owner, name):
    """places where a class-level mutable container escapes under another name (`self.x = Owner.name`,
    `f(Owner.name)`, `return Owner.name`, `[Owner.name]`): every later mutation through the alias is a mutation of
    process-wide state, so an escaping container counts as shared state even without a direct mutation site"""
    sites = []
    for rel, tree in trees.items():
        for parent in ast.walk(tree):
            kids = []
            if isinstance(parent, ast.Assign):
                kids = [parent.value]
            elif isinstance(parent, ast.AnnAssign) and parent.value is not None:
                kids = [parent.value]
            elif isinstance(parent, ast.Return) and parent.value is not None:
                kids = [parent.value]
            elif isinstance(parent, ast.Call):
                kids = list(parent.args) + [k.value for k in parent.keywords]
            elif isinstance(parent, (ast.List, ast.Tuple, ast.Set)):
                kids = list(parent.elts)
            elif isinstance(parent, ast.Dict):
                kids = [v for v in parent.values if v is not None]
            for k in kids:
                if isinstance(k, ast.Attribute) and k.attr == name and isinstance(k.value, ast.Name) \
                        and k.value.id in (owner, "cls") and isinstance(k.ctx, ast.Load):
                    if k.value.id == "cls":
                        # only inside the owner class
                        continue
                    sites.append("alias:%s:%d" % (rel, getattr(parent, "lineno", 0)))
    return sites


def gen_shared_state():
    """class-level and module-level state with at least one mutation site in the code base.
    Kinds: class-body containers / counters / distributors; module-level containers; module variables rebound
    through `global`; mutable default arguments that are mutated; memoising decorators.  Only modules reachable
    from isoquant.py by imports are part of the pipeline; state of other modules (stand-alone scripts) is
    listed separately as `shared_state_unreachable`."""
    files = ["isoquant.py"] + sorted("src/" + f for f in os.listdir(os.path.join(REPO, "src")) if f.endswith(".py"))
    reachable = import_closure()
    cands = []   # (kind, file, owner, name, mutable_container)
    trees = {}
    for rel in files:
        try:
            tree = parse(rel)
        except SyntaxError as ex:
            raise TranslationError("cannot parse %s: %s" % (rel, ex))
        trees[rel] = tree
        for n in tree.body:
            if isinstance(n, ast.Assign) and len(n.targets) == 1 and isinstance(n.targets[0], ast.Name):
                if is_mutable_init(n.value):
                    cands.append(("module", rel, "", n.targets[0].id, True))
            if isinstance(n, ast.ClassDef):
                is_enum = any((isinstance(b, ast.Name) and b.id == "Enum") for b in n.bases)
                if is_enum:
                    continue
                for m in n.body:
                    if isinstance(m, ast.Assign) and len(m.targets) == 1 and isinstance(m.targets[0], ast.Name):
                        if is_mutable_init(m.value):
                            cands.append(("class", rel, n.name, m.targets[0].id, True))
                        elif isinstance(m.value, ast.Constant) and isinstance(m.value.value, (int, float)) \
                                and not isinstance(m.value.value, bool):
                            cands.append(("class", rel, n.name, m.targets[0].id, False))
    # mutation sites: X.name.<mutator>(...), X.name[...] = , X.name += , X.name = (outside the class body/__init__ of self)
    mutators = {"add", "append", "update", "extend", "insert", "pop", "remove", "clear", "discard", "increment",
                "setdefault", "popitem", "inc", "get_id"}
    inventory = []
    for kind, rel, owner, name, container in cands:
        sites = []
        for rel2, tree in trees.items():
            for n in ast.walk(tree):
                tgt = None
                if isinstance(n, ast.Call) and isinstance(n.func, ast.Attribute) and n.func.attr in mutators:
                    tgt = n.func.value
                elif isinstance(n, (ast.Assign, ast.AugAssign)):
                    ts = n.targets if isinstance(n, ast.Assign) else [n.target]
                    for t in ts:
                        if isinstance(t, ast.Subscript):
                            t = t.value
                            if _refers(t, kind, owner, name, rel == rel2):
                                sites.append("%s:%d" % (rel2, n.lineno))
                        elif isinstance(n, ast.AugAssign) and _refers(t, kind, owner, name, rel == rel2):
                            sites.append("%s:%d" % (rel2, n.lineno))
                        elif isinstance(n, ast.Assign) and isinstance(t, ast.Attribute) and kind == "class" \
                                and isinstance(t.value, ast.Name) and t.value.id == owner and t.attr == name:
                            sites.append("%s:%d" % (rel2, n.lineno))
                    continue
                if tgt is not None and _refers(tgt, kind, owner, name, rel == rel2):
                    sites.append("%s:%d" % (rel2, n.lineno))
        if kind == "class" and container:
            sites += _self_mutations(trees, owner, name, mutators)
            sites += _escape_sites(trees, owner, name)
        if sites:
            inventory.append({"kind": kind, "file": rel, "owner": owner, "name": name, "sites": sorted(set(sites))})
    # args fields assigned outside isoquant.py
    args_fields = set()
    for rel2, tree in trees.items():
        if rel2 == "isoquant.py":
            continue
        for n in ast.walk(tree):
            if isinstance(n, ast.Assign):
                for t in n.targets:
                    if isinstance(t, ast.Attribute) and t.attr not in ("__dict__",):
                        v = t.value
                        if (isinstance(v, ast.Name) and v.id == "args") or \
                                (isinstance(v, ast.Attribute) and v.attr in ("args", "params") and isinstance(v.value, ast.Name) and v.value.id == "self"):
                            args_fields.add(t.attr)
    # further kinds of process-wide state
    memo_names = {"lru_cache", "cache", "cached_property", "memoize"}
    mut_methods = mutators
    for rel2, tree in trees.items():
        for fn in ast.walk(tree):
            if not isinstance(fn, (ast.FunctionDef, ast.AsyncFunctionDef)):
                continue
            for d in fn.decorator_list:
                dn = d.func if isinstance(d, ast.Call) else d
                nm = dn.id if isinstance(dn, ast.Name) else (dn.attr if isinstance(dn, ast.Attribute) else "")
                if nm in memo_names:
                    inventory.append({"kind": "memo", "file": rel2, "owner": "", "name": "memo:" + fn.name,
                                      "sites": ["%s:%d" % (rel2, fn.lineno)]})
            glob = set()
            for n in ast.walk(fn):
                if isinstance(n, ast.Global):
                    glob.update(n.names)
            for g in sorted(glob):
                inventory.append({"kind": "global", "file": rel2, "owner": "", "name": "global:" + g,
                                  "sites": ["%s:%d" % (rel2, fn.lineno)]})
            defaults = list(zip(fn.args.args[len(fn.args.args) - len(fn.args.defaults):], fn.args.defaults)) + \
                [(a, d) for a, d in zip(fn.args.kwonlyargs, fn.args.kw_defaults) if d is not None]
            for a, d in defaults:
                if not is_mutable_init(d):
                    continue
                hit = None
                for n in ast.walk(fn):
                    if isinstance(n, ast.Call) and isinstance(n.func, ast.Attribute) and n.func.attr in mut_methods \
                            and isinstance(n.func.value, ast.Name) and n.func.value.id == a.arg:
                        hit = n.lineno
                    if isinstance(n, (ast.Assign, ast.AugAssign)):
                        for t in (n.targets if isinstance(n, ast.Assign) else [n.target]):
                            if isinstance(t, ast.Subscript) and isinstance(t.value, ast.Name) and t.value.id == a.arg:
                                hit = n.lineno
                if hit:
                    inventory.append({"kind": "default", "file": rel2, "owner": "", "name": "default:%s.%s" % (fn.name, a.arg),
                                      "sites": ["%s:%d" % (rel2, hit)]})
    for i in inventory:
        i["reachable"] = i["file"] in reachable
    unreachable = [i for i in inventory if not i["reachable"]]
    inventory = [i for i in inventory if i["reachable"]]
    label = lambda i: (i["owner"] + "." if i["owner"] else i["file"] + ":") + i["name"]
    out = ["-- GENERATED by harness/translate.py -- do not edit", "namespace IsoVerif.Gen", "",
           "/-- class-level / module-level state with at least one mutation site, in modules reachable from isoquant.py: \"Owner.name\" -/",
           "def shared_state_inventory : List String := [" + ", ".join('"%s"' % label(i) for i in inventory) + "]",
           "", "/-- the same kinds of state in modules that isoquant.py never imports (stand-alone scripts) -/",
           "def shared_state_unreachable : List String := [" + ", ".join('"%s"' % label(i) for i in unreachable) + "]",
           "", "/-- fields of the long-lived args/params namespace assigned outside isoquant.py -/",
           "def args_fields_mutated : List String := [" + ", ".join('"%s"' % a for a in sorted(args_fields)) + "]",
           "", "end IsoVerif.Gen\n"]
    return "\n".join(out), {"shared_state": inventory, "unreachable": unreachable, "args_fields": sorted(args_fields)}


def _refers(node, kind, owner, name, same_file):
    if kind == "class":
        # Owner.name  |  self.name / cls.name (only inside the same file: treat as class attr access)
        if isinstance(node, ast.Attribute) and node.attr == name and isinstance(node.value, ast.Name):
            if node.value.id == owner:
                return True
            if node.value.id == "cls" and same_file:
                return True
        return False
    else:
        return isinstance(node, ast.Name) and node.id == name and same_file


# ----------------------------------------------------------------------------------------------
# C06: inventory of hash-order / nondeterminism sites (heuristic AST scan, pipeline-reachable modules)

SET_CTORS = {"set", "frozenset"}
SET_METHODS = {"union", "intersection", "difference", "symmetric_difference", "copy"}
SET_RETURNING = {"get_features"}     # assignment extractors of long_read_counter return sets of ids
ITER_CALLS = {"list", "tuple", "next", "iter", "enumerate", "map", "filter", "zip", "min", "max"}
NONDET_CALLS = {("random", None), ("time", "time"), ("time", "perf_counter"), ("datetime", "now"), ("uuid", None),
                ("os", "getpid"), ("os", "urandom"), (None, "hash"), (None, "id")}


def _set_env(trees):
    """names that hold sets anywhere in the scanned files: attributes assigned a set expression,
    names of dicts of sets (defaultdict(set))"""
    setattrs, setdicts = set(), set()

    def direct(v):
        if isinstance(v, (ast.Set, ast.SetComp)):
            return True
        if isinstance(v, ast.Call) and isinstance(v.func, ast.Name) and v.func.id in SET_CTORS:
            return True
        if isinstance(v, ast.IfExp):
            return direct(v.body) or direct(v.orelse)
        return False
    for tree in trees.values():
        for n in ast.walk(tree):
            if isinstance(n, ast.Assign):
                v = n.value
                isdd = isinstance(v, ast.Call) and isinstance(v.func, ast.Name) and v.func.id == "defaultdict" and v.args \
                    and isinstance(v.args[0], ast.Name) and v.args[0].id in SET_CTORS
                for tg in n.targets:
                    if isinstance(tg, ast.Attribute):
                        if direct(v):
                            setattrs.add(tg.attr)
                        if isdd:
                            setdicts.add(tg.attr)
                    if isinstance(tg, ast.Name) and isdd:
                        setdicts.add(tg.id)
    return setattrs, setdicts


def _is_set_expr(v, names, setattrs, setdicts):
    r = lambda x: _is_set_expr(x, names, setattrs, setdicts)
    if isinstance(v, (ast.Set, ast.SetComp)):
        return True
    if isinstance(v, ast.IfExp):
        return r(v.body) or r(v.orelse)
    if isinstance(v, ast.Call):
        f = v.func
        if isinstance(f, ast.Name) and f.id in SET_CTORS:
            return True
        if isinstance(f, ast.Attribute) and f.attr in SET_METHODS and r(f.value):
            return True
        if isinstance(f, ast.Attribute) and f.attr in SET_RETURNING:
            return True
        return False
    if isinstance(v, ast.Name):
        return v.id in names
    if isinstance(v, ast.Attribute):
        return v.attr in setattrs
    if isinstance(v, ast.BinOp) and isinstance(v.op, (ast.BitOr, ast.BitAnd, ast.Sub, ast.BitXor)):
        return r(v.left) or r(v.right)
    if isinstance(v, ast.Subscript) and isinstance(v.value, (ast.Name, ast.Attribute)):
        nm = v.value.id if isinstance(v.value, ast.Name) else v.value.attr
        return nm in setdicts
    return False


def _functions(tree):
    """(qualified name, node) of every function, methods as Class.method"""
    res = []

    def walk(body, prefix):
        for n in body:
            if isinstance(n, ast.ClassDef):
                walk(n.body, prefix + n.name + ".")
            elif isinstance(n, (ast.FunctionDef, ast.AsyncFunctionDef)):
                res.append((prefix + n.name, n))
                walk(n.body, prefix + n.name + ".")
    walk(tree.body, "")
    return res


FILL_METHODS = {"append", "extend", "insert", "setdefault", "update", "appendleft"}
ORDER_CONSUMERS = {"sorted", "list", "tuple", "min", "max", "next", "iter", "enumerate", "zip", "map", "filter"}


def _order_sinks(fn, loop):
    """order-sensitive uses, anywhere in `fn`, of the dict / list containers that are filled in the body of `loop`
    (a `for` over a set): `sorted(…)`, `min/max(…)`, `list(…)`, `for … in …`, comprehensions, `join` over them"""
    filled = set()
    for n in ast.walk(ast.Module(body=loop.body, type_ignores=[])):
        tgt = None
        if isinstance(n, (ast.Assign, ast.AugAssign)):
            for t in (n.targets if isinstance(n, ast.Assign) else [n.target]):
                if isinstance(t, ast.Subscript):
                    tgt = t.value
        elif isinstance(n, ast.Call) and isinstance(n.func, ast.Attribute) and n.func.attr in FILL_METHODS:
            tgt = n.func.value
        while isinstance(tgt, ast.Subscript):
            tgt = tgt.value
        if isinstance(tgt, (ast.Name, ast.Attribute)):
            filled.add(ast.unparse(tgt))
    if not filled:
        return []

    def mentions(e):
        return any(isinstance(x, (ast.Name, ast.Attribute)) and ast.unparse(x) in filled for x in ast.walk(e))
    sinks = set()
    for n in ast.walk(fn):
        if n is loop:
            continue
        if isinstance(n, ast.Call) and isinstance(n.func, ast.Name) and n.func.id in ORDER_CONSUMERS and n.args \
                and mentions(n.args[-1] if n.func.id in ("map", "filter") else n.args[0]):
            sinks.add(ast.unparse(n).replace('"', "'")[:110])
        elif isinstance(n, ast.Call) and isinstance(n.func, ast.Attribute) and n.func.attr == "join" and n.args and mentions(n.args[0]):
            sinks.add(ast.unparse(n).replace('"', "'")[:110])
        elif isinstance(n, (ast.For, ast.comprehension)) and mentions(n.iter):
            inner = n.iter
            if not (isinstance(inner, ast.Call) and isinstance(inner.func, ast.Name) and inner.func.id in ORDER_CONSUMERS):
                sinks.add("for:" + ast.unparse(inner).replace('"', "'")[:80])
    return sorted(sinks)


def gen_set_sites():
    """every place where the iteration order of a `set` can be observed (for / comprehension / list() / join() /
    pop() ... over an expression known to be a set and not wrapped in sorted()), every call of a run-dependent
    primitive (random, time, hash(), id(), getpid ...), and the functions that read `.assignment_id` /
    FeatureInfo ids.  Heuristic: set-typed expressions are recognised by construction (`set()`, `{..}`,
    set operators), by attribute / dict-of-sets names assigned such values anywhere, and by parameters that
    carry such a name."""
    reach = sorted(import_closure())
    trees = {}
    for rel in reach:
        trees[rel] = parse(rel)
    setattrs, setdicts = _set_env(trees)
    sites, nondet, aid_readers, fid_readers = set(), set(), set(), set()
    for rel, tree in trees.items():
        mod = rel[:-3].replace("/", ".")
        for qn, fn in _functions(tree):
            names = {a.arg for a in fn.args.args + fn.args.kwonlyargs if a.arg in setattrs}
            changed = True
            while changed:
                changed = False
                for n in ast.walk(fn):
                    if isinstance(n, ast.Assign) and len(n.targets) == 1 and isinstance(n.targets[0], ast.Name) \
                            and n.targets[0].id not in names and _is_set_expr(n.value, names, setattrs, setdicts):
                        names.add(n.targets[0].id)
                        changed = True
            own = set()
            for sub_qn, sub in _functions(ast.Module(body=fn.body, type_ignores=[])):
                own.update(id(x) for x in ast.walk(sub))     # nested functions are reported under their own name
            for n in ast.walk(fn):
                if id(n) in own:
                    continue
                it, kind = None, None
                if isinstance(n, ast.For):
                    it, kind = n.iter, "for"
                elif isinstance(n, ast.comprehension):
                    it, kind = n.iter, "comp"
                elif isinstance(n, ast.Call) and isinstance(n.func, ast.Name) and n.func.id in ITER_CALLS and n.args:
                    it, kind = (n.args[-1] if n.func.id in ("map", "filter") else n.args[0]), n.func.id
                elif isinstance(n, ast.Call) and isinstance(n.func, ast.Attribute) and n.func.attr in ("join", "extend", "writelines") and n.args:
                    it, kind = n.args[0], n.func.attr
                elif isinstance(n, ast.Call) and isinstance(n.func, ast.Attribute) and n.func.attr == "pop" and not n.args \
                        and _is_set_expr(n.func.value, names, setattrs, setdicts):
                    it, kind = n.func.value, "pop"
                elif isinstance(n, ast.Starred):
                    it, kind = n.value, "star"
                if it is not None and _is_set_expr(it, names, setattrs, setdicts):
                    site = "%s:%s:%s:%s" % (mod, qn, kind, ast.unparse(it).replace('"', "'")[:60])
                    if isinstance(n, ast.For):
                        # containers filled inside the loop inherit the set's order (dict / list insertion order);
                        # their order-sensitive consumers in the same function are part of the site's identity, so
                        # that e.g. a changed sort key re-opens the site
                        sinks = _order_sinks(fn, n)
                        if sinks:
                            site += " => " + " ; ".join(sinks)
                    sites.add(site)
                if isinstance(n, ast.Call):
                    f = n.func
                    if isinstance(f, ast.Name) and (None, f.id) in NONDET_CALLS:
                        nondet.add("%s:%s:%s" % (mod, qn, f.id))
                    if isinstance(f, ast.Attribute) and isinstance(f.value, ast.Name):
                        if (f.value.id, f.attr) in NONDET_CALLS or (f.value.id, None) in NONDET_CALLS:
                            nondet.add("%s:%s:%s.%s" % (mod, qn, f.value.id, f.attr))
                if isinstance(n, ast.Attribute) and isinstance(n.ctx, ast.Load):
                    if n.attr == "assignment_id":
                        aid_readers.add("%s:%s" % (mod, qn))
                    if n.attr == "id" and "property_map" in ast.unparse(n.value):
                        fid_readers.add("%s:%s" % (mod, qn))
                    if n.attr in ("exon_property_map", "intron_property_map"):
                        fid_readers.add("%s:%s" % (mod, qn))
    ll = lambda xs: "[" + ", ".join('"%s"' % x for x in sorted(xs)) + "]"
    out = ["-- GENERATED by harness/translate.py -- do not edit", "namespace IsoVerif.Gen", "",
           "/-- places where the iteration order of a set is observable: \"module:function:kind:expression\" -/",
           "def set_iteration_sites : List String := " + ll(sites), "",
           "/-- calls of run-dependent primitives: \"module:function:callee\" -/",
           "def nondeterminism_calls : List String := " + ll(nondet), "",
           "/-- functions that read `.assignment_id` -/",
           "def assignment_id_readers : List String := " + ll(aid_readers), "",
           "/-- functions that touch the FeatureInfo objects of a gene (exon/intron property maps) -/",
           "def feature_info_readers : List String := " + ll(fid_readers), "",
           "end IsoVerif.Gen\n"]
    return "\n".join(out), {"set_sites": sorted(sites), "nondet": sorted(nondet), "assignment_id_readers": sorted(aid_readers),
                            "feature_info_readers": sorted(fid_readers), "reachable": reach}


def gen_corrector():
    """tables of src/exon_corrector.py ExonCorrector.process_events / correct_misalignments and the
    args <- strategy wiring of isoquant.py set_splice_correction_options (C14)"""
    tree = parse("src/exon_corrector.py")
    pe = find_def(tree, "process_events", "ExonCorrector")
    cm = find_def(tree, "correct_misalignments", "ExonCorrector")
    info = {}

    def mes(node):
        if isinstance(node, ast.Attribute) and isinstance(node.value, ast.Name) and node.value.id == "MatchEventSubtype":
            return node.attr
        return None

    def param(node):
        if isinstance(node, ast.Attribute) and isinstance(node.value, ast.Attribute) and node.value.attr == "params" \
                and isinstance(node.value.value, ast.Name) and node.value.value.id == "self":
            return node.attr
        return None

    # 1. the inline set of event types whose read introns are replaced by the *corrected* read introns
    sets = [n for n in ast.walk(pe) if isinstance(n, ast.Compare) and len(n.ops) == 1 and isinstance(n.ops[0], ast.In)
            and isinstance(n.comparators[0], ast.Set)]
    if len(sets) != 1:
        raise TranslationError("process_events: expected exactly one `event_type in {...}` test, found %d" % len(sets))
    if ast.unparse(sets[0].left) != "event.event_type":
        raise TranslationError("process_events: set membership test is not on event.event_type")
    known = attr_members(sets[0].comparators[0], "MatchEventSubtype")
    info["known_event_types"] = known
    # 2. misalignment_set: `if self.params.F: misalignment_set.append(MatchEventSubtype.E)`
    mis = []
    for n in ast.walk(pe):
        if isinstance(n, ast.If) and param(n.test) and len(n.body) == 1 and isinstance(n.body[0], ast.Expr) \
                and isinstance(n.body[0].value, ast.Call) and ast.unparse(n.body[0].value.func) == "misalignment_set.append":
            ev = mes(n.body[0].value.args[0])
            if ev is None or n.orelse:
                raise TranslationError("process_events: unsupported misalignment_set.append")
            mis.append((param(n.test), ev))
    appends = [n for n in ast.walk(pe) if isinstance(n, ast.Call) and ast.unparse(n.func).startswith("misalignment_set.")]
    if len(appends) != len(mis) or not mis:
        raise TranslationError("process_events: misalignment_set is filled in an unsupported way")
    info["misalignment_events"] = mis
    # 3. the if/elif chain on the event: tests of the form `event.event_type == MatchEventSubtype.E and self.params.F`
    chain = None
    for n in ast.walk(pe):
        if isinstance(n, ast.If) and isinstance(n.test, ast.BoolOp) and isinstance(n.test.op, ast.And) and \
                isinstance(n.test.values[0], ast.Compare) and ast.unparse(n.test.values[0].left) == "event.event_type" \
                and isinstance(n.test.values[0].ops[0], ast.Eq):
            chain = n
            break
    if chain is None:
        raise TranslationError("process_events: event if/elif chain not found")
    term = []
    shape = []
    node = chain
    while True:
        t = node.test
        if isinstance(t, ast.BoolOp) and isinstance(t.op, ast.And) and len(t.values) == 2 and \
                isinstance(t.values[0], ast.Compare) and isinstance(t.values[0].ops[0], ast.Eq) and \
                mes(t.values[0].comparators[0]) and param(t.values[1]):
            term.append((mes(t.values[0].comparators[0]), param(t.values[1])))
            shape.append("eq")
        elif isinstance(t, ast.BoolOp) and isinstance(t.op, ast.And) and len(t.values) == 2 and \
                ast.unparse(t.values[0]) == "event.event_type in misalignment_set" and \
                isinstance(t.values[1], ast.Call) and ast.unparse(t.values[1].func) == "contains_well_inside":
            cw = ast.unparse(t.values[1]).replace(" ", "")
            if cw != ("contains_well_inside(read_region,(isoform_introns[event.isoform_region[0]][0],"
                      "isoform_introns[event.isoform_region[1]][1]),self.params.delta)"):
                raise TranslationError("process_events: contains_well_inside guard changed: %s" % cw)
            shape.append("misalignment")
        elif t is sets[0]:
            shape.append("known")
        else:
            raise TranslationError("process_events: unsupported branch test: %s" % ast.unparse(t)[:120])
        if len(node.orelse) == 1 and isinstance(node.orelse[0], ast.If):
            node = node.orelse[0]
        else:
            break
    if not node.orelse:
        raise TranslationError("process_events: event chain has no final else")
    info["terminal_branches"] = term
    info["branch_shape"] = shape
    # 4. flags read directly
    fuzzy = [param(n.test) for n in pe.body if isinstance(n, ast.If) and param(n.test)]
    if fuzzy != ["correct_fuzzy_junctions"]:
        raise TranslationError("process_events: top-level flag tests changed: %s" % fuzzy)
    micro = []
    for n in ast.walk(cm):
        if isinstance(n, ast.If) and isinstance(n.test, ast.BoolOp) and isinstance(n.test.op, ast.And) and \
                len(n.test.values) == 2 and isinstance(n.test.values[0], ast.Compare) and \
                ast.unparse(n.test.values[0].left) == "e.event_type" and param(n.test.values[1]):
            micro.append((mes(n.test.values[0].comparators[0]), param(n.test.values[1])))
    if len(micro) != 1:
        raise TranslationError("correct_misalignments: micro-intron test changed")
    info["micro_intron_test"] = micro[0]
    params_used = sorted({param(n) for fn in (pe, cm) for n in ast.walk(fn) if param(n)})
    info["params_used"] = params_used
    # 5. wiring args.correct_X = strategy.Y in isoquant.py
    iq = parse("isoquant.py")
    fn = find_def(iq, "set_splice_correction_options")
    binding = []
    for n in fn.body:
        if isinstance(n, ast.Assign) and isinstance(n.targets[0], ast.Attribute) and \
                isinstance(n.targets[0].value, ast.Name) and n.targets[0].value.id == "args":
            v = n.value
            if not (isinstance(v, ast.Attribute) and isinstance(v.value, ast.Name) and v.value.id == "strategy"):
                raise TranslationError("set_splice_correction_options: unsupported assignment to args.%s" % n.targets[0].attr)
            binding.append((n.targets[0].attr, v.attr))
    if not binding:
        raise TranslationError("set_splice_correction_options: no args wiring found")
    info["flag_binding"] = binding
    # 6. default strategy per data type
    defaults = None
    for n in ast.walk(iq):
        if isinstance(n, ast.Assign) and isinstance(n.targets[0], ast.Name) and n.targets[0].id == "splice_correction_strategies" \
                and isinstance(n.value, ast.Dict):
            defaults = [(ast.unparse(k), v.value) for k, v in zip(n.value.keys, n.value.values)
                        if isinstance(v, ast.Constant)]
    if not defaults:
        raise TranslationError("splice_correction_strategies dict not found")
    info["default_strategy"] = defaults
    q = lambda x: '"%s"' % x
    out = ["-- GENERATED by harness/translate.py from /repo/src/exon_corrector.py and /repo/isoquant.py -- do not edit",
           "import IsoVerif.Gen.Enums", "namespace IsoVerif.Gen", "",
           "/-- event types whose read introns are replaced by the fuzzy-corrected read introns (inline set of process_events) -/",
           "def corrector_known_event_types : List MatchEventSubtype := %s" % lean_list("MatchEventSubtype", known), "",
           "/-- (params flag, event type) pairs that fill `misalignment_set` -/",
           "def corrector_misalignment_events : List (String × MatchEventSubtype) := [" +
           ", ".join("(%s, MatchEventSubtype.%s)" % (q(f), lean_ident(e)) for f, e in mis) + "]", "",
           "/-- the `event_type == E and params.F` branches of the event chain, in order -/",
           "def corrector_terminal_branches : List (MatchEventSubtype × String) := [" +
           ", ".join("(MatchEventSubtype.%s, %s)" % (lean_ident(e), q(f)) for e, f in term) + "]", "",
           "/-- shape of the event chain (kinds of the successive tests; the final `else` is implicit) -/",
           "def corrector_branch_shape : List String := [" + ", ".join(q(x) for x in shape) + "]", "",
           "def corrector_micro_intron_test : MatchEventSubtype × String := (MatchEventSubtype.%s, %s)"
           % (lean_ident(micro[0][0]), q(micro[0][1])), "",
           "/-- every `self.params.X` read by process_events / correct_misalignments -/",
           "def corrector_params_used : List String := [" + ", ".join(q(x) for x in params_used) + "]", "",
           "/-- `args.<fst> = strategy.<snd>` in set_splice_correction_options -/",
           "def correction_flag_binding : List (String × String) := [" +
           ", ".join("(%s, %s)" % (q(a), q(b)) for a, b in binding) + "]", "",
           "/-- default --splice_correction_strategy per data type -/",
           "def correction_default_strategy : List (String × String) := [" +
           ", ".join("(%s, %s)" % (q(a), q(b)) for a, b in defaults) + "]", "",
           "end IsoVerif.Gen\n"]
    return "\n".join(out), info



# ----------------------------------------------------------------------------------------------
# C02: the statistics-line protocol between dump / merge_counts (writers) and convert_counts_to_tpm (reader),
# and the print formats of the count / TPM tables

def _str_consts(node):
    return [n.value for n in ast.walk(node) if isinstance(n, ast.Constant) and isinstance(n.value, str)]


def _resolve_str_tuple(node, cls_node):
    """a str literal, a tuple/list of them, or `self.NAME` / `Cls.NAME` bound to one in the class body"""
    if isinstance(node, ast.Constant) and isinstance(node.value, str):
        return [node.value]
    if isinstance(node, (ast.Tuple, ast.List)) and all(isinstance(e, ast.Constant) and isinstance(e.value, str)
                                                       for e in node.elts):
        return [e.value for e in node.elts]
    if isinstance(node, ast.Attribute) and isinstance(node.value, ast.Name):
        return _resolve_str_tuple(find_assign(cls_node.body, node.attr), cls_node)
    raise TranslationError("startswith argument of unsupported shape: %s" % ast.dump(node)[:120])


def gen_counter_tables():
    import re as _re
    tree = parse("src/long_read_counter.py")
    cls = find_def(tree, "AssignedFeatureCounter")
    conv = find_def(tree, "convert_counts_to_tpm", "AssignedFeatureCounter")
    # reader: every `if line.startswith(X): break` of convert_counts_to_tpm must use the same X
    stops = []
    for n in ast.walk(conv):
        if isinstance(n, ast.If) and len(n.body) == 1 and isinstance(n.body[0], ast.Break):
            t = n.test
            if not (isinstance(t, ast.Call) and isinstance(t.func, ast.Attribute) and t.func.attr == "startswith"
                    and len(t.args) == 1):
                raise TranslationError("convert_counts_to_tpm: break guard is not a startswith test")
            stops.append(_resolve_str_tuple(t.args[0], cls))
    if len(stops) != 2 or stops[0] != stops[1]:
        raise TranslationError("convert_counts_to_tpm: expected the same stop test in both loops, got %s" % stops)
    prefixes = stops[0]
    exact = all(x.endswith("\t") for x in prefixes)
    names = [x[:-1] if exact else x for x in prefixes]
    # writers
    dump = find_def(tree, "dump_ungrouped", "AssignedFeatureCounter")
    dump_names = [m.group(1) for c in _str_consts(dump) for m in [_re.match(r"^(__\w+)\t", c)] if m]
    fmts = [m.group(0) for c in _str_consts(dump) for m in [_re.search(r"%\.(\d+)f", c)] if m and not c.startswith("__")]
    tpm_fmts = [m.group(0) for c in _str_consts(conv) for m in [_re.search(r"%\.(\d+)f", c)] if m and "Scale" not in c]
    if len(set(fmts)) != 1 or len(set(tpm_fmts)) != 1:
        raise TranslationError("count/TPM print formats not unique: %s %s" % (fmts, tpm_fmts))
    mtree = parse("src/file_utils.py")
    mc = find_def(mtree, "merge_counts")
    merge_names = None
    for n in ast.walk(mc):
        if isinstance(n, ast.For) and isinstance(n.iter, ast.List) and n.iter.elts and \
                all(isinstance(e, ast.Constant) and isinstance(e.value, str) and e.value.startswith("__") for e in n.iter.elts):
            merge_names = [e.value for e in n.iter.elts]
    if merge_names is None or not dump_names:
        raise TranslationError("statistics line names not found (merge_counts loop / dump_ungrouped writes)")
    q = lambda l: "[" + ", ".join(json.dumps(x) for x in l) + "]"
    out = ["-- GENERATED by harness/translate.py from src/long_read_counter.py, src/file_utils.py -- do not edit",
           "namespace IsoVerif.Gen", "",
           "/-- what ends the feature rows for `convert_counts_to_tpm`: exact first-column names (`true`) or raw line prefixes -/",
           "def tpm_stop_exact : Bool := %s" % ("true" if exact else "false"),
           "def tpm_stop_names : List String := %s" % q(names),
           "/-- statistics lines written by `dump_ungrouped` (.stats file) and by `merge_counts` (merged counts file) -/",
           "def dump_stat_names : List String := %s" % q(dump_names),
           "def merge_stat_names : List String := %s" % q(merge_names),
           "/-- decimals of the printed counts / TPM values -/",
           "def count_decimals : Nat := %d" % int(_re.search(r"\d+", fmts[0]).group(0)),
           "def tpm_decimals : Nat := %d" % int(_re.search(r"\d+", tpm_fmts[0]).group(0)),
           "", "end IsoVerif.Gen", ""]
    return "\n".join(out), {"tpm_stop": prefixes, "dump_stat_names": dump_names, "merge_stat_names": merge_names,
                             "formats": [fmts[0], tpm_fmts[0]]}


# ----------------------------------------------------------------------------------------------
# C02 (growth): the protocol between the writers of the count / TPM files and `src/stats.py combine_counts`
# (slice constant of transform_counts, join key / kind of combine_table, the four combine_table calls, the header
# written by format_header, the renaming of the value column and the `__unassigned` line of convert_counts_to_tpm)

def gen_combine_tables():
    tree = parse("src/stats.py")
    tc = find_def(tree, "transform_counts")
    # df_features = df.copy() if full else df[:-N].copy()
    tails = []
    for n in ast.walk(tc):
        if isinstance(n, ast.IfExp):
            if not (isinstance(n.test, ast.Name) and n.test.id == "full"):
                raise TranslationError("transform_counts: the conditional is not `... if full else ...`")
            for sub in ast.walk(n.orelse):
                if isinstance(sub, ast.Subscript) and isinstance(sub.slice, ast.Slice):
                    sl = sub.slice
                    if sl.lower is not None or sl.step is not None or not (
                            isinstance(sl.upper, ast.UnaryOp) and isinstance(sl.upper.op, ast.USub)
                            and isinstance(sl.upper.operand, ast.Constant) and isinstance(sl.upper.operand.value, int)):
                        raise TranslationError("transform_counts: slice is not df[:-N]")
                    tails.append(sl.upper.operand.value)
            if any(isinstance(sub, ast.Subscript) for sub in ast.walk(n.body)):
                raise TranslationError("transform_counts: the `full` branch slices the table")
    if len(tails) != 1:
        raise TranslationError("transform_counts: expected exactly one df[:-N] slice, got %s" % tails)
    renames = [n for n in ast.walk(tc) if isinstance(n, ast.Call) and isinstance(n.func, ast.Attribute) and n.func.attr == "rename"]
    if len(renames) != 1:
        raise TranslationError("transform_counts: expected one rename call")
    kw = {k.arg: k.value for k in renames[0].keywords}
    if not (isinstance(kw.get("columns"), ast.Dict) and len(kw["columns"].keys) == 1
            and isinstance(kw["columns"].keys[0], ast.Name) and kw["columns"].keys[0].id == "column_name"
            and isinstance(kw["columns"].values[0], ast.Name) and kw["columns"].values[0].id == "label"):
        raise TranslationError("transform_counts: rename is not columns={column_name: label}")
    ct = find_def(tree, "combine_table")
    merges = [n for n in ast.walk(ct) if isinstance(n, ast.Call) and isinstance(n.func, ast.Attribute) and n.func.attr == "merge"]
    if len(merges) != 1:
        raise TranslationError("combine_table: expected one pd.merge call")
    mkw = {k.arg: k.value for k in merges[0].keywords}
    if not all(isinstance(mkw.get(k), ast.Constant) and isinstance(mkw[k].value, str) for k in ("on", "how")):
        raise TranslationError("combine_table: pd.merge without literal on= / how=")
    if set(mkw) - {"on", "how"}:
        raise TranslationError("combine_table: unexpected pd.merge keywords %s" % sorted(set(mkw) - {"on", "how"}))
    # the transform_counts calls inside combine_table take the sample prefix as label
    for n in ast.walk(ct):
        if isinstance(n, ast.Call) and isinstance(n.func, ast.Name) and n.func.id == "transform_counts":
            if not (len(n.args) == 4 and isinstance(n.args[1], ast.Attribute) and n.args[1].attr == "prefix"
                    and isinstance(n.args[2], ast.Name) and n.args[2].id == "column_name"
                    and isinstance(n.args[3], ast.Name) and n.args[3].id == "full"):
                raise TranslationError("combine_table: unexpected transform_counts call %s" % ast.unparse(n))
    ct_defaults = dict(zip([a.arg for a in ct.args.args][-len(ct.args.defaults):], ct.args.defaults))
    d_col, d_full = ct_defaults.get("column_name"), ct_defaults.get("full")
    if not (isinstance(d_col, ast.Constant) and isinstance(d_full, ast.Constant)):
        raise TranslationError("combine_table: defaults of column_name / full not literal")
    cc = find_def(tree, "combine_counts")
    calls = []
    for n in ast.walk(cc):
        if isinstance(n, ast.Call) and isinstance(n.func, ast.Name) and n.func.id == "combine_table":
            if len(n.args) != 4 or not isinstance(n.args[2], ast.Lambda):
                raise TranslationError("combine_counts: unexpected combine_table call %s" % ast.unparse(n))
            lam = n.args[2].body
            if not (isinstance(lam, ast.BinOp) and isinstance(lam.op, ast.Add) and isinstance(lam.left, ast.Attribute)
                    and isinstance(lam.right, ast.Constant) and isinstance(lam.right.value, str)):
                raise TranslationError("combine_counts: file-name lambda is not `x.<attr> + <str>`")
            if not (isinstance(n.args[3], ast.Constant) and isinstance(n.args[3].value, str)):
                raise TranslationError("combine_counts: output file name not literal")
            k = {x.arg: x.value for x in n.keywords}
            if set(k) - {"column_name", "full"} or not all(isinstance(v, ast.Constant) for v in k.values()):
                raise TranslationError("combine_counts: unexpected keywords in %s" % ast.unparse(n))
            calls.append((lam.left.attr, lam.right.value, n.args[3].value,
                          k["column_name"].value if "column_name" in k else d_col.value,
                          bool(k["full"].value) if "full" in k else bool(d_full.value)))
    if not calls:
        raise TranslationError("combine_counts: no combine_table call found")
    ltree = parse("src/long_read_counter.py")
    fh = find_def(ltree, "format_header", "AssignedFeatureCounter")
    fh_defaults = dict(zip([a.arg for a in fh.args.args][-len(fh.args.defaults):], fh.args.defaults))
    if not (isinstance(fh_defaults.get("value_name"), ast.Constant) and isinstance(fh_defaults["value_name"].value, str)):
        raise TranslationError("format_header: default of value_name not a string literal")
    hdr = [c for c in _str_consts(fh) if c.startswith("#") and c.endswith("\t%s\n")]
    if len(hdr) != 1:
        raise TranslationError("format_header: ungrouped header literal not found")
    header_key = hdr[0][:-len("\t%s\n")]
    for n in ast.walk(find_def(ltree, "dump_ungrouped", "AssignedFeatureCounter")):
        if isinstance(n, ast.Call) and isinstance(n.func, ast.Attribute) and n.func.attr == "format_header":
            if len(n.args) != 1 or n.keywords:
                raise TranslationError("dump_ungrouped: format_header called with a value name")
    conv = find_def(ltree, "convert_counts_to_tpm", "AssignedFeatureCounter")
    repl = [n for n in ast.walk(conv) if isinstance(n, ast.Call) and isinstance(n.func, ast.Attribute) and n.func.attr == "replace"]
    if len(repl) != 1 or len(repl[0].args) != 2 or not all(isinstance(a, ast.Constant) and isinstance(a.value, str) for a in repl[0].args):
        raise TranslationError("convert_counts_to_tpm: expected one header `replace(<str>, <str>)`")
    un = [c for c in _str_consts(conv) if c.startswith("__")]
    if len(un) != 1:
        raise TranslationError("convert_counts_to_tpm: expected one `__` line name, got %s" % un)
    q = json.dumps
    b = lambda x: "true" if x else "false"
    out = ["-- GENERATED by harness/translate.py from src/stats.py, src/long_read_counter.py -- do not edit",
           "namespace IsoVerif.Gen", "",
           "/-- `transform_counts`: number of trailing lines dropped from a table that is not read `full` (`df[:-N]`) -/",
           "def combine_dropped_tail : Nat := %d" % tails[0],
           "/-- `combine_table`: `pd.merge(..., on=, how=)` -/",
           "def combine_join_key : String := %s" % q(mkw["on"].value),
           "def combine_join_how : String := %s" % q(mkw["how"].value),
           "/-- the `combine_table` calls of `combine_counts`: (sample attribute, file suffix, output file, column_name, full) -/",
           "def combine_calls : List (String × String × String × String × Bool) := [" +
           ", ".join("(%s, %s, %s, %s, %s)" % (q(a), q(s), q(o), q(c), b(f)) for a, s, o, c, f in calls) + "]",
           "/-- header of an ungrouped counts file (`format_header`): first column, value column -/",
           "def counts_header_key : String := %s" % q(header_key),
           "def counts_header_value : String := %s" % q(fh_defaults["value_name"].value),
           "/-- `convert_counts_to_tpm` renames the value column of an ungrouped table with `line.replace(a, b)` -/",
           "def tpm_header_replace : String × String := (%s, %s)" % (q(repl[0].args[0].value), q(repl[0].args[1].value)),
           "/-- the extra line `convert_counts_to_tpm` appends to an ungrouped TPM table -/",
           "def tpm_unassigned_name : String := %s" % q(un[0]),
           "", "end IsoVerif.Gen", ""]
    return "\n".join(out), {"combine_dropped_tail": tails[0], "join": [mkw["on"].value, mkw["how"].value],
                             "combine_calls": [list(c) for c in calls], "header": [header_key, fh_defaults["value_name"].value],
                             "tpm_header_replace": [a.value for a in repl[0].args], "tpm_unassigned_name": un[0]}


# ----------------------------------------------------------------------------------------------
# C02: direct translation of ReadWeightCounter.process_ambiguous / process_inconsistent
# supported subset: `if` / `else` with `return` on every path (fall-through to the following statements),
# tests built from and / or / not, `==`/`!=`/`<`/`<=`/`>`/`>=` between `feature_count` and an int literal,
# `==`/`!=` between `assignment_type` and a `ReadAssignmentType.member`, `self.strategy_flags.use_*`;
# returned values: float literals and `<float literal> / feature_count` (optionally `float(feature_count)`),
# where a zero divisor is `none` (ZeroDivisionError).

def _flag_map(tree):
    """CountingStrategyFlags.__init__: self.use_x = counting_strategy.<method>()  ->  {use_x: method}"""
    init = find_def(tree, "__init__", "CountingStrategyFlags")
    res = {}
    for n in init.body:
        if isinstance(n, ast.Assign) and len(n.targets) == 1 and isinstance(n.targets[0], ast.Attribute) \
                and isinstance(n.value, ast.Call) and isinstance(n.value.func, ast.Attribute) and not n.value.args:
            res[n.targets[0].attr] = n.value.func.attr
        elif isinstance(n, ast.Expr) and isinstance(n.value, ast.Constant):
            continue
        else:
            raise TranslationError("CountingStrategyFlags.__init__: unsupported statement")
    return res


class _WeightTr:
    def __init__(self, flags, strategy_methods):
        self.flags = flags
        self.methods = strategy_methods

    def expr(self, n):
        """-> (lean, type) with type in Bool / Nat / RAT"""
        if isinstance(n, ast.Name):
            if n.id == "feature_count":
                return "feature_count", "Nat"
            if n.id == "assignment_type":
                return "assignment_type", "RAT"
            raise TranslationError("weights: unknown name %s" % n.id)
        if isinstance(n, ast.Constant) and isinstance(n.value, bool):
            return ("true" if n.value else "false"), "Bool"
        if isinstance(n, ast.Constant) and isinstance(n.value, int) and n.value >= 0:
            return str(n.value), "Nat"
        if isinstance(n, ast.Attribute):
            if isinstance(n.value, ast.Name) and n.value.id == "ReadAssignmentType":
                return "ReadAssignmentType.%s" % lean_ident(n.attr), "RAT"
            if isinstance(n.value, ast.Attribute) and n.value.attr == "strategy_flags" and \
                    isinstance(n.value.value, ast.Name) and n.value.value.id == "self":
                if n.attr not in self.flags or self.flags[n.attr] not in self.methods:
                    raise TranslationError("weights: unknown strategy flag %s" % n.attr)
                return "(CountingStrategy.%s s)" % self.flags[n.attr], "Bool"
            raise TranslationError("weights: unsupported attribute %s" % ast.dump(n)[:80])
        if isinstance(n, ast.BoolOp):
            parts = [self.expr(v) for v in n.values]
            if any(t != "Bool" for _, t in parts):
                raise TranslationError("weights: non-boolean operand of and/or")
            op = " && " if isinstance(n.op, ast.And) else " || "
            return "(" + op.join(x for x, _ in parts) + ")", "Bool"
        if isinstance(n, ast.UnaryOp) and isinstance(n.op, ast.Not):
            x, t = self.expr(n.operand)
            if t != "Bool":
                raise TranslationError("weights: not of non-boolean")
            return "(!%s)" % x, "Bool"
        if isinstance(n, ast.Compare) and len(n.ops) == 1:
            a, ta = self.expr(n.left)
            b, tb = self.expr(n.comparators[0])
            op = n.ops[0]
            if ta == tb == "RAT" and isinstance(op, (ast.Eq, ast.NotEq)):
                return ("(%s == %s)" if isinstance(op, ast.Eq) else "(%s != %s)") % (a, b), "Bool"
            if ta == tb == "Nat":
                sym = {ast.Eq: "=", ast.NotEq: "≠", ast.Lt: "<", ast.LtE: "≤", ast.Gt: ">", ast.GtE: "≥"}.get(type(op))
                if sym:
                    return "decide (%s %s %s)" % (a, sym, b), "Bool"
            raise TranslationError("weights: unsupported comparison")
        raise TranslationError("weights: unsupported expression %s" % ast.dump(n)[:80])

    def ret(self, n):
        from fractions import Fraction as _F
        if isinstance(n, ast.Constant) and isinstance(n.value, (int, float)) and not isinstance(n.value, bool):
            f = _F(str(n.value))
            return "some (%d / %d : Rat)" % (f.numerator, f.denominator)
        if isinstance(n, ast.BinOp) and isinstance(n.op, ast.Div) and isinstance(n.left, ast.Constant) and \
                isinstance(n.left.value, (int, float)):
            d = n.right
            if isinstance(d, ast.Call) and isinstance(d.func, ast.Name) and d.func.id == "float" and len(d.args) == 1:
                d = d.args[0]
            if isinstance(d, ast.Name) and d.id == "feature_count":
                f = _F(str(n.left.value))
                return "(if feature_count = 0 then none else some ((%d / %d : Rat) / (feature_count : Rat)))" % (f.numerator, f.denominator)
        raise TranslationError("weights: unsupported return value %s" % ast.dump(n)[:80])

    def block(self, stmts, indent):
        pad = "  " * indent
        stmts = [x for x in stmts if not (isinstance(x, ast.Expr) and isinstance(x.value, ast.Constant))]
        if not stmts:
            raise TranslationError("weights: a path without return")
        s0, rest = stmts[0], stmts[1:]
        if isinstance(s0, ast.Return):
            if s0.value is None:
                raise TranslationError("weights: bare return")
            return pad + self.ret(s0.value)
        if isinstance(s0, ast.If):
            c, t = self.expr(s0.test)
            if t != "Bool":
                raise TranslationError("weights: non-boolean test")
            return "%sif %s = true then\n%s\n%selse\n%s" % (pad, c, self.block(list(s0.body) + rest, indent + 1), pad,
                                                               self.block(list(s0.orelse) + rest, indent + 1))
        raise TranslationError("weights: unsupported statement %s" % type(s0).__name__)


def gen_weights():
    tree = parse("src/long_read_counter.py")
    flags = _flag_map(tree)
    methods = {n.name for n in find_def(tree, "CountingStrategy").body if isinstance(n, ast.FunctionDef)}
    tr = _WeightTr(flags, methods)
    out = ["-- GENERATED by harness/translate.py from src/long_read_counter.py (ReadWeightCounter) -- do not edit",
           "import IsoVerif.Gen.Enums", "import IsoVerif.Gen.Strategies", "namespace IsoVerif.Gen", "",
           "/-- `ReadWeightCounter.process_ambiguous`; `none` = ZeroDivisionError -/",
           "def process_ambiguous (s : CountingStrategy) (feature_count : Nat) : Option Rat :="]
    fa = find_def(tree, "process_ambiguous", "ReadWeightCounter")
    if [a.arg for a in fa.args.args] != ["self", "feature_count"]:
        raise TranslationError("process_ambiguous: signature changed")
    out.append(tr.block(fa.body, 1))
    fi = find_def(tree, "process_inconsistent", "ReadWeightCounter")
    if [a.arg for a in fi.args.args] != ["self", "assignment_type", "feature_count"]:
        raise TranslationError("process_inconsistent: signature changed")
    out += ["", "/-- `ReadWeightCounter.process_inconsistent`; `none` = ZeroDivisionError -/",
            "def process_inconsistent (s : CountingStrategy) (assignment_type : ReadAssignmentType) (feature_count : Nat) : Option Rat :="]
    out.append(tr.block(fi.body, 1))
    out += ["", "end IsoVerif.Gen", ""]
    return "\n".join(out), {"flags": flags}




# ----------------------------------------------------------------------------------------------
# C20: per-user cache protocol (config file names, entry field tables, inventory of access sites)

CACHE_KINDS = [  # (kind, config attribute, store function (file, name), dict variable)
    ("db", "db_config_path", ("src/gtf2db.py", "convert_db")),
    ("index", "index_config_path", ("src/read_mapper.py", "store_index")),
    ("bed", "bed_config_path", ("src/read_mapper.py", "store_bed")),
    ("align", "alignment_config_path", ("src/read_mapper.py", "store_alignment")),
]
# role of every field of a stored entry, keyed by (kind, field, shape of the value expression)
CACHE_FIELD_ROLES = {
    ("db", "genedb", "genedb_filename"): "target",
    ("db", "gtf_mtime", "os.path.getmtime(gtf_filename)"): "src_mtime",
    ("db", "db_mtime", "os.path.getmtime(genedb_filename)"): "tgt_mtime",
    ("db", "complete_db", "args.complete_genedb"): "flag",
    ("index", "index_filename", "index"): "target",
    ("index", "reference_mtime", "os.path.getmtime(reference_filename)"): "src_mtime",
    ("index", "index_mtime", "os.path.getmtime(index)"): "tgt_mtime",
    ("index", "kmer_size", "KMER_SIZE[args.data_type]"): "kmer",
    ("bed", "bed_filename", "bed"): "target",
    ("bed", "reference_mtime", "os.path.getmtime(genedb_filename)"): "src_mtime",
    ("bed", "bed_mtime", "os.path.getmtime(bed)"): "tgt_mtime",
    ("align", "alignment_fpath", "bam_file"): "target",
    ("align", "index_mtime", "os.path.getmtime(index)"): "aux0",
    ("align", "fastq_mtime", "os.path.getmtime(fastq)"): "src_mtime",
    ("align", "bam_mtime", "os.path.getmtime(bam_file)"): "tgt_mtime",
    ("align", "ann_mtime", "os.path.getmtime(ann_path) if ann_path else ''"): "aux1",
}


def _lean_str(s):
    return '"' + s.replace("\\", "\\\\").replace('"', '\\"') + '"'


def _mentions_config(node, loop_var_ok=False):
    for n in ast.walk(node):
        if isinstance(n, ast.Attribute) and n.attr.endswith("_config_path"):
            return n.attr
        if loop_var_ok and isinstance(n, ast.Name) and n.id == "config_path":
            return "config_path"
    return None


def gen_cache_protocol():
    """config files of set_configs_directory, the entry layout of every store, and every place of the code base
    that touches a config file (function : primitive : which config)"""
    iq = parse("isoquant.py")
    scd = find_def(iq, "set_configs_directory")
    files = []   # (attr, file name)
    for n in ast.walk(scd):
        if isinstance(n, ast.Assign) and len(n.targets) == 1 and isinstance(n.targets[0], ast.Attribute) \
                and n.targets[0].attr.endswith("_config_path"):
            v = n.value
            if not (isinstance(v, ast.Call) and v.args and isinstance(v.args[-1], ast.Constant)
                    and isinstance(v.args[-1].value, str)):
                raise TranslationError("set_configs_directory: %s is not os.path.join(config_dir, '<literal>')" % n.targets[0].attr)
            files.append((n.targets[0].attr, v.args[-1].value))
    if [a for a, _ in files] != [c[1] for c in CACHE_KINDS]:
        raise TranslationError("config files of set_configs_directory changed: %s (expected %s) – a cache was added, "
                               "removed or reordered" % ([a for a, _ in files], [c[1] for c in CACHE_KINDS]))
    dirparts = None
    for n in ast.walk(scd):
        if isinstance(n, ast.Assign) and isinstance(n.targets[0], ast.Name) and n.targets[0].id == "config_dir":
            dirparts = ast.unparse(n.value)
    # entry layouts
    tables = []
    for kind, attr, (rel, fn) in CACHE_KINDS:
        f = find_def(parse(rel), fn)
        lits = []
        for n in ast.walk(f):
            if isinstance(n, ast.Assign) and len(n.targets) == 1 and isinstance(n.targets[0], ast.Subscript) \
                    and isinstance(n.value, ast.Dict):
                lits.append(n.value)
        if len(lits) != 1:
            raise TranslationError("%s.%s: expected exactly one `cache[key] = {...}` literal, found %d" % (rel, fn, len(lits)))
        rows = []
        for k, v in zip(lits[0].keys, lits[0].values):
            if not (isinstance(k, ast.Constant) and isinstance(k.value, str)):
                raise TranslationError("%s.%s: non-literal entry field" % (rel, fn))
            shape = ast.unparse(v)
            role = CACHE_FIELD_ROLES.get((kind, k.value, shape))
            if role is None:
                raise TranslationError("%s.%s: entry field %r = %s is not a known field of the %s cache "
                                       "(the stored entry changed)" % (rel, fn, k.value, shape, kind))
            rows.append((k.value, role))
        tables.append((kind, rows))
    # access sites
    srcs = ["isoquant.py"] + sorted("src/" + f for f in os.listdir(os.path.join(REPO, "src")) if f.endswith(".py"))
    sites = []
    for rel in srcs:
        tree = parse(rel)
        for fn in ast.walk(tree):
            if not isinstance(fn, (ast.FunctionDef, ast.AsyncFunctionDef)):
                continue
            is_helper = fn.name in ("load_config", "store_config")
            for n in ast.walk(fn):
                if not isinstance(n, ast.Call):
                    continue
                callee = ast.unparse(n.func)
                if is_helper:
                    # primitives used by the helpers themselves on their `config_path` parameter
                    if callee in ("open", "os.replace", "os.rename", "tempfile.mkstemp", "os.fdopen", "json.dump",
                                  "json.load", "os.remove", "os.path.exists", "os.path.dirname", "os.path.basename",
                                  "isinstance", "shutil.move", "shutil.copy", "os.unlink"):
                        extra = ""
                        if callee == "open":
                            mode = n.args[1].value if len(n.args) > 1 and isinstance(n.args[1], ast.Constant) else "r"
                            extra = ":" + str(mode)
                        if callee in ("open", "os.replace", "os.rename", "os.fdopen", "tempfile.mkstemp", "shutil.move",
                                      "shutil.copy"):
                            sites.append("%s:%s:%s%s" % (rel, fn.name, callee, extra))
                    continue
                which = None
                for a in list(n.args) + [k.value for k in n.keywords]:
                    which = which or _mentions_config(a, rel == "isoquant.py" and fn.name == "set_configs_directory")
                if which is None:
                    continue
                if callee == "open":
                    mode = n.args[1].value if len(n.args) > 1 and isinstance(n.args[1], ast.Constant) else "r"
                    prim = "open:" + str(mode)
                elif callee in ("load_config", "store_config", "os.path.exists", "json.load", "json.dump"):
                    prim = callee
                elif callee in ("os.path.join",):
                    continue
                else:
                    prim = "other:" + callee
                sites.append("%s:%s:%s:%s" % (rel, fn.name, prim, which))
    sites = sorted(set(sites))
    out = ["-- GENERATED by harness/translate.py -- do not edit", "namespace IsoVerif.Gen", "",
           "/-- config files created by isoquant.py set_configs_directory, in order: (args attribute, file name) -/",
           "def cache_config_files : List (String × String) := [" +
           ", ".join("(%s, %s)" % (_lean_str(a), _lean_str(b)) for a, b in files) + "]", "",
           "/-- the directory expression -/",
           "def cache_config_dir : String := " + _lean_str(dirparts or ""), "",
           "/-- per cache kind (0 db, 1 index, 2 bed, 3 alignment): fields of a stored entry in the order of the dict literal,",
           "    with their role in the model (`Entry`) -/",
           "def cache_entry_fields : List (List (String × String)) := ["]
    out.append(",\n".join("  [" + ", ".join("(%s, %s)" % (_lean_str(a), _lean_str(b)) for a, b in rows) + "]"
                          for _, rows in tables))
    out += ["]", "", "/-- every place of the code base that touches a config file: \"file:function:primitive:config\" -/",
            "def cache_access_sites : List String := ["]
    out.append(",\n".join("  " + _lean_str(x) for x in sites))
    out += ["]", "", "end IsoVerif.Gen\n"]
    return "\n".join(out), {"config_files": files, "entry_fields": tables, "access_sites": sites}



# ----------------------------------------------------------------------------------------------
# C10: what survives between two experiments processed by one DatasetProcessor, and where it is reset

SS_MUTATORS = {"add", "append", "update", "extend", "insert", "pop", "remove", "clear", "discard", "merge",
               "setdefault", "popitem", "increment"}


def _self_field(node):
    """self.X -> 'X' (else None)"""
    if isinstance(node, ast.Attribute) and isinstance(node.value, ast.Name) and node.value.id == "self":
        return node.attr
    return None


def _args_field(node):
    """self.args.X | args.X | self.params.X -> 'X' (else None)"""
    if isinstance(node, ast.Attribute):
        v = node.value
        if isinstance(v, ast.Name) and v.id == "args":
            return node.attr
        if isinstance(v, ast.Attribute) and v.attr in ("args", "params") and isinstance(v.value, ast.Name) \
                and v.value.id == "self":
            return node.attr
    return None


def _assign_targets(stmt):
    """flattened assignment targets of a statement (tuple targets unpacked)"""
    res = []
    if isinstance(stmt, ast.Assign):
        ts = list(stmt.targets)
    elif isinstance(stmt, (ast.AugAssign, ast.AnnAssign)):
        ts = [stmt.target]
    else:
        return res
    while ts:
        t = ts.pop()
        if isinstance(t, (ast.Tuple, ast.List)):
            ts.extend(t.elts)
        else:
            res.append(t)
    return res


def _deps(expr):
    """long-lived state an expression reads: ('args', X) / ('self', X)"""
    out = []
    for n in ast.walk(expr):
        a = _args_field(n)
        if a is not None:
            out.append(("args", a))
            continue
        f = _self_field(n)
        if f is not None and f not in ("args", "params"):
            out.append(("self", f))
    return sorted(set(out))


def _lean_pair_list(xs):
    return "[" + ", ".join('("%s", "%s")' % x for x in xs) + "]"


def _lean_str_list(xs):
    return "[" + ", ".join('"%s"' % x for x in xs) + "]"


def _qual_functions(tree, rel):
    """((file, qualified name), FunctionDef) of every function / method of a module"""
    for n in tree.body:
        if isinstance(n, ast.FunctionDef):
            yield (rel, n.name), n
        elif isinstance(n, ast.ClassDef):
            for m in n.body:
                if isinstance(m, ast.FunctionDef):
                    yield (rel, "%s.%s" % (n.name, m.name)), m


def gen_sample_state():
    rel = "src/dataset_processor.py"
    tree = parse(rel)
    cls = find_def(tree, "DatasetProcessor")
    methods = {m.name: m for m in cls.body if isinstance(m, ast.FunctionDef)}
    for need in ("__init__", "process_sample", "process_all_samples"):
        if need not in methods:
            raise TranslationError("DatasetProcessor.%s not found" % need)
    # process_all_samples must be the plain loop `for sample in input_data.samples: self.process_sample(sample)`
    loops = [n for n in methods["process_all_samples"].body if isinstance(n, ast.For)]
    if len(loops) != 1 or not any(isinstance(c, ast.Call) and _self_field(c.func) == "process_sample"
                                  for c in ast.walk(loops[0])):
        raise TranslationError("process_all_samples is no longer a single loop calling self.process_sample")

    # A. class-level state cleared at the top level of the two pool task functions, before the owner class is
    #    used in any way by that function (instantiated, read, ...)
    def _reset_target(st):
        t = None
        if isinstance(st, ast.Expr) and isinstance(st.value, ast.Call) and isinstance(st.value.func, ast.Attribute) \
                and st.value.func.attr == "clear" and not st.value.args:
            t = st.value.func.value
        elif isinstance(st, ast.Assign) and len(st.targets) == 1 and is_mutable_init(st.value):
            t = st.targets[0]
        if isinstance(t, ast.Attribute) and isinstance(t.value, ast.Name) and t.value.id[:1].isupper():
            return t.value.id, t.attr
        return None

    task_resets = []
    for fname in ("collect_reads_in_parallel", "construct_models_in_parallel"):
        fn = find_def(tree, fname)
        cleared, used = [], set()
        for st in fn.body:
            rt = _reset_target(st)
            if rt is not None and rt[0] not in used:
                cleared.append("%s.%s" % rt)
                continue
            for n in ast.walk(st):
                if isinstance(n, ast.Name) and n.id[:1].isupper():
                    used.add(n.id)
        task_resets.append((fname, sorted(set(cleared))))

    # B. DatasetProcessor fields: all / mutated after __init__ / reset at the top of process_sample
    fields, mutated = set(), set()
    for mname, m in methods.items():
        for n in ast.walk(m):
            for t in _assign_targets(n):
                base = t.value if isinstance(t, ast.Subscript) else t
                f = _self_field(base)
                if f is not None and f not in ("args", "params"):
                    fields.add(f)
                    if mname not in ("__init__", "__del__"):
                        mutated.add(f)
            if isinstance(n, ast.Call) and isinstance(n.func, ast.Attribute) and n.func.attr in SS_MUTATORS:
                f = _self_field(n.func.value)
                if f is not None and f not in ("args", "params") and mname not in ("__init__", "__del__"):
                    fields.add(f)
                    mutated.add(f)
    reset = []
    for st in methods["process_sample"].body:
        calls_self_method = any(isinstance(c, ast.Call) and _self_field(c.func) is not None for c in ast.walk(st))
        if calls_self_method:
            break
        if isinstance(st, ast.Assign) and len(st.targets) == 1:
            f = _self_field(st.targets[0])
            if f is not None and ("self", f) not in _deps(st.value):
                reset.append(f)
                continue
        # a statement that reads a field before its reset disqualifies the later reset
        for n in ast.walk(st):
            f = _self_field(n)
            if f is not None and f in fields and f not in reset:
                reset.append("!" + f)
    reset = [f for f in reset if not f.startswith("!") and ("!" + f) not in reset]

    # C. args fields assigned in process_sample, in program order, with what the right-hand side reads
    flag_assigns = []
    for n in ast.walk(methods["process_sample"]):
        if isinstance(n, ast.Assign):
            for t in _assign_targets(n):
                a = _args_field(t)
                if a is not None:
                    flag_assigns.append((n.lineno, a, _deps(n.value)))
    flag_assigns.sort()
    # D. preset copies taken once in __init__:  self.X = self.args.Y
    presets = []
    for n in ast.walk(methods["__init__"]):
        if isinstance(n, ast.Assign) and len(n.targets) == 1:
            f = _self_field(n.targets[0])
            a = _args_field(n.value)
            if f is not None and a is not None:
                presets.append((f, a))
    # E. assignment sites of every args field assigned outside isoquant.py; import closure of isoquant.py
    files = sorted("src/" + f for f in os.listdir(os.path.join(REPO, "src")) if f.endswith(".py"))
    sites = {}
    for rel2 in files:
        t2 = parse(rel2)
        covered = set()
        for qn, fn in _qual_functions(t2, rel2):
            for n in ast.walk(fn):
                covered.add(id(n))
                for t in _assign_targets(n):
                    a = _args_field(t)
                    if a is not None and a != "__dict__":
                        sites.setdefault(a, set()).add(qn)
        for n in ast.walk(t2):
            if id(n) not in covered:
                for t in _assign_targets(n):
                    a = _args_field(t)
                    if a is not None and a != "__dict__":
                        sites.setdefault(a, set()).add((rel2, "<module>"))
    closure, todo = set(), ["isoquant.py"]
    while todo:
        cur = todo.pop()
        if cur in closure:
            continue
        closure.add(cur)
        try:
            tc = parse(cur)
        except (OSError, SyntaxError) as ex:
            raise TranslationError("cannot parse %s: %s" % (cur, ex))
        for n in ast.walk(tc):
            mods = []
            if isinstance(n, ast.ImportFrom):
                base = n.module or ""
                if n.level > 0 and cur.startswith("src/"):
                    mods.append("src/%s.py" % base if base else None)
                    if not base:
                        mods += ["src/%s.py" % al.name for al in n.names]
                elif base.startswith("src.") or base == "src":
                    if base == "src":
                        mods += ["src/%s.py" % al.name for al in n.names]
                    else:
                        mods.append("src/%s.py" % base[4:].replace(".", "/"))
            elif isinstance(n, ast.Import):
                for al in n.names:
                    if al.name.startswith("src."):
                        mods.append("src/%s.py" % al.name[4:].replace(".", "/"))
            for m in mods:
                if m and os.path.exists(os.path.join(REPO, m)):
                    todo.append(m)
    closure = sorted(closure)
    # G. default argument values that are objects created once at definition time (shared by all calls)
    default_objs = []
    for cur in closure:
        tc = parse(cur)
        for (frel, qn), fn in _qual_functions(tc, cur):
            for dflt in list(fn.args.defaults) + [x for x in fn.args.kw_defaults if x is not None]:
                if isinstance(dflt, (ast.List, ast.Dict, ast.Set, ast.Call, ast.ListComp, ast.DictComp, ast.SetComp)):
                    default_objs.append((frel, qn, ast.unparse(dflt).replace('"', "'")))
    default_objs.sort()
    # H. class-level numeric counters of the inventory: every read of the counter.  A read inside the test of an
    #    `if` is rendered by the statements that `if` guards ("log" for a call of a logger method, else the
    #    statement type); any other read (assignment, return, while, conditional expression, ...) as "read".
    #    `X += n` is a write, not a read.
    _, ssinfo0 = gen_shared_state()
    numeric_items = []
    for it in ssinfo0["shared_state"]:
        if it["kind"] != "class":
            continue
        ctree = parse(it["file"])
        cdef = find_def(ctree, it["owner"])
        for m in cdef.body:
            if isinstance(m, ast.Assign) and len(m.targets) == 1 and isinstance(m.targets[0], ast.Name) \
                    and m.targets[0].id == it["name"] and isinstance(m.value, ast.Constant) \
                    and isinstance(m.value.value, (int, float)) and not isinstance(m.value.value, bool):
                numeric_items.append(it)

    def _is_log_call(st):
        return (isinstance(st, ast.Expr) and isinstance(st.value, ast.Call) and isinstance(st.value.func, ast.Attribute)
                and isinstance(st.value.func.value, ast.Name) and st.value.func.value.id in ("logger", "logging")
                and st.value.func.attr in ("debug", "info", "warning", "error", "critical"))

    def _guarded_kinds(stmts, is_ref):
        kinds = []
        for st in stmts:
            if isinstance(st, ast.If):
                # a nested `if` adds its own guarded statements (its test may read other things)
                kinds += _guarded_kinds(st.body, is_ref) + _guarded_kinds(st.orelse, is_ref)
            elif _is_log_call(st):
                kinds.append(("log", st.lineno))
            elif isinstance(st, ast.Pass):
                kinds.append(("log", st.lineno))
            else:
                kinds.append((type(st).__name__, st.lineno))
        return kinds

    counter_reads = []
    for it in numeric_items:
        item = "%s.%s" % (it["owner"], it["name"])
        for rel2 in files:
            t2 = parse(rel2)

            def is_ref(n, _rel=rel2, _it=it):
                return _refers(n, "class", _it["owner"], _it["name"], _rel == _it["file"])
            in_if_test = set()
            for n in ast.walk(t2):
                if isinstance(n, ast.If) and any(is_ref(x) for x in ast.walk(n.test)):
                    for x in ast.walk(n.test):
                        in_if_test.add(id(x))
                    for kind, ln in _guarded_kinds(n.body, is_ref) + _guarded_kinds(n.orelse, is_ref):
                        counter_reads.append((item, "%s:%d" % (rel2, ln), kind))
            for n in ast.walk(t2):
                if isinstance(n, ast.Attribute) and is_ref(n) and isinstance(n.ctx, ast.Load) and id(n) not in in_if_test:
                    counter_reads.append((item, "%s:%d" % (rel2, n.lineno), "read"))
    counter_reads = sorted(set(counter_reads))
    # F. the polyA percentage threshold that switches requires_polya_for_construction on (isoquant.py)
    iq = parse("isoquant.py")
    thr = None
    for n in ast.walk(find_def(iq, "set_additional_params")):
        if isinstance(n, ast.Assign) and len(n.targets) == 1 and _args_field(n.targets[0]) == "polya_percentage_threshold":
            if isinstance(n.value, ast.Constant) and isinstance(n.value.value, (int, float)):
                thr = n.value.value
    if thr is None:
        raise TranslationError("args.polya_percentage_threshold = <number> not found in set_additional_params")
    permille = round(thr * 1000)
    if abs(permille - thr * 1000) > 1e-9 or not 0 <= permille <= 1000:
        raise TranslationError("polya_percentage_threshold %r is not a multiple of 0.001 in [0,1]" % thr)
    _, ssinfo = gen_shared_state()
    item_files = [(((i["owner"] + ".") if i["owner"] else (i["file"] + ":")) + i["name"], i["file"])
                  for i in ssinfo["shared_state"]]

    out = ["-- GENERATED by harness/translate.py -- do not edit", "namespace IsoVerif.Gen", "",
           "/-- class-level state cleared at the top level of a pool task function before the owning class is used there -/",
           "def chr_task_resets : List (String × List String) := [" +
           ", ".join('("%s", %s)' % (f, _lean_str_list(c)) for f, c in task_resets) + "]", "",
           "/-- fields of the long-lived DatasetProcessor object -/",
           "def processor_fields : List String := " + _lean_str_list(sorted(fields)), "",
           "/-- ... that are assigned or mutated by a method other than __init__ -/",
           "def processor_fields_mutated : List String := " + _lean_str_list(sorted(mutated)), "",
           "/-- ... that process_sample re-initialises before it calls any other method -/",
           "def processor_fields_reset_per_sample : List String := " + _lean_str_list(sorted(reset)), "",
           "/-- `self.args.F = rhs` statements of process_sample in program order, with the long-lived state rhs reads -/",
           "def process_sample_args_assignments : List (String × List (String × String)) := [" +
           ", ".join('("%s", %s)' % (a, _lean_pair_list(d)) for _, a, d in flag_assigns) + "]", "",
           "/-- `self.X = self.args.Y` copies taken once in DatasetProcessor.__init__ -/",
           "def processor_preset_copies : List (String × String) := [" +
           ", ".join('("%s", "%s")' % p for p in sorted(presets)) + "]", "",
           "/-- (file, function) pairs that assign a field of the args namespace (outside isoquant.py) -/",
           "def args_assign_sites : List (String × List (String × String)) := [" +
           ", ".join('("%s", %s)' % (a, _lean_pair_list(sorted(sites[a]))) for a in sorted(sites)) + "]", "",
           "/-- source file of every item of `shared_state_inventory` -/",
           "def shared_state_item_files : List (String × String) := " + _lean_pair_list(item_files), "",
           "/-- (file, function, expression) of default argument values that are objects built at definition time -/",
           "def default_argument_objects : List (String × String × String) := [" +
           ", ".join('("%s", "%s", "%s")' % d for d in default_objs) + "]", "",
           "/-- class-level numeric counters of the shared-state inventory -/",
           "def numeric_counters : List String := " +
           _lean_str_list(sorted(set("%s.%s" % (i["owner"], i["name"]) for i in numeric_items))), "",
           "/-- (counter, file:line, kind): statements guarded by an `if` that reads the counter (\"log\" = logger call),"
           " and every other read of the counter (\"read\") -/",
           "def counter_reads : List (String × String × String) := [" +
           ", ".join('("%s", "%s", "%s")' % c for c in counter_reads) + "]", "",
           "/-- args.polya_percentage_threshold × 1000 -/",
           "def polya_percentage_threshold_permille : Nat := %d" % permille, "",
           "/-- modules reachable from isoquant.py by import -/",
           "def pipeline_modules : List String := " + _lean_str_list(closure), "",
           "end IsoVerif.Gen\n"]
    info = {"chr_task_resets": task_resets, "processor_fields": sorted(fields), "mutated": sorted(mutated),
            "reset_per_sample": sorted(reset), "args_assignments": [(a, d) for _, a, d in flag_assigns],
            "presets": sorted(presets), "args_assign_sites": {a: sorted(v) for a, v in sites.items()},
            "pipeline_modules": closure, "polya_percentage_threshold_permille": permille,
            "counter_reads": counter_reads}
    return "\n".join(out), info




def gen_read_groups():
    """constants of src/read_groups.py used by the C09 model: the NA label, the default tag, the option keywords of
    create_read_grouper and the column defaults of the per-chromosome table"""
    tree = parse("src/read_groups.py")
    out = ["-- GENERATED by harness/translate.py from /repo/src/read_groups.py -- do not edit", "import IsoVerif.Gen.Enums",
           "namespace IsoVerif.Gen", ""]
    info = {}
    ac = class_consts(tree, "AbstractReadGrouper")
    if not isinstance(ac.get("default_group_id"), str):
        raise TranslationError("AbstractReadGrouper.default_group_id is not a string constant")
    info["default_group_id"] = ac["default_group_id"]
    out.append('def rg_default_group_id : String := %s' % json.dumps(ac["default_group_id"]))
    # no subclass may shadow the label
    for n in tree.body:
        if isinstance(n, ast.ClassDef) and n.name != "AbstractReadGrouper" and "default_group_id" in class_consts(tree, n.name):
            raise TranslationError("%s overrides default_group_id" % n.name)
    init = find_def(tree, "__init__", "AlignmentTagReadGrouper")
    dflt = init.args.defaults
    if len(dflt) != 1 or not isinstance(dflt[0], ast.Constant) or not isinstance(dflt[0].value, str):
        raise TranslationError("AlignmentTagReadGrouper.__init__ default tag not a string literal")
    info["default_tag"] = dflt[0].value
    out.append('def rg_default_tag : String := %s' % json.dumps(dflt[0].value))
    # option keywords: comparisons `values[0] == "<kw>"` in create_read_grouper, in source order
    crg = find_def(tree, "create_read_grouper")
    kws = []
    for n in ast.walk(crg):
        if isinstance(n, ast.Compare) and len(n.ops) == 1 and isinstance(n.ops[0], ast.Eq) \
                and isinstance(n.left, ast.Subscript) and isinstance(n.comparators[0], ast.Constant) \
                and isinstance(n.comparators[0].value, str):
            kws.append((n.lineno, n.comparators[0].value))
    kws = [k for _, k in sorted(kws)]
    if sorted(kws) != sorted(set(kws)) or not kws:
        raise TranslationError("create_read_grouper: unexpected option keyword comparisons %s" % kws)
    info["modes"] = kws
    out.append("def rg_modes : List String := [%s]" % ", ".join(json.dumps(k) for k in kws))
    # --counts_format reaches a grouped count table only through the `grouped_format` argument of its counter: every
    # `self.<x>_grouped_counter = create_*_counter(..., read_groups=...)` of ReadAssignmentAggregator.__init__, in source
    # order, with the answer to "is `grouped_format=self.grouped_format` passed?" (audit-2 B, GAP C09-5)
    dtree = parse("src/dataset_processor.py")
    agg = find_def(dtree, "__init__", "ReadAssignmentAggregator")
    fmt_set = [n for n in ast.walk(agg) if isinstance(n, ast.Assign) and len(n.targets) == 1
               and isinstance(n.targets[0], ast.Attribute) and n.targets[0].attr == "grouped_format"]
    if len(fmt_set) != 1 or "counts_format" not in ast.dump(fmt_set[0].value):
        raise TranslationError("ReadAssignmentAggregator.__init__: self.grouped_format is not set once from args.counts_format")
    counters = []
    for n in ast.walk(agg):
        if isinstance(n, ast.Assign) and len(n.targets) == 1 and isinstance(n.targets[0], ast.Attribute) \
                and isinstance(n.value, ast.Call) and any(k.arg == "read_groups" for k in n.value.keywords):
            if not (isinstance(n.value.func, ast.Name) and n.value.func.id in ("create_gene_counter", "create_transcript_counter")):
                raise TranslationError("ReadAssignmentAggregator.__init__: unexpected constructor of a grouped counter: %s"
                                       % ast.dump(n.value.func))
            passes = any(k.arg == "grouped_format" and isinstance(k.value, ast.Attribute) and k.value.attr == "grouped_format"
                         and isinstance(k.value.value, ast.Name) and k.value.value.id == "self" for k in n.value.keywords)
            counters.append((n.lineno, n.targets[0].attr, passes))
    counters = [(a, b) for _, a, b in sorted(counters)]
    if not counters:
        raise TranslationError("ReadAssignmentAggregator.__init__: no counter takes read_groups")
    info["grouped_counters"] = counters
    # the format a counter uses when the argument is NOT passed: the default of the two factory functions
    ltree = parse("src/long_read_counter.py")
    dfl = set()
    for fn in ("create_gene_counter", "create_transcript_counter"):
        fd = find_def(ltree, fn)
        names = [a.arg for a in fd.args.args]
        if "grouped_format" not in names:
            raise TranslationError("%s has no grouped_format parameter" % fn)
        dv = fd.args.defaults[names.index("grouped_format") - (len(names) - len(fd.args.defaults))]
        if not (isinstance(dv, ast.Attribute) and isinstance(dv.value, ast.Name) and dv.value.id == "GroupedOutputFormat"):
            raise TranslationError("%s: default of grouped_format is not a GroupedOutputFormat member" % fn)
        dfl.add(dv.attr)
    if len(dfl) != 1:
        raise TranslationError("create_gene_counter / create_transcript_counter: different grouped_format defaults %s" % sorted(dfl))
    info["grouped_format_default"] = sorted(dfl)[0]
    out.append("def rg_grouped_format_default : GroupedOutputFormat := .%s" % sorted(dfl)[0])
    out.append("/-- grouped count tables of ReadAssignmentAggregator.__init__ (src/dataset_processor.py): (counter, is")
    out.append("    `grouped_format=self.grouped_format` passed to its constructor?) -/")
    out.append("def rg_grouped_counters : List (String × Bool) := [%s]"
               % ", ".join("(%s, %s)" % (json.dumps(a), "true" if b else "false") for a, b in counters))
    out.append("\nend IsoVerif.Gen\n")
    return "\n".join(out), info




# ----------------------------------------------------------------------------------------------
# C08: multimapper resolution tables (enum of strategies, the hard-wired CLI strategy, the fields of
# BasicReadAssignment.__eq__, where `suspended` is assigned, the skip guards of loader / intron graph)

def _is_rat_suspended(node):
    return (isinstance(node, ast.Attribute) and node.attr == "suspended" and isinstance(node.value, ast.Name)
            and node.value.id == "ReadAssignmentType")


def _mentions_multimapper_operand(test):
    """test is `x.multimapper` or an `or` chain with `x.multimapper` as a direct operand"""
    ops = test.values if (isinstance(test, ast.BoolOp) and isinstance(test.op, ast.Or)) else [test]
    return any(isinstance(o, ast.Attribute) and o.attr == "multimapper" for o in ops)


def _first_loop_skips_multimapper(fn):
    """the first `for` of fn starts with `if <... or a.multimapper or ...>: continue`"""
    for n in ast.walk(fn):
        if isinstance(n, ast.For):
            first = n.body[0] if n.body else None
            return (isinstance(first, ast.If) and _mentions_multimapper_operand(first.test)
                    and len(first.body) == 1 and isinstance(first.body[0], ast.Continue) and not first.orelse)
    raise TranslationError("%s: no for loop" % fn.name)


def gen_resolver():
    out = ["-- GENERATED by harness/translate.py from src/multimap_resolver.py, src/isoform_assignment.py, "
           "src/dataset_processor.py, src/intron_graph.py, isoquant.py -- do not edit",
           "namespace IsoVerif.Gen", ""]
    info = {}
    # 1. the strategy enum
    cls = find_def(parse("src/multimap_resolver.py"), "MultimapResolvingStrategy")
    mem = enum_members(cls)
    info["MultimapResolvingStrategy"] = mem
    out.append("inductive MultimapResolvingStrategy where")
    for m, _ in mem:
        out.append("  | %s" % lean_ident(m))
    out.append("  deriving DecidableEq, Repr, Inhabited\n")
    out.append("namespace MultimapResolvingStrategy")
    out.append("def all : List MultimapResolvingStrategy := [%s]" % ", ".join("." + lean_ident(m) for m, _ in mem))
    out.append("def name : MultimapResolvingStrategy → String")
    for m, _ in mem:
        out.append("  | .%s => \"%s\"" % (lean_ident(m), m))
    out.append("def ofName? (s : String) : Option MultimapResolvingStrategy := all.find? (fun x => x.name == s)")
    out.append("end MultimapResolvingStrategy\n")
    # 2. the strategy the command line hard-wires
    iq = parse("isoquant.py")
    vals = []
    for n in ast.walk(iq):
        if isinstance(n, ast.Assign) and len(n.targets) == 1 and isinstance(n.targets[0], ast.Attribute) \
                and n.targets[0].attr == "multimap_strategy" and isinstance(n.value, ast.Constant) \
                and isinstance(n.value.value, str):
            vals.append(n.value.value)
    if len(vals) != 1:
        raise TranslationError("isoquant.py: expected exactly one `args.multimap_strategy = \"...\"`, found %s" % vals)
    info["cli_multimap_strategy"] = vals[0]
    out.append('def cli_multimap_strategy : String := "%s"\n' % vals[0])
    # 3. fields compared by BasicReadAssignment.__eq__
    eqf = find_def(parse("src/isoform_assignment.py"), "__eq__", "BasicReadAssignment")
    rets = [n for n in ast.walk(eqf) if isinstance(n, ast.Return)]
    fields = None
    for r in rets:
        v = r.value
        if isinstance(v, ast.BoolOp) and isinstance(v.op, ast.And):
            fields = []
            for c in v.values:
                if (isinstance(c, ast.Compare) and len(c.ops) == 1 and isinstance(c.ops[0], ast.Eq)
                        and isinstance(c.left, ast.Attribute) and isinstance(c.comparators[0], ast.Attribute)
                        and c.left.attr == c.comparators[0].attr
                        and isinstance(c.left.value, ast.Name) and c.left.value.id == "self"
                        and isinstance(c.comparators[0].value, ast.Name) and c.comparators[0].value.id == "other"):
                    fields.append(c.left.attr)
                else:
                    raise TranslationError("BasicReadAssignment.__eq__: unsupported conjunct")
        elif isinstance(v, ast.Constant) and v.value is False:
            continue
        else:
            raise TranslationError("BasicReadAssignment.__eq__: unsupported return")
    if fields is None:
        raise TranslationError("BasicReadAssignment.__eq__: no conjunction of field equalities found")
    info["basic_eq_fields"] = fields
    out.append("/-- fields compared (with `==`, conjunctively) by BasicReadAssignment.__eq__ -/")
    out.append("def basic_eq_fields : List String := [%s]\n" % ", ".join('"%s"' % f for f in fields))
    # 4. where `ReadAssignmentType.suspended` is assigned to something
    sites = []
    srcdir = os.path.join(REPO, "src")
    for fn in sorted(os.listdir(srcdir)) + ["../isoquant.py"]:
        if not fn.endswith(".py"):
            continue
        rel = "isoquant.py" if fn.startswith("..") else "src/" + fn
        tree = parse(rel)
        for n in ast.walk(tree):
            if isinstance(n, ast.Assign) and _is_rat_suspended(n.value):
                for t in n.targets:
                    tgt = t.attr if isinstance(t, ast.Attribute) else (t.id if isinstance(t, ast.Name) else "?")
                    sites.append("%s:%s" % (rel, tgt))
    sites = sorted(set(sites))
    info["suspended_assigned_at"] = sites
    out.append("/-- every `x = ReadAssignmentType.suspended` in the sources: \"file:target\" -/")
    out.append("def suspended_assigned_at : List String := [%s]\n" % ", ".join('"%s"' % x for x in sites))
    # 5. loader: `elif resolved_assignment.assignment_type == ReadAssignmentType.suspended: continue`
    #    and `if not resolved_assignment: ... continue`
    gn = find_def(parse("src/dataset_processor.py"), "get_next", "ReadAssignmentLoader")
    skip_susp = False
    skip_missing = False
    for n in ast.walk(gn):
        if isinstance(n, ast.If):
            t = n.test
            ends_continue = bool(n.body) and isinstance(n.body[-1], ast.Continue)
            if (isinstance(t, ast.Compare) and len(t.ops) == 1 and isinstance(t.ops[0], ast.Eq)
                    and isinstance(t.left, ast.Attribute) and t.left.attr == "assignment_type"
                    and _is_rat_suspended(t.comparators[0]) and ends_continue):
                skip_susp = True
            if (isinstance(t, ast.UnaryOp) and isinstance(t.op, ast.Not) and isinstance(t.operand, ast.Name)
                    and t.operand.id == "resolved_assignment" and ends_continue):
                skip_missing = True
    info["loader"] = {"skips_suspended": skip_susp, "skips_missing": skip_missing}
    out.append("def loader_skips_suspended : Bool := %s" % ("true" if skip_susp else "false"))
    out.append("def loader_skips_missing : Bool := %s\n" % ("true" if skip_missing else "false"))
    # 6. consumers of the model-construction stage that skip `multimapper` records in their first loop
    guards = []
    ig = parse("src/intron_graph.py")
    for cls_, meth in [("IntronCollector", "collect_introns"), ("IntronGraph", "construct"),
                       ("IntronGraph", "collect_terminal_positions")]:
        guards.append(("%s.%s" % (cls_, meth), _first_loop_skips_multimapper(find_def(ig, meth, cls_))))
    gm = parse("src/graph_based_model_construction.py")
    for n in gm.body:
        if isinstance(n, ast.ClassDef):
            for m in n.body:
                if isinstance(m, ast.FunctionDef) and m.name == "fill" and any(
                        isinstance(a, ast.arg) and a.arg == "read_assignments" for a in m.args.args):
                    guards.append(("%s.fill" % n.name, _first_loop_skips_multimapper(m)))
    info["multimapper_guards"] = guards
    out.append("/-- (function, its first loop starts with `if ... a.multimapper ...: continue`) -/")
    out.append("def multimapper_guards : List (String × Bool) := [%s]\n"
               % ", ".join('("%s", %s)' % (k, "true" if v else "false") for k, v in guards))
    # 7. the pickle boundary of BasicReadAssignment (results of worker processes under --high_memory --threads > 1):
    #    the tuple __getstate__ emits and the slots __setstate__ reads
    ia = parse("src/isoform_assignment.py")
    gs = find_def(ia, "__getstate__", "BasicReadAssignment")
    grets = [n for n in ast.walk(gs) if isinstance(n, ast.Return)]
    if len(grets) != 1 or not isinstance(grets[0].value, ast.Tuple):
        raise TranslationError("BasicReadAssignment.__getstate__: expected one `return (...)` tuple")

    def _self_attr(e):
        return e.attr if (isinstance(e, ast.Attribute) and isinstance(e.value, ast.Name) and e.value.id == "self") else None

    glayout = []
    for e in grets[0].value.elts:
        if _self_attr(e):
            glayout.append(e.attr)
        elif isinstance(e, ast.Attribute) and e.attr == "value" and _self_attr(e.value):
            glayout.append(e.value.attr)                       # enum member stored by value
        elif (isinstance(e, ast.Subscript) and _self_attr(e.value) and isinstance(e.slice, ast.Constant)
              and isinstance(e.slice.value, int)):
            glayout.append("%s.%d" % (e.value.attr, e.slice.value))
        else:
            raise TranslationError("BasicReadAssignment.__getstate__: unsupported tuple element")
    ss = find_def(ia, "__setstate__", "BasicReadAssignment")
    if len(ss.args.args) != 2:
        raise TranslationError("BasicReadAssignment.__setstate__: expected (self, state)")
    stname = ss.args.args[1].arg

    def _slot(e):
        if isinstance(e, ast.Call) and len(e.args) == 1 and not e.keywords and isinstance(e.func, ast.Name) \
                and e.func.id == "ReadAssignmentType":
            e = e.args[0]                                       # enum rebuilt from its value
        if (isinstance(e, ast.Subscript) and isinstance(e.value, ast.Name) and e.value.id == stname
                and isinstance(e.slice, ast.Constant) and isinstance(e.slice.value, int)):
            return e.slice.value
        raise TranslationError("BasicReadAssignment.__setstate__: unsupported right-hand side")

    slayout = []
    for n in ss.body:
        if isinstance(n, ast.Expr) and isinstance(n.value, ast.Constant):
            continue
        if not (isinstance(n, ast.Assign) and len(n.targets) == 1 and _self_attr(n.targets[0])):
            raise TranslationError("BasicReadAssignment.__setstate__: unsupported statement")
        tgt = n.targets[0].attr
        if isinstance(n.value, ast.Tuple):
            for k, e in enumerate(n.value.elts):
                slayout.append(("%s.%d" % (tgt, k), _slot(e)))
        else:
            slayout.append((tgt, _slot(n.value)))
    info["basic_getstate_layout"] = glayout
    info["basic_setstate_layout"] = slayout
    out.append("/-- the tuple `BasicReadAssignment.__getstate__` returns (enum members by value, `x.k` = `self.x[k]`) -/")
    out.append("def basic_getstate_layout : List String := [%s]" % ", ".join('"%s"' % f for f in glayout))
    out.append("/-- `BasicReadAssignment.__setstate__`: (field, slot of the state tuple it is read from) -/")
    out.append("def basic_setstate_layout : List (String × Nat) := [%s]\n"
               % ", ".join('("%s", %d)' % (f, k) for f, k in slayout))
    out.append("end IsoVerif.Gen\n")
    return "\n".join(out), info




# ----------------------------------------------------------------------------------------------
# C16: CIGAR operation classes of src/common.py (CigarEvent.get_match_events / get_ins_del_match_events)
# and the polyA finder constants

def gen_cigar_classes():
    tree = parse("src/common.py")
    out = ["-- GENERATED by harness/translate.py from /repo/src/common.py, /repo/src/polya_finder.py, /repo/isoquant.py -- do not edit",
           "import IsoVerif.Gen.Enums", "namespace IsoVerif.Gen", ""]
    info = {}
    for meth, lname in [("get_match_events", "cigar_match_events"),
                        ("get_ins_del_match_events", "cigar_ins_del_match_events")]:
        fn = find_def(tree, meth, "CigarEvent")
        rets = [n for n in ast.walk(fn) if isinstance(n, ast.Return)]
        if len(rets) != 1 or len(fn.body) != 1:
            raise TranslationError("CigarEvent.%s: expected a single return statement" % meth)
        ms = attr_members(rets[0].value, "cls")
        info[lname] = ms
        out.append("def %s : List CigarEvent := %s" % (lname, lean_list("CigarEvent", ms)))
        out.append("def CigarEvent.in_%s (k : CigarEvent) : Bool := %s.contains k\n" % (lname, lname))
    # PolyAFinder defaults and the values isoquant.py passes (must agree; window and fraction as a ratio num/den)
    from fractions import Fraction
    pf = find_def(parse("src/polya_finder.py"), "__init__", "PolyAFinder")
    names = [a.arg for a in pf.args.args]
    if names != ["self", "window_size", "min_polya_fraction"] or len(pf.args.defaults) != 2:
        raise TranslationError("PolyAFinder.__init__ signature changed: %s" % names)
    dw, dfrac = [d.value for d in pf.args.defaults]
    iq = parse("isoquant.py")
    vals = {}
    for n in ast.walk(find_def(iq, "set_matching_options")):
        if isinstance(n, ast.Assign) and len(n.targets) == 1 and isinstance(n.targets[0], ast.Attribute) \
                and n.targets[0].attr in ("polya_window", "polya_fraction") and isinstance(n.value, ast.Constant):
            vals[n.targets[0].attr] = n.value.value
    if vals.get("polya_window") != dw or vals.get("polya_fraction") != dfrac:
        raise TranslationError("polyA window/fraction: isoquant.py %s vs PolyAFinder defaults %s" % (vals, (dw, dfrac)))
    fr = Fraction(str(dfrac))
    if not isinstance(dw, int) or float(fr) != dfrac:
        raise TranslationError("polyA window/fraction not exact")
    info.update({"polya_window": dw, "polya_fraction": [fr.numerator, fr.denominator]})
    out.append("def polya_window : Nat := %d" % dw)
    out.append("def polya_fraction_num : Nat := %d" % fr.numerator)
    out.append("def polya_fraction_den : Nat := %d" % fr.denominator)
    out.append("\nend IsoVerif.Gen\n")
    return "\n".join(out), info




# ---------------------------------------------------------------------------------------------------
# C04: model construction constants (added by the C04 builder; add-only)
# ---------------------------------------------------------------------------------------------------

def _vertex_list(tree, fname):
    """`return v[0] in [VERTEX_a, VERTEX_b]` -> ['VERTEX_a', 'VERTEX_b']"""
    fn = find_def(tree, fname)
    rets = [n for n in ast.walk(fn) if isinstance(n, ast.Return)]
    if len(rets) != 1:
        raise TranslationError("%s: expected one return" % fname)
    r = rets[0].value
    if not (isinstance(r, ast.Compare) and len(r.ops) == 1 and isinstance(r.ops[0], ast.In)
            and ast.unparse(r.left) == "v[0]" and isinstance(r.comparators[0], (ast.List, ast.Tuple, ast.Set))):
        raise TranslationError("%s: expected `v[0] in [...]`" % fname)
    names = []
    for e in r.comparators[0].elts:
        if not isinstance(e, ast.Name):
            raise TranslationError("%s: unexpected element" % fname)
        names.append(e.id)
    return names


def gen_model_construction():
    """Gen/ModelConstruction.lean: StrandnessReportingLevel, the VERTEX_* codes of the intron graph, the typed
    report_canonical column of the construction presets, the CLI default of --report_canonical, the `auto` rule and the
    allowed event set of is_matching_assignment"""
    out = ["-- GENERATED by harness/translate.py (gen_model_construction) -- do not edit",
           "import IsoVerif.Gen.Enums", "namespace IsoVerif.Gen", ""]
    info = {}
    gb = parse("src/graph_based_model_construction.py")
    cname = "StrandnessReportingLevel"
    mem = enum_members(find_def(gb, cname))
    info[cname] = mem
    out.append("inductive %s where" % cname)
    for m, _ in mem:
        out.append("  | %s" % lean_ident(m))
    out.append("  deriving DecidableEq, Repr, Inhabited\n")
    out.append("namespace %s" % cname)
    out.append("def allMembers : List %s := [%s]" % (cname, ", ".join("." + lean_ident(m) for m, _ in mem)))
    out.append("def value : %s → Nat" % cname)
    for m, v in mem:
        out.append("  | .%s => %d" % (lean_ident(m), v))
    out.append("def name : %s → String" % cname)
    for m, _ in mem:
        out.append("  | .%s => \"%s\"" % (lean_ident(m), m))
    out.append("def ofName? (s : String) : Option %s := allMembers.find? (fun x => x.name == s)" % cname)
    out.append("end %s\n" % cname)
    names = {m for m, _ in mem}
    for need in ("only_canonical", "only_stranded", "all", "auto"):
        if need not in names:
            raise TranslationError("StrandnessReportingLevel.%s missing" % need)
    # vertex codes
    ig = parse("src/intron_graph.py")
    vnames = [n.targets[0].id for n in ig.body if isinstance(n, ast.Assign) and isinstance(n.targets[0], ast.Name)
              and n.targets[0].id.startswith("VERTEX_")]
    vc = module_int_consts(ig, vnames)
    for need in ("VERTEX_polya", "VERTEX_read_end", "VERTEX_polyt", "VERTEX_read_start"):
        if need not in vc or not isinstance(vc[need], int):
            raise TranslationError("intron_graph.%s missing" % need)
    info["vertex_codes"] = vc
    for k in vnames:
        out.append("def %s : Int := %s" % (k, ("(%d)" % vc[k]) if vc[k] < 0 else str(vc[k])))
    term = _vertex_list(ig, "is_terminal_vertex")
    start = _vertex_list(ig, "is_starting_vertex")
    info["is_terminal_vertex"] = term
    info["is_starting_vertex"] = start
    out.append("def terminal_vertex_codes : List Int := [%s]" % ", ".join(term))
    out.append("def starting_vertex_codes : List Int := [%s]" % ", ".join(start))
    out.append("")
    # typed report_canonical column of the construction presets
    iq = parse("isoquant.py")
    fn = find_def(iq, "set_model_construction_options")
    fields, rows = namedtuple_table(fn)
    if "report_canonical" not in fields:
        raise TranslationError("construction presets: report_canonical column missing")
    ci = fields.index("report_canonical")
    lv = []
    for k, r in rows.items():
        txt = r[ci]
        if not txt.startswith(cname + ".") or txt.split(".", 1)[1] not in names:
            raise TranslationError("construction preset %s: report_canonical = %s" % (k, txt))
        lv.append((k, txt.split(".", 1)[1]))
    info["construction_report_level"] = lv
    out.append("def construction_report_level : List (String × %s) := [%s]"
               % (cname, ", ".join('("%s", %s.%s)' % (k, cname, lean_ident(m)) for k, m in lv)))
    # the `auto` rule: args.report_canonical_strategy = StrandnessReportingLevel[args.report_canonical];
    #                  if == auto: = strategy.report_canonical
    src = ast.unparse(fn)
    if "args.report_canonical_strategy = StrandnessReportingLevel[args.report_canonical]" not in src or \
            "if args.report_canonical_strategy == StrandnessReportingLevel.auto:\n        args.report_canonical_strategy = strategy.report_canonical" not in src:
        raise TranslationError("set_model_construction_options: report_canonical wiring changed")
    out.append("/-- last lines of `set_model_construction_options` -/")
    out.append("def effective_report_level (cli preset : %s) : %s := if cli = .auto then preset else cli" % (cname, cname))
    # CLI default of --report_canonical
    dflt = None
    for n in ast.walk(iq):
        if isinstance(n, ast.Call) and any(isinstance(a, ast.Constant) and a.value == "--report_canonical" for a in n.args):
            for kw in n.keywords:
                if kw.arg == "default":
                    dflt = ast.unparse(kw.value)
    if dflt is None or not (dflt.startswith(cname + ".") and dflt.endswith(".name")):
        raise TranslationError("--report_canonical default not found: %s" % dflt)
    dm = dflt[len(cname) + 1:-len(".name")]
    if dm not in names:
        raise TranslationError("--report_canonical default %s" % dflt)
    info["report_canonical_cli_default"] = dm
    out.append("def report_canonical_cli_default : %s := .%s" % (cname, lean_ident(dm)))
    out.append("")
    # is_matching_assignment
    ia = parse("src/isoform_assignment.py")
    fn = find_def(ia, "is_matching_assignment")
    allowed = None
    for n in ast.walk(fn):
        if isinstance(n, ast.Assign) and isinstance(n.targets[0], ast.Name) and n.targets[0].id == "allowed_set":
            allowed = attr_members(n.value, "MatchEventSubtype")
    if allowed is None:
        raise TranslationError("is_matching_assignment: allowed_set not found")
    info["matching_allowed_events"] = allowed
    out.append("def matching_allowed_events : List MatchEventSubtype := %s" % lean_list("MatchEventSubtype", allowed))
    out.append("\nend IsoVerif.Gen\n")
    return "\n".join(out), info




# ----------------------------------------------------------------------------------------------
# C14: the straight-line parts of src/illumina_exon_corrector.py (IlluminaExonCorrector): class constants, the four
# static scoring predicates, the site distance, and the two acceptance tests of correct_exons (4-bp rule with its
# "strictly inside the read" guard, guard of the skipped-exon rule)

class _IllTr(ExprTr):
    """ExprTr + `IlluminaExonCorrector.<CONST>`, calls of the class's static methods (via the class or `self`),
    `exons[0][0]` / `exons[-1][1]` (-> read_start / read_end), (in)equality of two intervals"""
    CLS = "IlluminaExonCorrector"

    def __init__(self, env, consts, sigs):
        ExprTr.__init__(self, env)
        self.consts = consts
        self.sigs = sigs

    def with_name(self, name, ty):
        t = _IllTr(self.env, self.consts, self.sigs)
        t.env[name] = ty
        return t

    def tr(self, e):
        if isinstance(e, ast.Attribute) and isinstance(e.value, ast.Name) and e.value.id == self.CLS:
            if e.attr not in self.consts:
                raise TranslationError("unknown class constant %s.%s" % (self.CLS, e.attr))
            return ("ill_" + e.attr, self.consts[e.attr])
        if isinstance(e, ast.Call) and isinstance(e.func, ast.Attribute) and isinstance(e.func.value, ast.Name) \
                and e.func.value.id in (self.CLS, "self") and e.func.attr in self.sigs and not e.keywords:
            params, ret = self.sigs[e.func.attr]
            args = [self.tr(a) for a in e.args]
            if [t for _, t in args] != [t for _, t in params]:
                raise TranslationError("call of %s with argument types %s" % (e.func.attr, [t for _, t in args]))
            return ("(ill_%s %s)" % (e.func.attr, " ".join(a for a, _ in args)), ret)
        if isinstance(e, ast.Subscript) and isinstance(e.value, ast.Subscript):
            txt = ast.unparse(e).replace(" ", "")
            if txt == "exons[0][0]":
                return ("read_start", "Int")
            if txt == "exons[-1][1]":
                return ("read_end", "Int")
            raise TranslationError("unsupported nested subscript %s" % txt)
        if isinstance(e, ast.Compare) and len(e.ops) == 1 and isinstance(e.ops[0], (ast.Eq, ast.NotEq)):
            a, ta = self.tr(e.left)
            b, tb = self.tr(e.comparators[0])
            if ta == "Iv" and tb == "Iv":
                return ("(decide (%s %s %s))" % (a, "=" if isinstance(e.ops[0], ast.Eq) else "≠", b), "Bool")
        return ExprTr.tr(self, e)


def _ill_block(stmts, tr, ret_ty):
    """`x = expr` lets followed by one `return expr`"""
    lines = []
    for s in stmts:
        if isinstance(s, ast.Expr) and isinstance(s.value, ast.Constant) and isinstance(s.value.value, str):
            continue
        if isinstance(s, ast.Assign) and len(s.targets) == 1 and isinstance(s.targets[0], ast.Name):
            txt, t = tr.tr(s.value)
            lines.append("  let %s := %s" % (s.targets[0].id, txt))
            tr = tr.with_name(s.targets[0].id, t)
            continue
        if isinstance(s, ast.Return) and s is stmts[-1]:
            txt, t = tr.tr(s.value)
            if t != ret_ty:
                raise TranslationError("return type %s, expected %s" % (t, ret_ty))
            lines.append("  " + txt)
            return "\n".join(lines)
        raise TranslationError("unsupported statement %s" % type(s).__name__)
    raise TranslationError("path without return")


ILL_SIGS = {
    "skipped_score": ([("left", "Iv"), ("right", "Iv"), ("old", "Iv")], "Int"),
    "better_skipped": ([("left", "Iv"), ("right", "Iv"), ("old", "Iv"), ("score", "Int")], "Bool"),
    "right_length": ([("left", "Iv"), ("right", "Iv"), ("old", "Iv")], "Bool"),
    "one_differs": ([("left", "Iv"), ("right", "Iv"), ("old", "Iv")], "Bool"),
}
ILL_ORDER = ["skipped_score", "better_skipped", "right_length", "one_differs"]


def gen_illumina():
    tree = parse("src/illumina_exon_corrector.py")
    cls = "IlluminaExonCorrector"
    cc = class_consts(tree, cls)
    info = {}
    consts = {}
    out = ["-- GENERATED by harness/translate.py from /repo/src/illumina_exon_corrector.py -- do not edit",
           "import IsoVerif.Gen.Prims", "namespace IsoVerif.Gen", ""]
    for nm in ("MAX_SCORE", "EXON_LENGTH", "SIDE_DIFF"):
        v = cc.get(nm)
        if isinstance(v, bool) or not isinstance(v, int):
            raise TranslationError("%s.%s is not an int constant: %r" % (cls, nm, v))
        consts[nm] = "Int"
        out.append("def ill_%s : Int := %d" % (nm, v))
    ab = cc.get("ABSENT_INTRON")
    if not (isinstance(ab, tuple) and len(ab) == 2 and all(isinstance(x, int) and not isinstance(x, bool) for x in ab)):
        raise TranslationError("%s.ABSENT_INTRON is not a pair of ints: %r" % (cls, ab))
    consts["ABSENT_INTRON"] = "Iv"
    out.append("def ill_ABSENT_INTRON : Iv := (%d, %d)" % ab)
    out.append("")
    info["constants"] = {k: cc[k] for k in ("MAX_SCORE", "EXON_LENGTH", "SIDE_DIFF", "ABSENT_INTRON")}
    sigs = {}
    for name in ILL_ORDER:
        fn = find_def(tree, name, cls)
        params, ret = ILL_SIGS[name]
        if not any(isinstance(d, ast.Name) and d.id == "staticmethod" for d in fn.decorator_list):
            raise TranslationError("%s.%s is no longer a static method" % (cls, name))
        argnames = [a.arg for a in fn.args.args]
        if argnames != [p for p, _ in params] or fn.args.defaults:
            raise TranslationError("%s: parameters %s, expected %s" % (name, argnames, [p for p, _ in params]))
        tr = _IllTr(dict(params), consts, sigs)
        body = _ill_block(fn.body, tr, ret)
        out.append("def ill_%s %s : %s :=\n%s\n" % (name, " ".join("(%s : %s)" % pt for pt in params), ret, body))
        sigs[name] = (params, ret)
    # ---- correct_exons: shape + the straight-line tests
    ce = find_def(tree, "correct_exons", cls)
    if [a.arg for a in ce.args.args] != ["self", "exons"]:
        raise TranslationError("correct_exons: parameters changed")
    loops = [n for n in ce.body if isinstance(n, ast.For)]
    if len(loops) != 1 or ast.unparse(loops[0].target) != "i" or ast.unparse(loops[0].iter) != "introns":
        raise TranslationError("correct_exons: expected exactly one top-level loop `for i in introns`")
    outer = loops[0]
    inner = [n for n in outer.body if isinstance(n, ast.For)]
    if len(inner) != 1 or ast.unparse(inner[0].target) != "s" or ast.unparse(inner[0].iter) != "self.short_introns":
        raise TranslationError("correct_exons: expected one loop `for s in self.short_introns` per read intron")
    dist = [n for n in inner[0].body if isinstance(n, ast.Assign) and ast.unparse(n.targets[0]) == "x"]
    if len(dist) != 1:
        raise TranslationError("correct_exons: site distance `x = ...` not found")
    tr = _IllTr({"i": "Iv", "s": "Iv"}, consts, sigs)
    txt, t = tr.tr(dist[0].value)
    if t != "Int":
        raise TranslationError("correct_exons: site distance is not an int expression")
    out.append("/-- `x = ...` of the inner loop over the short-read introns -/")
    out.append("def ill_site_distance (i : Iv) (s : Iv) : Int :=\n  %s\n" % txt)

    def appends(node, what):
        return [n for n in ast.walk(node) if isinstance(n, ast.Call) and
                ast.unparse(n.func) == "corrected_introns.append" and len(n.args) == 1 and ast.unparse(n.args[0]) == what]

    def the_if(what):
        ifs = [n for n in ast.walk(outer) if isinstance(n, ast.If) and
               any(isinstance(b, ast.Expr) and b.value in appends(n, what) for b in n.body)]
        if len(ifs) != 1 or len(appends(ce, what)) != 1:
            raise TranslationError("correct_exons: expected exactly one `if ...: corrected_introns.append(%s)`" % what)
        return ifs[0]
    single = the_if("sh")
    pair = the_if("left")
    if the_if("right") is not pair:
        raise TranslationError("correct_exons: left and right are appended under different tests")
    keep = the_if("i")
    if ast.unparse(keep.test) != "not appended" or keep not in outer.body or single not in outer.body:
        raise TranslationError("correct_exons: the keep-original branch or the single-junction test changed place")
    env = {"i": "Iv", "sh": "Iv", "read_start": "Int", "read_end": "Int"}
    txt, t = _IllTr(env, consts, sigs).tr(single.test)
    if t != "Bool":
        raise TranslationError("correct_exons: single-junction test is not boolean")
    out.append("/-- test under which the best single match `sh` replaces read intron `i`\n"
               "    (`exons[0][0]` = read_start, `exons[-1][1]` = read_end) -/")
    out.append("def ill_single_rule (i : Iv) (sh : Iv) (read_start : Int) (read_end : Int) : Bool :=\n  %s\n" % txt)
    env = {"left": "Iv", "right": "Iv", "read_start": "Int", "read_end": "Int"}
    txt, t = _IllTr(env, consts, sigs).tr(pair.test)
    if t != "Bool":
        raise TranslationError("correct_exons: skipped-exon acceptance test is not boolean")
    out.append("/-- test under which the pair `(left, right)` found by the skipped-exon search replaces the read intron -/")
    out.append("def ill_pair_guard (left : Iv) (right : Iv) (read_start : Int) (read_end : Int) : Bool :=\n  %s\n" % txt)
    info["single_rule"] = ast.unparse(single.test)
    info["pair_guard"] = ast.unparse(pair.test)
    # the result expression
    ret = ce.body[-1]
    want = "get_exons((exons[0][0], exons[-1][1]), corrected_introns)"
    if not isinstance(ret, ast.Return) or ast.unparse(ret.value) != want:
        raise TranslationError("correct_exons: result is no longer %s" % want)
    out.append("end IsoVerif.Gen\n")
    return "\n".join(out), info



def gen_comparator_tables():
    """tables read by JunctionComparator (src/junction_comparator.py): `alternative_sites` (src/isoform_assignment.py), the
    inline event set of classify_single_intron_alternation that triggers the suspicious-intron re-labelling, and every
    MatchEventSubtype member the comparator can put into a MatchEvent"""
    ia = parse("src/isoform_assignment.py")
    jc = parse("src/junction_comparator.py")
    out = ["-- GENERATED by harness/translate.py from /repo/src/isoform_assignment.py, /repo/src/junction_comparator.py "
           "-- do not edit", "import IsoVerif.Gen.Enums", "namespace IsoVerif.Gen", ""]
    info = {}
    alt = find_assign(ia, "alternative_sites")
    if not isinstance(alt, ast.Dict):
        raise TranslationError("alternative_sites is not a dict display")
    rows = []
    for k, v in zip(alt.keys, alt.values):
        if not (isinstance(k, ast.Tuple) and len(k.elts) == 2 and isinstance(k.elts[0], ast.Constant)
                and isinstance(k.elts[0].value, str) and isinstance(k.elts[1], ast.Constant)
                and isinstance(k.elts[1].value, bool) and isinstance(v, ast.Attribute)
                and isinstance(v.value, ast.Name) and v.value.id == "MatchEventSubtype"):
            raise TranslationError("alternative_sites: unexpected entry %s" % ast.unparse(k))
        rows.append((k.elts[0].value, k.elts[1].value, v.attr))
    info["alternative_sites"] = rows
    out.append("/-- `alternative_sites[(side, read_introns_known)]`; `none` = KeyError -/")
    out.append("def alternative_sites_table : List ((String × Bool) × MatchEventSubtype) := [" +
               ", ".join('(("%s", %s), .%s)' % (a, "true" if b else "false", lean_ident(m)) for a, b, m in rows) + "]")
    out.append("def alternative_sites (side : String) (known : Bool) : Option MatchEventSubtype := "
               "(alternative_sites_table.find? (fun p => p.1.1 == side && p.1.2 == known)).map (·.2)\n")
    cls = find_def(jc, "JunctionComparator")
    fn = find_def(jc, "classify_single_intron_alternation", "JunctionComparator")
    sets = [n for n in ast.walk(fn) if isinstance(n, ast.Compare) and len(n.ops) == 1 and isinstance(n.ops[0], ast.In)
            and isinstance(n.left, ast.Name) and n.left.id == "event" and isinstance(n.comparators[0], ast.Set)]
    if len(sets) != 1:
        raise TranslationError("classify_single_intron_alternation: expected one `event in {...}` test")
    ms = attr_members(sets[0].comparators[0], "MatchEventSubtype")
    info["suspicious_alternation_events"] = ms
    out.append("/-- events of classify_single_intron_alternation that are re-labelled intron_retention for suspicious introns -/")
    out.append("def suspicious_alternation_events : List MatchEventSubtype := %s\n" % lean_list("MatchEventSubtype", ms))
    # the literal side names used with alternative_sites inside the comparator must be keys of the table
    for n in ast.walk(cls):
        if isinstance(n, ast.Subscript) and isinstance(n.value, ast.Name) and n.value.id == "alternative_sites":
            k = n.slice
            if not (isinstance(k, ast.Tuple) and isinstance(k.elts[0], ast.Constant) and k.elts[0].value in ("left", "right")):
                raise TranslationError("alternative_sites[...] used with an unexpected key: %s" % ast.unparse(k))
    seen = []
    for n in ast.walk(cls):
        if isinstance(n, ast.Attribute) and isinstance(n.value, ast.Name) and n.value.id == "MatchEventSubtype":
            if n.attr not in seen:
                seen.append(n.attr)
    for _, _, m in rows:
        if m not in seen:
            seen.append(m)
    info["comparator_event_types"] = seen
    out.append("/-- every MatchEventSubtype member named in class JunctionComparator (plus the values of alternative_sites) -/")
    out.append("def comparator_event_types : List MatchEventSubtype := %s" % lean_list("MatchEventSubtype", seen))
    out.append("\nend IsoVerif.Gen\n")
    return "\n".join(out), info


# ---------------------------------------------------------------------------------------------------
# C03 (text of the GTF): every string literal GFFPrinter.dump / TranscriptModel / GeneInfo.set_gene_attributes put
# into a line (added by the C03-attributes builder; add-only)
# ---------------------------------------------------------------------------------------------------

def _lean_str_esc(s):
    if not isinstance(s, str):
        raise TranslationError("string literal expected, got %r" % (s,))
    out = []
    for ch in s:
        if ch == "\\":
            out.append("\\\\")
        elif ch == '"':
            out.append('\\"')
        elif ch == "\t":
            out.append("\\t")
        elif ch == "\n":
            out.append("\\n")
        elif 32 <= ord(ch) < 127:
            out.append(ch)
        else:
            raise TranslationError("unsupported character %r in a GTF format literal" % ch)
    return '"' + "".join(out) + '"'


def _fmt_directives(s):
    """the %-directives of a format literal; only %s and %d are supported by the model's interpreter"""
    ds = []
    i = 0
    while i < len(s):
        if s[i] == "%":
            if i + 1 >= len(s) or s[i + 1] not in "sd":
                raise TranslationError("unsupported %%-directive in format literal %r" % s)
            ds.append(s[i + 1])
            i += 2
        else:
            i += 1
    return "".join(ds)


def _mod_fmt(node, what):
    """`"<literal>" % args` -> (literal, number of args)"""
    if not (isinstance(node, ast.BinOp) and isinstance(node.op, ast.Mod) and isinstance(node.left, ast.Constant)
            and isinstance(node.left.value, str)):
        raise TranslationError("%s: expected '<string literal> %% (...)', found %s" % (what, ast.dump(node)[:120]))
    n = len(node.right.elts) if isinstance(node.right, ast.Tuple) else 1
    if n != len(_fmt_directives(node.left.value)):
        raise TranslationError("%s: %d arguments for format %r" % (what, n, node.left.value))
    return node.left.value


def _assigns(fn, name):
    return [n for n in ast.walk(fn) if isinstance(n, ast.Assign) and len(n.targets) == 1
            and isinstance(n.targets[0], ast.Name) and n.targets[0].id == name]


def _one_assign(fn, name, pred=None):
    c = [n.value for n in _assigns(fn, name) if pred is None or pred(n.value)]
    if len(c) != 1:
        raise TranslationError("GFFPrinter.dump: expected exactly one matching assignment to %s, found %d" % (name, len(c)))
    return c[0]


def _flatten_add(node):
    if isinstance(node, ast.BinOp) and isinstance(node.op, ast.Add):
        return _flatten_add(node.left) + _flatten_add(node.right)
    return [node]


def _skip_list(test, what):
    """`attr in ['a', 'b', ...]` -> the list"""
    if not (isinstance(test, ast.Compare) and len(test.ops) == 1 and isinstance(test.ops[0], ast.In)
            and isinstance(test.comparators[0], (ast.List, ast.Tuple, ast.Set))):
        raise TranslationError("%s: expected `attr in [literals]`" % what)
    vals = [e.value for e in test.comparators[0].elts if isinstance(e, ast.Constant) and isinstance(e.value, str)]
    if len(vals) != len(test.comparators[0].elts):
        raise TranslationError("%s: non-literal member" % what)
    return vals


def gen_gtf_format():
    tp = parse("src/transcript_printer.py")
    gi = parse("src/gene_info.py")
    dump = find_def(tp, "dump", "GFFPrinter")
    info = {}
    is_mod = lambda v: isinstance(v, ast.BinOp) and isinstance(v.op, ast.Mod)
    info["gtf_gene_fmt"] = _mod_fmt(_one_assign(dump, "gene_line"), "gene_line")
    info["gtf_transcript_fmt"] = _mod_fmt(_one_assign(dump, "transcript_line"), "transcript_line")
    info["gtf_prefix_fmt"] = _mod_fmt(_one_assign(dump, "prefix_columns"), "prefix_columns")
    info["gtf_suffix_fmt"] = _mod_fmt(_one_assign(dump, "suffix_columns"), "suffix_columns")
    # exon_id = model.transcript_id + "_%d_%d_%s" % (...)
    parts = _flatten_add(_one_assign(dump, "exon_id"))
    if len(parts) != 2 or not (isinstance(parts[0], ast.Attribute) and parts[0].attr == "transcript_id"):
        raise TranslationError("GFFPrinter.dump: exon_id is no longer transcript_id + format")
    info["gtf_exon_key_fmt"] = _mod_fmt(parts[1], "exon_id")
    # default source of a gene line and the gene_info overrides
    src = [v for v in (n.value for n in _assigns(dump, "source")) if isinstance(v, ast.Constant)]
    if len(src) != 1 or not isinstance(src[0].value, str):
        raise TranslationError("GFFPrinter.dump: default `source = <literal>` not found")
    info["gtf_default_source"] = src[0].value
    # " " + gene_info.feature_attributes[...]
    for var, key in (("transcript_additiional_info", "gtf_tx_extra_sep"), ("exon_additiional_info", "gtf_exon_extra_sep")):
        v = _one_assign(dump, var, lambda v: isinstance(v, ast.BinOp))
        ps = _flatten_add(v)
        if len(ps) != 2 or not isinstance(ps[0], ast.Constant) or not isinstance(ps[1], ast.Subscript):
            raise TranslationError("GFFPrinter.dump: %s is no longer <literal> + feature_attributes[...]" % var)
        info[key] = ps[0].value
        empties = [n.value.value for n in _assigns(dump, var) if isinstance(n.value, ast.Constant)]
        if empties != [""]:
            raise TranslationError("GFFPrinter.dump: %s default is not the empty string" % var)
    if [n.value.value for n in _assigns(dump, "gene_additiional_info") if isinstance(n.value, ast.Constant)] != [""]:
        raise TranslationError("GFFPrinter.dump: gene_additiional_info default is not the empty string")
    # the feature line: write(prefix_columns + "<fmt>" % (...) + suffix_columns + '<fmt>' % (...))
    writes = [n for n in ast.walk(dump) if isinstance(n, ast.Call) and isinstance(n.func, ast.Attribute)
              and n.func.attr == "write" and n.args and len([m for m in ast.walk(n.args[0]) if is_mod(m)]) == 2]
    if len(writes) != 1:
        raise TranslationError("GFFPrinter.dump: the feature-line write (two formats) was not found")
    ps = _flatten_add(writes[0].args[0])
    shape = [(p.id if isinstance(p, ast.Name) else "%" if is_mod(p) else "?") for p in ps]
    if shape != ["prefix_columns", "%", "suffix_columns", "%"]:
        raise TranslationError("GFFPrinter.dump: feature line is no longer prefix + fmt + suffix + fmt (%s)" % shape)
    info["gtf_feature_coord_fmt"] = _mod_fmt(ps[1], "feature line")
    info["gtf_feature_attr_fmt"] = _mod_fmt(ps[3], "feature line")
    # literals: "exons" key, 'exon' feature type, '-' strand
    ca = [n for n in ast.walk(dump) if isinstance(n, ast.Call) and isinstance(n.func, ast.Attribute)
          and n.func.attr == "check_additional"]
    aa = [n for n in ast.walk(dump) if isinstance(n, ast.Call) and isinstance(n.func, ast.Attribute)
          and n.func.attr == "add_additional_attribute"]
    if len(ca) != 1 or len(aa) != 1 or not isinstance(ca[0].args[0], ast.Constant) or \
            not isinstance(aa[0].args[0], ast.Constant) or ca[0].args[0].value != aa[0].args[0].value:
        raise TranslationError("GFFPrinter.dump: check_additional / add_additional_attribute of the exon count changed")
    info["gtf_exons_key"] = ca[0].args[0].value
    ap = [n for n in ast.walk(dump) if isinstance(n, ast.Call) and isinstance(n.func, ast.Attribute)
          and n.func.attr == "append" and isinstance(n.func.value, ast.Name) and n.func.value.id == "exons_to_print"]
    if len(ap) != 1 or not isinstance(ap[0].args[0], ast.Tuple) or len(ap[0].args[0].elts) != 3 or \
            not isinstance(ap[0].args[0].elts[2], ast.Constant):
        raise TranslationError("GFFPrinter.dump: exons_to_print.append((start, end, <literal>)) not found")
    info["gtf_exon_feature"] = ap[0].args[0].elts[2].value
    rev = [n for n in ast.walk(dump) if isinstance(n, ast.IfExp) and isinstance(n.test, ast.Compare)
           and isinstance(n.test.left, ast.Attribute) and n.test.left.attr == "strand"]
    if len(rev) != 1 or not isinstance(rev[0].test.ops[0], ast.Eq) or not isinstance(rev[0].test.comparators[0], ast.Constant):
        raise TranslationError("GFFPrinter.dump: `sorted(.., reverse=True) if model.strand == <literal> else sorted(..)` not found")
    info["gtf_reverse_strand"] = rev[0].test.comparators[0].value
    # TranscriptModel: default source, additional_attributes_str
    init = find_def(gi, "__init__", "TranscriptModel")
    names = [a.arg for a in init.args.args]
    if "source" not in names or not init.args.defaults:
        raise TranslationError("TranscriptModel.__init__: no `source` parameter with a default")
    d = init.args.defaults[names.index("source") - (len(names) - len(init.args.defaults))]
    if not isinstance(d, ast.Constant):
        raise TranslationError("TranscriptModel.__init__: default source is not a literal")
    info["tm_default_source"] = d.value
    aas = find_def(gi, "additional_attributes_str", "TranscriptModel")
    if len(aas.body) != 1 or not isinstance(aas.body[0], ast.Return):
        raise TranslationError("additional_attributes_str: expected a single return")
    call = aas.body[0].value
    if not (isinstance(call, ast.Call) and isinstance(call.func, ast.Attribute) and call.func.attr == "join"
            and isinstance(call.func.value, ast.Constant) and isinstance(call.args[0], ast.ListComp)):
        raise TranslationError("additional_attributes_str: expected '<sep>'.join([fmt % (k, v) for k, v in ...items()])")
    info["tm_attr_join"] = call.func.value.value
    info["tm_attr_fmt"] = _mod_fmt(call.args[0].elt, "additional_attributes_str")
    # GeneInfo.set_gene_attributes: skip lists and the pair format (gene / transcript / exon loops, in source order)
    sga = find_def(gi, "set_gene_attributes", "GeneInfo")
    skips = [n for n in ast.walk(sga) if isinstance(n, ast.If) and isinstance(n.test, ast.Compare)
             and isinstance(n.test.ops[0], ast.In) and len(n.body) == 1 and isinstance(n.body[0], ast.Continue)]
    skips.sort(key=lambda n: n.lineno)
    augs = [n for n in ast.walk(sga) if isinstance(n, ast.AugAssign) and isinstance(n.op, ast.Add)]
    augs.sort(key=lambda n: n.lineno)
    if len(skips) != 3 or len(augs) != 3:
        raise TranslationError("set_gene_attributes: expected three skip lists and three `+=` (found %d, %d)" % (len(skips), len(augs)))
    for nm, sk, au in zip(("gene", "transcript", "exon"), skips, augs):
        info["gi_%s_attr_skip" % nm] = _skip_list(sk.test, "set_gene_attributes (%s)" % nm)
        info["gi_%s_attr_fmt" % nm] = _mod_fmt(au.value, "set_gene_attributes (%s)" % nm)
    ek = [n.value for n in _assigns(sga, "exon_id")]
    if len(ek) != 1:
        raise TranslationError("set_gene_attributes: expected one assignment to exon_id")
    parts = _flatten_add(ek[0])
    if len(parts) != 2 or not (isinstance(parts[0], ast.Attribute) and parts[0].attr == "id"):
        raise TranslationError("set_gene_attributes: exon_id is no longer t.id + format")
    info["gi_exon_key_fmt"] = _mod_fmt(parts[1], "set_gene_attributes exon_id")
    of = find_assign(find_def(gi, "GeneInfo"), "OTHER_FEATURES")
    if not isinstance(of, ast.Set) or not all(isinstance(e, ast.Constant) and isinstance(e.value, str) for e in of.elts):
        raise TranslationError("GeneInfo.OTHER_FEATURES is not a set of string literals")
    info["gi_other_features"] = sorted(e.value for e in of.elts)
    # attribute keys written by add_additional_attribute anywhere in src (literal, or a local name bound to a literal)
    keys = []
    for rel in sorted(os.listdir(os.path.join(REPO, "src"))):
        if not rel.endswith(".py"):
            continue
        t = parse("src/" + rel)
        for fn in [n for n in ast.walk(t) if isinstance(n, ast.FunctionDef)]:
            local = {n.targets[0].id: n.value.value for n in ast.walk(fn) if isinstance(n, ast.Assign)
                     and len(n.targets) == 1 and isinstance(n.targets[0], ast.Name) and isinstance(n.value, ast.Constant)
                     and isinstance(n.value.value, str)}
            for c in ast.walk(fn):
                if isinstance(c, ast.Call) and isinstance(c.func, ast.Attribute) and c.func.attr == "add_additional_attribute":
                    a = c.args[0]
                    if isinstance(a, ast.Constant) and isinstance(a.value, str):
                        k = a.value
                    elif isinstance(a, ast.Name) and a.id in local:
                        k = local[a.id]
                    elif fn.name == "add_additional_attribute":
                        continue
                    else:
                        raise TranslationError("%s:%d add_additional_attribute with a non-literal key" % (rel, c.lineno))
                    if k not in keys:
                        keys.append(k)
    info["gtf_additional_keys"] = sorted(keys)
    out = ["-- GENERATED by harness/translate.py from /repo/src/transcript_printer.py, /repo/src/gene_info.py -- do not edit",
           "namespace IsoVerif.Gen", ""]
    for k in sorted(info):
        v = info[k]
        if isinstance(v, list):
            out.append("def %s : List String := [%s]" % (k, ", ".join(_lean_str_esc(x) for x in v)))
        else:
            if k.endswith("_fmt"):
                _fmt_directives(v)
            out.append("def %s : String := %s" % (k, _lean_str_esc(v)))
    out.append("\nend IsoVerif.Gen\n")
    return "\n".join(out), info


# ----------------------------------------------------------------------------------------------
# C15 / C05 / C08 (read-level printers): the event-name table and the structure of match_subtype_to_str /
# match_subtype_to_str_with_additional_info (src/isoform_assignment.py), the header lines of read_assignments.tsv and
# corrected_reads.bed (src/assignment_io.py)

def _is_name(n, ident):
    return isinstance(n, ast.Name) and n.id == ident


def _strand_test(test):
    """`strand == '<c>'` -> c"""
    if isinstance(test, ast.Compare) and len(test.ops) == 1 and isinstance(test.ops[0], ast.Eq) \
            and _is_name(test.left, "strand") and isinstance(test.comparators[0], ast.Constant) \
            and isinstance(test.comparators[0].value, str):
        return test.comparators[0].value
    raise TranslationError("match_subtype_to_str: expected `strand == '<c>'`")


def _name_pick(stmts):
    """`return match_subtype_printable_names[event_subtype][k]` -> k"""
    if len(stmts) == 1 and isinstance(stmts[0], ast.Return):
        v = stmts[0].value
        if isinstance(v, ast.Subscript) and isinstance(v.slice, ast.Constant) and isinstance(v.slice.value, int) \
                and isinstance(v.value, ast.Subscript) and _is_name(v.value.value, "match_subtype_printable_names") \
                and _is_name(v.value.slice, "event_subtype"):
            return v.slice.value
    raise TranslationError("match_subtype_to_str: expected `return match_subtype_printable_names[event_subtype][k]`")


def _in_subtype_set(test):
    """`event_subtype in {MatchEventSubtype.a, ...}` -> [a, ...]"""
    if isinstance(test, ast.Compare) and len(test.ops) == 1 and isinstance(test.ops[0], ast.In) \
            and _is_name(test.left, "event_subtype"):
        return attr_members(test.comparators[0], "MatchEventSubtype")
    raise TranslationError("match_subtype_to_str_with_additional_info: expected `event_subtype in {...}`")


def gen_printer_tables():
    tree = parse("src/isoform_assignment.py")
    out = ["-- GENERATED by harness/translate.py from /repo/src/isoform_assignment.py, /repo/src/assignment_io.py -- do not edit",
           "import IsoVerif.Gen.Enums", "namespace IsoVerif.Gen", ""]
    info = {}
    members = [m for m, _ in enum_members(find_def(tree, "MatchEventSubtype"))]
    # 1. match_subtype_printable_names
    tbl = find_assign(tree, "match_subtype_printable_names")
    if not isinstance(tbl, ast.Dict):
        raise TranslationError("match_subtype_printable_names is not a dict display")
    rows = []
    for k, v in zip(tbl.keys, tbl.values):
        if not (isinstance(k, ast.Attribute) and _is_name(k.value, "MatchEventSubtype") and k.attr in members):
            raise TranslationError("match_subtype_printable_names: unexpected key")
        if not (isinstance(v, ast.Tuple) and len(v.elts) == 3 and
                all(isinstance(e, ast.Constant) and isinstance(e.value, str) for e in v.elts)):
            raise TranslationError("match_subtype_printable_names[%s]: expected a tuple of three string literals" % k.attr)
        rows.append((k.attr, [e.value for e in v.elts]))
    if len({r[0] for r in rows}) != len(rows):
        raise TranslationError("match_subtype_printable_names: repeated key")
    info["printable_names"] = rows
    out.append("/-- `match_subtype_printable_names`: (name on '+', name on '-', name otherwise) -/")
    out.append("def printable_names : List (MatchEventSubtype × (String × String × String)) := [")
    out.append(",\n".join("  (MatchEventSubtype.%s, (%s, %s, %s))" % ((lean_ident(m),) + tuple(_lean_str(x) for x in ns))
                          for m, ns in rows))
    out.append("]\n")
    # 2. match_subtype_to_str: which column for which strand
    fn = find_def(tree, "match_subtype_to_str")
    if [a.arg for a in fn.args.args] != ["event", "strand"]:
        raise TranslationError("match_subtype_to_str: unexpected signature")
    body = [s for s in fn.body if not (isinstance(s, ast.Expr) and isinstance(s.value, ast.Constant))]
    ok = len(body) == 3 and isinstance(body[0], ast.Assign) and isinstance(body[1], ast.If) and isinstance(body[2], ast.Return)
    if ok:
        a, cond, ret = body
        ok = _is_name(a.targets[0], "event_subtype") and isinstance(a.value, ast.Attribute) and a.value.attr == "event_type" \
            and _is_name(a.value.value, "event") \
            and isinstance(ret.value, ast.Attribute) and ret.value.attr == "name" and _is_name(ret.value.value, "event_subtype") \
            and not cond.orelse
        t = cond.test
        ok = ok and isinstance(t, ast.Compare) and len(t.ops) == 1 and isinstance(t.ops[0], ast.In) and _is_name(t.left, "event_subtype") \
            and isinstance(t.comparators[0], ast.Call) and isinstance(t.comparators[0].func, ast.Attribute) \
            and t.comparators[0].func.attr == "keys" and _is_name(t.comparators[0].func.value, "match_subtype_printable_names")
    if not ok:
        raise TranslationError("match_subtype_to_str: unexpected shape")
    inner = [s for s in cond.body]
    # an optional `if strand is None: logger.warning(...)` (no effect on the value), then the if / elif / else chain
    if len(inner) == 2 and isinstance(inner[0], ast.If) and not inner[0].orelse and \
            all(isinstance(s, ast.Expr) and isinstance(s.value, ast.Call) for s in inner[0].body):
        inner = inner[1:]
    if len(inner) != 1 or not isinstance(inner[0], ast.If):
        raise TranslationError("match_subtype_to_str: expected one if / elif / else chain over the strand")
    picks, node = [], inner[0]
    while True:
        picks.append((_strand_test(node.test), _name_pick(node.body)))
        if len(node.orelse) == 1 and isinstance(node.orelse[0], ast.If):
            node = node.orelse[0]
            continue
        default = _name_pick(node.orelse)
        break
    if any(not 0 <= k <= 2 for _, k in picks) or not 0 <= default <= 2:
        raise TranslationError("match_subtype_to_str: column index out of range")
    info["strand_picks"] = picks
    info["strand_default"] = default
    proj = ["n.1", "n.2.1", "n.2.2"]
    out.append("/-- the if / elif / else chain of `match_subtype_to_str` over the strand -/")
    out.append("def printable_pick (strand : String) (n : String × String × String) : String :=")
    chain = "".join("if strand = %s then %s else " % (_lean_str(c), proj[k]) for c, k in picks)
    out.append("  " + chain + proj[default] + "\n")
    # 3. match_subtype_to_str_with_additional_info: the two event sets and the shape of the three branches
    fn = find_def(tree, "match_subtype_to_str_with_additional_info")
    if [a.arg for a in fn.args.args] != ["event", "strand", "read_introns", "isoform_introns"]:
        raise TranslationError("match_subtype_to_str_with_additional_info: unexpected signature")
    ifs = [s for s in fn.body if isinstance(s, ast.If)]
    if len(ifs) != 1 or len(ifs[0].orelse) != 1 or not isinstance(ifs[0].orelse[0], ast.If) or not ifs[0].orelse[0].orelse:
        raise TranslationError("match_subtype_to_str_with_additional_info: expected if / elif / else")
    set1 = _in_subtype_set(ifs[0].test)
    set2 = _in_subtype_set(ifs[0].orelse[0].test)
    src = ast.unparse(fn)
    for needle in ("event.isoform_region != SupplementaryMatchConstants.undefined_region",
                   "isoform_introns[event.isoform_region[0]:event.isoform_region[1] + 1]",
                   "':' + str(event.event_info)",
                   "event.read_region != SupplementaryMatchConstants.undefined_region and event.read_region[0] >= 0 and (event.read_region[1] >= 0)",
                   "read_introns[event.read_region[0]:event.read_region[1] + 1]",
                   "':' + regions_to_str(introns)",
                   "return match_subtype_to_str(event, strand) + additional_info"):
        if needle not in src:
            raise TranslationError("match_subtype_to_str_with_additional_info: expected `%s`" % needle)
    for nm in set1 + set2:
        if nm not in members:
            raise TranslationError("unknown MatchEventSubtype.%s" % nm)
    info["isoform_intron_events"], info["event_info_events"] = set1, set2
    out.append("/-- events printed with the ISOFORM introns `isoform_region[0] .. isoform_region[1]` -/")
    out.append("def printer_isoform_intron_events : List MatchEventSubtype := %s" % lean_list("MatchEventSubtype", set1))
    out.append("/-- events printed with `event_info` -/")
    out.append("def printer_event_info_events : List MatchEventSubtype := %s\n" % lean_list("MatchEventSubtype", set2))
    src = ast.unparse(find_def(tree, "regions_to_str"))
    if "','.join([str(x[0]) + '-' + str(x[1]) for x in regions])" not in src:
        raise TranslationError("regions_to_str: unexpected body")
    # 4. headers of the two read-level files
    aio = parse("src/assignment_io.py")
    init = find_def(aio, "__init__", "BasicTSVAssignmentPrinter")
    hdr = None
    for n in ast.walk(init):
        if isinstance(n, ast.Assign) and isinstance(n.targets[0], ast.Attribute) and n.targets[0].attr == "header" \
                and isinstance(n.value, ast.Constant) and isinstance(n.value.value, str):
            hdr = n.value.value
    if hdr is None:
        raise TranslationError("BasicTSVAssignmentPrinter.__init__: self.header is not a string literal")
    binit = find_def(aio, "__init__", "BEDPrinter")
    bhdr = [n.args[0].value for n in ast.walk(binit) if isinstance(n, ast.Call) and isinstance(n.func, ast.Attribute)
            and n.func.attr == "write" and len(n.args) == 1 and isinstance(n.args[0], ast.Constant)
            and isinstance(n.args[0].value, str)]
    if len(bhdr) != 1:
        raise TranslationError("BEDPrinter.__init__: expected one write of a string literal")
    for h in (hdr, bhdr[0]):
        if not h.endswith("\n") or h.count("\n") != 1:
            raise TranslationError("header is not exactly one line")
    info["tsv_header"], info["bed_header"] = hdr, bhdr[0]

    def lstr(x):
        return '"' + x.replace("\\", "\\\\").replace('"', '\\"').replace("\t", "\\t").replace("\n", "\\n") + '"'
    out.append("def printer_tsv_header : String := %s" % lstr(hdr))
    out.append("def printer_bed_header : String := %s" % lstr(bhdr[0]))
    # the BED printer writes the corrected exons, the TSV printer exists iff a gene database is given
    agg = ast.unparse(find_def(parse("src/dataset_processor.py"), "__init__", "ReadAssignmentAggregator"))
    for needle in ("BEDPrinter(sample.out_corrected_bed, self.args, print_corrected=True, gzipped=gzipped)",
                   "printer_list = [self.corrected_bed_printer]",
                   "self.global_printer = ReadAssignmentCompositePrinter(printer_list)"):
        if needle not in agg:
            raise TranslationError("ReadAssignmentAggregator.__init__: expected `%s`" % needle)
    out.append("def printer_bed_print_corrected : Bool := true")
    out.append("\nend IsoVerif.Gen\n")
    return "\n".join(out), info



# ----------------------------------------------------------------------------------------------
# C18 (printed attribute list of a transcript line): the skip lists of GeneInfo.set_gene_attributes

def _skip_list_of(loop, var):
    """the literal list of `if <var> in [..]: continue` that opens the body of `for <var> in X.attributes.keys():`"""
    if not (isinstance(loop, ast.For) and isinstance(loop.target, ast.Name) and loop.target.id == var and loop.body):
        raise TranslationError("set_gene_attributes: expected a loop over attribute names")
    first = loop.body[0]
    if not (isinstance(first, ast.If) and isinstance(first.test, ast.Compare) and len(first.test.ops) == 1
            and isinstance(first.test.ops[0], ast.In) and isinstance(first.test.left, ast.Name) and first.test.left.id == var
            and isinstance(first.test.comparators[0], (ast.List, ast.Tuple, ast.Set))
            and len(first.body) == 1 and isinstance(first.body[0], ast.Continue) and not first.orelse):
        raise TranslationError("set_gene_attributes: the attribute loop does not start with `if attr in [...]: continue`")
    vals = []
    for e in first.test.comparators[0].elts:
        if not (isinstance(e, ast.Constant) and isinstance(e.value, str)):
            raise TranslationError("set_gene_attributes: non-literal entry in a skip list")
        vals.append(e.value)
    # the rest of the body must be the guarded copy `if X.attributes[attr]: self.feature_attributes[..] += FORMAT % (attr, X.attributes[attr][0])`
    rest = loop.body[1:]
    if not (len(rest) == 1 and isinstance(rest[0], ast.If) and not rest[0].orelse and len(rest[0].body) == 1
            and isinstance(rest[0].body[0], ast.AugAssign) and isinstance(rest[0].body[0].op, ast.Add)):
        raise TranslationError("set_gene_attributes: unexpected statements after the skip test")
    aug = rest[0].body[0]
    if not (isinstance(aug.value, ast.BinOp) and isinstance(aug.value.op, ast.Mod) and isinstance(aug.value.left, ast.Constant)
            and isinstance(aug.value.right, ast.Tuple) and len(aug.value.right.elts) == 2
            and isinstance(aug.value.right.elts[0], ast.Name) and aug.value.right.elts[0].id == var
            and isinstance(aug.value.right.elts[1], ast.Subscript)
            and isinstance(aug.value.right.elts[1].slice, ast.Constant) and aug.value.right.elts[1].slice.value == 0):
        raise TranslationError("set_gene_attributes: the copied text is not FORMAT % (attr, attributes[attr][0])")
    return vals, aug.value.left.value


def gen_gene_attributes():
    """Gen/GeneAttributes.lean: which attributes of a reference gene / transcript are NOT copied to the output lines
    (`GeneInfo.set_gene_attributes`), the key words `Canonical` (IOSupport.add_canonical_info_for_model) and `exons`
    (GFFPrinter.dump)"""
    gi = parse("src/gene_info.py")
    fn = find_def(gi, "set_gene_attributes", cls="GeneInfo")
    outer = [n for n in fn.body if isinstance(n, ast.For)]
    if len(outer) != 1:
        raise TranslationError("set_gene_attributes: expected one loop over gene_db_list")
    loops = [n for n in outer[0].body if isinstance(n, ast.For)]
    if len(loops) != 2:
        raise TranslationError("set_gene_attributes: expected the gene attribute loop and the transcript loop")
    gene_skip, fmt_g = _skip_list_of(loops[0], "attr")
    tl_ = [n for n in loops[1].body if isinstance(n, ast.For)]
    if len(tl_) != 2 or loops[1].body != tl_:
        raise TranslationError("set_gene_attributes: the transcript loop must contain the attribute loop and the exon loop only")
    tr_skip, fmt_t = _skip_list_of(tl_[0], "attr")
    ex_loops = [n for n in tl_[1].body if isinstance(n, ast.For)]
    if len(ex_loops) != 1:
        raise TranslationError("set_gene_attributes: exon loop without an attribute loop")
    ex_skip, fmt_e = _skip_list_of(ex_loops[0], "attr")
    if not (fmt_g == fmt_t == fmt_e == '%s "%s"; '):
        raise TranslationError("set_gene_attributes: copied attribute format changed: %r %r %r" % (fmt_g, fmt_t, fmt_e))
    # key word of the canonical attribute
    aio = parse("src/assignment_io.py")
    f2 = find_def(aio, "add_canonical_info_for_model", cls="IOSupport")
    kw = [n.value.value for n in f2.body if isinstance(n, ast.Assign) and isinstance(n.targets[0], ast.Name)
          and n.targets[0].id == "key_word" and isinstance(n.value, ast.Constant)]
    if len(kw) != 1 or not isinstance(kw[0], str):
        raise TranslationError("add_canonical_info_for_model: key_word literal not found")
    # key word of the exon count attribute: model.check_additional("<k>") / add_additional_attribute("<k>", str(len(model.exon_blocks)))
    tp = parse("src/transcript_printer.py")
    f3 = find_def(tp, "dump", cls="GFFPrinter")
    ek = []
    for n in ast.walk(f3):
        if isinstance(n, ast.Call) and isinstance(n.func, ast.Attribute) and n.func.attr == "check_additional" \
                and len(n.args) == 1 and isinstance(n.args[0], ast.Constant):
            ek.append(n.args[0].value)
    if len(ek) != 1:
        raise TranslationError("GFFPrinter.dump: expected one check_additional(<literal>)")
    info = {"gene_skip": gene_skip, "transcript_skip": tr_skip, "exon_skip": ex_skip, "canonical_key": kw[0], "exons_key": ek[0]}
    ll = lambda xs: "[" + ", ".join(_lean_str(x) for x in xs) + "]"
    out = ["-- GENERATED by harness/translate.py -- do not edit", "namespace IsoVerif.Gen", "",
           "/-- `GeneInfo.set_gene_attributes`: attributes of a reference gene that are not copied to the gene line -/",
           "def GENE_ATTR_SKIP : List String := " + ll(gene_skip),
           "/-- ... of a reference transcript that are not copied to the transcript line -/",
           "def TRANSCRIPT_ATTR_SKIP : List String := " + ll(tr_skip),
           "/-- ... that are not recorded for the exon lines -/",
           "def EXON_ATTR_SKIP : List String := " + ll(ex_skip),
           "/-- `key_word` of `IOSupport.add_canonical_info_for_model` -/",
           "def CANONICAL_KEY : String := " + _lean_str(kw[0]),
           "/-- the attribute `GFFPrinter.dump` adds when the model does not carry it -/",
           "def EXONS_KEY : String := " + _lean_str(ek[0]),
           "\nend IsoVerif.Gen\n"]
    return "\n".join(out), info
def gen_annotation_types():
    """Gen/AnnotationTypes.lean (C12 / C03, audit2-C GAP-1): the three places that decide which record types of an annotation
    are TRANSCRIPT records must agree -
      * gtf2db.check_gtf_duplicates / check_gff3_duplicates: `feature_type in [<types>]` (records whose id is checked and
        counted as transcript records);
      * GeneInfo: `featuretype=(<types>)` of every `db.children(gene, ...)` call (the records read as isoforms);
      * gtf2db.gtf2db: the `id_spec` handed to gffutils.create_db (record type -> attribute that becomes the primary key);
        without one gffutils keys `gene` by gene_id and `transcript` by transcript_id only (every other type gets
        `<type>_<n>`, and the exons of such a record are children of no transcript)."""
    g2 = parse("src/gtf2db.py")

    def type_lists(fn):
        res = []
        for n in ast.walk(fn):
            if isinstance(n, ast.Compare) and len(n.ops) == 1 and isinstance(n.ops[0], ast.In) \
                    and isinstance(n.left, ast.Name) and n.left.id == "feature_type" \
                    and isinstance(n.comparators[0], (ast.List, ast.Tuple)):
                elts = n.comparators[0].elts
                if not all(isinstance(e, ast.Constant) and isinstance(e.value, str) for e in elts):
                    raise TranslationError("%s: `feature_type in [...]` with a non-literal element" % fn.name)
                vals = [e.value for e in elts]
                if "gene" not in vals:
                    res.append(vals)
        return res

    chk = type_lists(find_def(g2, "check_gtf_duplicates"))
    if len(chk) != 1:
        raise TranslationError("check_gtf_duplicates: expected one `feature_type in [<transcript types>]` test, found %d" % len(chk))
    chk3 = type_lists(find_def(g2, "check_gff3_duplicates"))
    if not chk3 or any(sorted(x) != sorted(chk3[0]) for x in chk3):
        raise TranslationError("check_gff3_duplicates: transcript type lists differ or are missing: %s" % chk3)
    # GeneInfo: featuretype=(...) keyword of children(...) calls that name more than one type or 'transcript'
    gi = parse("src/gene_info.py")
    tuples = []
    for n in ast.walk(gi):
        if isinstance(n, ast.Call) and isinstance(n.func, ast.Attribute) and n.func.attr == "children":
            for kw in n.keywords:
                if kw.arg == "featuretype" and isinstance(kw.value, (ast.Tuple, ast.List)):
                    vals = [e.value for e in kw.value.elts if isinstance(e, ast.Constant) and isinstance(e.value, str)]
                    if len(vals) != len(kw.value.elts):
                        raise TranslationError("gene_info.py: children(featuretype=...) with a non-literal element")
                    if "transcript" in vals or "mRNA" in vals:
                        tuples.append(vals)
    if not tuples or any(sorted(t) != sorted(tuples[0]) for t in tuples):
        raise TranslationError("gene_info.py: the transcript featuretype tuples of children() differ or are missing: %s" % tuples)
    # id_spec of gtf2db: a dict display assigned to `id_spec` (absent on a tree that uses the gffutils default)
    fn = find_def(g2, "gtf2db")
    spec = []
    has_kw = False
    for n in ast.walk(fn):
        if isinstance(n, ast.Assign) and len(n.targets) == 1 and isinstance(n.targets[0], ast.Name) and n.targets[0].id == "id_spec" \
                and isinstance(n.value, ast.Dict):
            for k, v in zip(n.value.keys, n.value.values):
                if not (isinstance(k, ast.Constant) and isinstance(k.value, str) and isinstance(v, ast.Constant) and isinstance(v.value, str)):
                    raise TranslationError("gtf2db: id_spec entry is not `'<type>': '<attribute>'`")
                spec.append((k.value, v.value))
        if isinstance(n, ast.Call) and isinstance(n.func, ast.Attribute) and n.func.attr == "create_db":
            has_kw = any(kw.arg == "id_spec" for kw in n.keywords)
    if spec and not has_kw:
        raise TranslationError("gtf2db: an id_spec dict is built but not handed to gffutils.create_db")
    info = {"check_gtf": chk[0], "check_gff3": chk3[0], "geneinfo": tuples[0], "geneinfo_sites": len(tuples), "id_spec": spec}
    ll = lambda xs: "[" + ", ".join(_lean_str(x) for x in xs) + "]"
    out = ["-- GENERATED by harness/translate.py -- do not edit", "namespace IsoVerif.Gen", "",
           "/-- gtf2db.check_gtf_duplicates: `feature_type in [...]` - the record types whose transcript id is checked and counted -/",
           "def CHECK_TRANSCRIPT_TYPES : List String := " + ll(chk[0]),
           "/-- gtf2db.check_gff3_duplicates: the same list of the GFF3 branch -/",
           "def CHECK_GFF3_TRANSCRIPT_TYPES : List String := " + ll(chk3[0]),
           "/-- gene_info.py: `featuretype=(...)` of every `db.children(gene, ...)` call that reads isoforms (%d call sites, all equal) -/" % len(tuples),
           "def GENEINFO_TRANSCRIPT_TYPES : List String := " + ll(tuples[0]),
           "/-- gtf2db.gtf2db: the `id_spec` dict given to gffutils.create_db for a GTF file ([] = none given: gffutils default) -/",
           "def DB_ID_SPEC : List (String × String) := [" + ", ".join("(%s, %s)" % (_lean_str(a), _lean_str(b)) for a, b in spec) + "]",
           "\nend IsoVerif.Gen\n"]
    return "\n".join(out), info


def gen_sample_names():
    """C10 (experiment names): the test that makes the description parsers give up renaming a duplicate experiment
    name.  Both `InputDataStorage.get_samples_from_yaml` and `get_samples_from_file` must contain exactly one

        if current_sample_name in experiment_names:
            new_sample_name = self.experiment_prefix + str(current_index)
            if <TEST>:
                logger.critical(...); exit(-1)
            logger.warning(...)
            current_sample_name = new_sample_name

    and <TEST> is rendered as "equal" (`current_sample_name == new_sample_name`: the generated name is compared with
    the duplicate only) or "taken" (`new_sample_name in experiment_names`, alone or or-ed with the equality: the
    generated name must be free).  Any other shape fails loudly."""
    rel = "src/input_data_storage.py"
    tree = parse(rel)
    rows = []
    for fname in ("get_samples_from_yaml", "get_samples_from_file"):
        fn = find_def(tree, fname, cls="InputDataStorage")
        hits = [n for n in ast.walk(fn) if isinstance(n, ast.If)
                and ast.unparse(n.test) == "current_sample_name in experiment_names"]
        if len(hits) != 1:
            raise TranslationError("%s: expected one `if current_sample_name in experiment_names:`, found %d" % (fname, len(hits)))
        body = hits[0].body
        if hits[0].orelse:
            raise TranslationError("%s: the duplicate-name test has an else branch" % fname)
        if not body or not (isinstance(body[0], ast.Assign) and ast.unparse(body[0]) ==
                            "new_sample_name = self.experiment_prefix + str(current_index)"):
            raise TranslationError("%s: the generated name is no longer `self.experiment_prefix + str(current_index)`" % fname)
        rest = body[1:]
        if not rest or not isinstance(rest[0], ast.If) or rest[0].orelse:
            raise TranslationError("%s: no `if <test>: exit` after the generated name" % fname)
        guard = rest[0]
        exits = [n for n in ast.walk(guard) if isinstance(n, ast.Call) and isinstance(n.func, ast.Name) and n.func.id == "exit"]
        others = [st for st in guard.body if not (isinstance(st, ast.Expr) and isinstance(st.value, ast.Call))]
        if len(exits) != 1 or others:
            raise TranslationError("%s: the guarded block is not `logger.critical(...); exit(...)`" % fname)
        tail = [st for st in rest[1:] if not (isinstance(st, ast.Expr) and isinstance(st.value, ast.Call)
                                             and ast.unparse(st.value.func).startswith("logger."))]
        if len(tail) != 1 or ast.unparse(tail[0]) != "current_sample_name = new_sample_name":
            raise TranslationError("%s: the renaming is no longer `current_sample_name = new_sample_name`" % fname)
        parts = [ast.unparse(v) for v in guard.test.values] if isinstance(guard.test, ast.BoolOp) and isinstance(guard.test.op, ast.Or) \
            else [ast.unparse(guard.test)]
        eq = {"current_sample_name == new_sample_name", "new_sample_name == current_sample_name"}
        taken = "new_sample_name in experiment_names"
        if all(x in eq for x in parts):
            kind = "equal"
        elif taken in parts and all(x in eq or x == taken for x in parts):
            kind = "taken"
        else:
            raise TranslationError("%s: unsupported test before exit: %s" % (fname, ast.unparse(guard.test)))
        # the name test must come before the name is used: `current_index += 1` follows the outer `if`
        rows.append((fname, kind))
    out = ["-- GENERATED by harness/translate.py -- do not edit", "namespace IsoVerif.Gen", "",
           "/-- per description parser: the test guarding `exit(-1)` once an experiment name is found in `experiment_names`",
           "    (\"equal\" = `current_sample_name == new_sample_name`, \"taken\" = `new_sample_name in experiment_names`) -/",
           "def rename_exit_test : List (String × String) := [" + ", ".join('("%s", "%s")' % r for r in rows) + "]",
           "", "end IsoVerif.Gen", ""]
    return "\n".join(out), {"rename_exit_test": dict(rows)}


def gen_sample_name_policy():
    """C10 (experiment name = folder name, audit-2 GAP C10-1; one BAM file per list line): four facts about
    src/input_data_storage.py, each rendered as one of two known shapes (anything else fails loudly).

    * yaml_name_value   how `get_samples_from_yaml` takes the value of the `name` key:
                        "str" = `current_sample_name = str(sample['name'])`, "raw" = `current_sample_name = sample['name']`
    * yaml_blank_name   the test that selects the positional name `<prefix><index>`:
                        "positional" = `sample.get('name') is None or sample['name'] == ''` (a blank / empty value is named by position),
                        "kept" = `not 'name' in sample.keys()` (only an absent key is)
    * folder_check      "all_samples" = the loop of `InputDataStorage.__init__` that builds the SampleData objects starts with
                        `check_experiment_name(experiment_names[i])` and the module-level function is exactly
                            if name in ('', '.', '..') or os.path.basename(name) != name: logger.critical(...); exit(-1)
                        "absent" = neither the call nor the function exists
    * bam_line_files    "one" = the branch of `get_samples_from_file` that reads a file line has, right after
                        `files = vals[0].split()`, `if self.input_type == 'bam' and len(files) > 1: logger.critical(...); exit(...)`;
                        "any" = no statement between `files = …` and `if len(vals) > 1:`"""
    rel = "src/input_data_storage.py"
    tree = parse(rel)
    rows = []

    def only_log_and_exit(body, what):
        exits = [st for st in body if isinstance(st, ast.Expr) and isinstance(st.value, ast.Call)
                 and isinstance(st.value.func, ast.Name) and st.value.func.id == "exit"]
        logs = [st for st in body if isinstance(st, ast.Expr) and isinstance(st.value, ast.Call)
                and ast.unparse(st.value.func).startswith("logger.")]
        if len(exits) != 1 or len(exits) + len(logs) != len(body) or body[-1] is not exits[0]:
            raise TranslationError("%s: the guarded block is not `logger.…(...); exit(...)`" % what)

    # --- YAML: value and blank test
    fn = find_def(tree, "get_samples_from_yaml", cls="InputDataStorage")
    loops = [n for n in fn.body if isinstance(n, ast.For) and ast.unparse(n.iter) == "con[1:]" and ast.unparse(n.target) == "sample"]
    if len(loops) != 1:
        raise TranslationError("get_samples_from_yaml: expected one `for sample in con[1:]`")
    first = loops[0].body[0]
    positional = "current_sample_name = self.experiment_prefix + str(current_index)"
    if not isinstance(first, ast.If) or len(first.body) != 1 or len(first.orelse) != 1 or ast.unparse(first.body[0]) != positional:
        raise TranslationError("get_samples_from_yaml: the loop no longer starts with `if <no name>: %s else: <name>`" % positional)
    test = ast.unparse(first.test)
    if test in ("not 'name' in sample.keys()", "'name' not in sample.keys()", "'name' not in sample"):
        rows.append(("yaml_blank_name", "kept"))
    elif test == "sample.get('name') is None or sample['name'] == ''":
        rows.append(("yaml_blank_name", "positional"))
    else:
        raise TranslationError("get_samples_from_yaml: unsupported test for the positional name: %s" % test)
    given = ast.unparse(first.orelse[0])
    if given == "current_sample_name = str(sample['name'])":
        rows.append(("yaml_name_value", "str"))
    elif given == "current_sample_name = sample['name']":
        rows.append(("yaml_name_value", "raw"))
    else:
        raise TranslationError("get_samples_from_yaml: unsupported use of the name value: %s" % given)
    others = [n for n in ast.walk(fn) if isinstance(n, ast.Assign) and ast.unparse(n.targets[0]) == "current_sample_name"
              and n is not first.body[0] and n is not first.orelse[0] and ast.unparse(n.value) != "new_sample_name"]
    if others:
        raise TranslationError("get_samples_from_yaml: further assignment to current_sample_name: %s" % ast.unparse(others[0]))

    # --- the folder check
    init = find_def(tree, "__init__", cls="InputDataStorage")
    build = [n for n in init.body if isinstance(n, ast.For) and ast.unparse(n.iter) == "range(len(sample_files))"]
    if len(build) != 1:
        raise TranslationError("InputDataStorage.__init__: expected one `for i in range(len(sample_files))`")
    calls = [n for n in ast.walk(tree) if isinstance(n, ast.Call) and isinstance(n.func, ast.Name) and n.func.id == "check_experiment_name"]
    defs = [n for n in tree.body if isinstance(n, ast.FunctionDef) and n.name == "check_experiment_name"]
    if not calls and not defs:
        rows.append(("folder_check", "absent"))
    else:
        b0 = build[0].body[0]
        if len(calls) != 1 or len(defs) != 1 or ast.unparse(b0) != "check_experiment_name(experiment_names[i])":
            raise TranslationError("InputDataStorage.__init__: check_experiment_name(experiment_names[i]) is not the first statement of "
                                   "the loop that builds the samples (calls: %d, definitions: %d)" % (len(calls), len(defs)))
        d = defs[0]
        if [a.arg for a in d.args.args] != ["name"] or len(d.body) != 1 or not isinstance(d.body[0], ast.If) or d.body[0].orelse:
            raise TranslationError("check_experiment_name: not a single `if` over `name`")
        t = ast.unparse(d.body[0].test)
        if t != "name in ('', '.', '..') or os.path.basename(name) != name":
            raise TranslationError("check_experiment_name: unsupported test: %s" % t)
        only_log_and_exit(d.body[0].body, "check_experiment_name")
        rows.append(("folder_check", "all_samples"))
    rest = [st for st in build[0].body if "SampleData(" in ast.unparse(st)]
    if len(rest) != 1 or "os.path.join(args.output, experiment_names[i])" not in ast.unparse(rest[0]):
        raise TranslationError("InputDataStorage.__init__: the output folder is no longer os.path.join(args.output, experiment_names[i])")

    # --- list files: files of one line
    fl = find_def(tree, "get_samples_from_file", cls="InputDataStorage")
    hits = []
    for n in ast.walk(fl):
        for blk in ("body", "orelse"):
            seq = getattr(n, blk, None)
            if isinstance(seq, list):
                for k, st in enumerate(seq):
                    if isinstance(st, ast.Assign) and ast.unparse(st) == "files = vals[0].split()":
                        hits.append((seq, k))
    if len(hits) != 1:
        raise TranslationError("get_samples_from_file: expected one `files = vals[0].split()`")
    seq, k = hits[0]
    nxt = seq[k + 1] if k + 1 < len(seq) else None
    if isinstance(nxt, ast.If) and ast.unparse(nxt.test) == "len(vals) > 1":
        rows.append(("bam_line_files", "any"))
    elif (isinstance(nxt, ast.If) and not nxt.orelse and ast.unparse(nxt.test) == "self.input_type == 'bam' and len(files) > 1"
          and k + 2 < len(seq) and isinstance(seq[k + 2], ast.If) and ast.unparse(seq[k + 2].test) == "len(vals) > 1"):
        only_log_and_exit(nxt.body, "get_samples_from_file: several BAM files in one line")
        rows.append(("bam_line_files", "one"))
    else:
        raise TranslationError("get_samples_from_file: unsupported statement after `files = vals[0].split()`: %s"
                               % (ast.unparse(nxt)[:120] if nxt is not None else None))
    rows.sort()
    out = ["-- GENERATED by harness/translate.py -- do not edit", "namespace IsoVerif.Gen", "",
           "/-- how src/input_data_storage.py turns the name a description gives into an experiment name and an output folder",
           "    (see gen_sample_name_policy) -/",
           "def name_policy : List (String × String) := [" + ", ".join('("%s", "%s")' % r for r in rows) + "]",
           "", "end IsoVerif.Gen", ""]
    return "\n".join(out), {"name_policy": dict(rows)}


# ---------------------------------------------------------------------------------------------------
# C19 / C16: LOOP functions of src/common.py translated from the source (Gen/Loops.lean + Gen/LoopsOps.lean)
# (added by the transl builder; add-only)
#
# Supported subset (anything else raises TranslationError -- never skipped):
#   statements  x = e | x += e | x -= e | l[i] = e | l.append(e) | if/elif/else | while | for x in <list> |
#               for i in range(..) | return e | break | continue | assert e | pass | docstring
#   expressions int / bool constants, names, t[0] / t[1] on pairs, l[i] (Python semantics: negative index wraps,
#               IndexError -> none), l[a:b], (a, b), [a, b, ..], [], l1 + l2, + - *, // (floor), unary -, not,
#               and / or (short circuit: a failing right operand is not evaluated), chained comparisons (short
#               circuit), min / max / abs / len, calls of the generated primitives and of earlier loop functions,
#               [c for _ in range(n)], float(a) / float(b) (exact fraction; ZeroDivisionError -> none),
#               math.inf (only in functions declared `inf`: an ARBITRARY integer parameter `inf_` of the Lean function,
#               so a theorem about it quantifies over the sentinel value),
#               CIGAR functions (declared `cigar`): CigarEvent(code) (ValueError -> none), CigarEvent.<member>, == / != of
#               events, `ev in CigarEvent.get_match_events()` / `get_ins_del_match_events()` (the generated tables of
#               Gen/CigarClasses.lean), None-able locals (`x = None`, `x is [not] None`, truth value of an int-or-None;
#               any other use of such a local while it is None is an error (`none`) -- Python would store the None)
# Translation scheme: continuation passing.  Code after a loop becomes `f.afterN`, the loop `f.loopN`:
#   for x in l / for i in range(a, b)  -> structural recursion on the list (`pyRange a b` for ranges): no fuel
#   while c                            -> recursion on `fuel_ : Nat`; the caller passes `f.fuelN params` (emitted);
#                                         running out of fuel is `none`, so an insufficient bound is a visible
#                                         disagreement in the self-check and breaks the refinement theorem
# A function is emitted with a plain result type when it contains no failing construct (no list indexing, no
# while, no assert, no division, no call of a partial function); otherwise its result is `Option T`, `none` = the
# Python function raises.
# ---------------------------------------------------------------------------------------------------
import collections
import re as _re

LTY = {"Int": "Int", "Bool": "Bool", "Iv": "Iv", "ListIv": "List Iv", "ListInt": "List Int", "Frac": "Int × Int",
       "ListIv3": "List Iv × List Iv × List Iv", "OptInt": "Option Int", "OptIv": "Option Iv", "CigarEvent": "CigarEvent"}
LOPT = {"OptInt": "Int", "OptIv": "Iv"}     # None-able locals: `x = None` / `x = <value>`
LELEM = {"ListIv": "Iv", "ListInt": "Int"}

LOOPS_CIGAR_PRELUDE = '''/-- `CigarEvent(c)`; `none` = ValueError -/
def pyCigarEvent (c : Int) : Option CigarEvent := if c < 0 then none else CigarEvent.ofValue? c.toNat

/-- truth value of an `int`-or-`None` variable (`None` and `0` are falsy) -/
def pyTruthyOptInt : Option Int → Bool
  | none => false
  | some v => v != 0
'''

LOOPS_PRELUDE = '''abbrev Frac := Int × Int

/-- `len(l)` -/
def pyLen {α} (l : List α) : Int := (l.length : Int)

/-- `l[i]` with Python's negative-index wrap; `none` = IndexError -/
def pyIdx {α} (l : List α) (i : Int) : Option α :=
  if 0 ≤ i then l[i.toNat]?
  else if -(l.length : Int) ≤ i then l[((l.length : Int) + i).toNat]?
  else none

/-- `l[i] = v`; `none` = IndexError -/
def pySet {α} (l : List α) (i : Int) (v : α) : Option (List α) :=
  if 0 ≤ i then (if i.toNat < l.length then some (l.set i.toNat v) else none)
  else if -(l.length : Int) ≤ i then some (l.set ((l.length : Int) + i).toNat v)
  else none

/-- `l[a:b]` (negative indices wrap, both ends clamped) -/
def pySlice {α} (l : List α) (a b : Int) : List α :=
  let n : Int := l.length
  let norm (i : Int) : Nat := (if i < 0 then max 0 (n + i) else min i n).toNat
  (l.drop (norm a)).take (norm b - norm a)

def pyRangeN (a : Int) : Nat → List Int
  | 0 => []
  | n + 1 => a :: pyRangeN (a + 1) n

/-- `range(a, b)` -/
def pyRange (a b : Int) : List Int := pyRangeN a (b - a).toNat

/-- `float(a) / float(b)` as the exact fraction (a, b); `none` = ZeroDivisionError -/
def pyDivF (a b : Int) : Option Frac := if b = 0 then none else some (a, b)

/-- `a // b` (floor division); `none` = ZeroDivisionError -/
def pyFloorDiv (a b : Int) : Option Int := if b = 0 then none else some (Int.fdiv a b)
'''


class NeedPartial(Exception):
    pass


class LEnv:
    def __init__(self, vars=None, avail=None):
        self.vars = collections.OrderedDict(vars or {})
        self.avail = dict(avail or {})

    def copy(self):
        return LEnv(self.vars, self.avail)

    def fresh_scope(self):
        return LEnv(self.vars, {})

    def assign(self, name, ty):
        old = self.vars.get(name)
        if old is not None and old != ty:
            raise TranslationError("variable %s changes type %s -> %s" % (name, old, ty))
        self.vars[name] = ty
        pat = _re.compile(r"(?<![A-Za-z0-9_.])%s(?![A-Za-z0-9_])" % _re.escape(name))
        for k in [k for k in self.avail if pat.search(k)]:
            del self.avail[k]


def _ind(lines, n=1):
    return [("  " * n) + l for l in lines]


def _has_loop(stmts):
    for s in stmts:
        for n in ast.walk(s):
            if isinstance(n, (ast.While, ast.For)):
                return True
    return False


class LoopFn:
    """translation of one Python function"""

    def __init__(self, name, fn, sig, partial, known):
        self.name = name
        self.fn = fn
        self.sig = sig
        self.partial = partial
        self.known = known            # name -> (param types, ret type, partial?) of callable generated functions
        self.params = ([("inf_", "Int")] if sig.get("inf") else []) + list(sig["params"])
        self.uses_inf = False
        self.ret_ty = sig["ret"]
        self.hints = sig.get("locals", {})
        self.defs = []
        self.nloop = 0
        self.ntmp = 0
        self.fuels = []

    # -- helpers
    def need_partial(self, why):
        if not self.partial:
            raise NeedPartial(why)

    def R(self):
        t = LTY[self.ret_ty]
        return ("Option (%s)" % t if " " in t else "Option %s" % t) if self.partial else t

    def ret(self, txt):
        return "some %s" % txt if self.partial else txt

    def tmp(self, stem="t"):
        self.ntmp += 1
        return "%s%d_" % (stem, self.ntmp)

    def param_names(self):
        return " ".join(lean_ident(p) for p, _ in self.params)

    def param_binders(self):
        return " ".join("(%s : %s)" % (lean_ident(p), LTY[t]) for p, t in self.params)

    def wrap(self, binds, lines):
        for tmpn, opt in reversed(binds):
            lines = ["match %s with" % opt, "| none => none", "| some %s =>" % tmpn] + _ind(lines)
        return lines

    def wrap_inline(self, binds, txt):
        """Option-valued one-line expression: binds then `some txt`"""
        res = "some %s" % txt
        for tmpn, opt in reversed(binds):
            res = "(match %s with | none => none | some %s => %s)" % (opt, tmpn, res)
        return res

    def bind(self, opt, env, binds, stem="t", cache=True):
        self.need_partial(opt)
        if cache and opt in env.avail:
            return env.avail[opt]
        t = self.tmp(stem)
        binds.append((t, opt))
        if cache:
            env.avail[opt] = t
        return t

    # -- expressions
    def ex(self, e, env, binds):
        if isinstance(e, ast.Constant) and e.value is None:
            return ("none", "None")
        if isinstance(e, ast.Attribute) and isinstance(e.value, ast.Name) and e.value.id == "CigarEvent":
            if e.attr not in self.sig.get("cigar_members", ()):
                raise TranslationError("%s: unknown CigarEvent member %s" % (self.name, e.attr))
            return ("CigarEvent.%s" % lean_ident(e.attr), "CigarEvent")
        if isinstance(e, ast.Constant):
            if isinstance(e.value, bool):
                return ("true" if e.value else "false", "Bool")
            if isinstance(e.value, int):
                return ("%d" % e.value if e.value >= 0 else "(-%d)" % -e.value, "Int")
            raise TranslationError("%s: unsupported constant %r" % (self.name, e.value))
        if isinstance(e, ast.Name):
            if e.id in env.vars and env.vars[e.id] in LOPT:
                # a None-able variable used as a value: `None` here is outside the subset and becomes an error (`none`);
                # the refinement theorem shows it cannot happen
                return (self.bind(lean_ident(e.id), env, binds), LOPT[env.vars[e.id]])
            if e.id in env.vars:
                return (lean_ident(e.id), env.vars[e.id])
            for p, t in self.params:
                if p == e.id:
                    return (lean_ident(p), t)
            raise TranslationError("%s: unknown name %s (line %d)" % (self.name, e.id, e.lineno))
        if isinstance(e, ast.Attribute) and isinstance(e.value, ast.Name) and e.value.id == "math" and e.attr == "inf":
            if not self.sig.get("inf"):
                raise TranslationError("%s: math.inf in a function not declared with an `inf` parameter" % self.name)
            self.uses_inf = True
            return ("inf_", "Int")
        if isinstance(e, ast.Subscript):
            base, bt = self.ex(e.value, env, binds)
            if isinstance(e.slice, ast.Slice):
                if bt not in LELEM or e.slice.step is not None:
                    raise TranslationError("%s: unsupported slice" % self.name)
                lo = self.ex(e.slice.lower, env, binds) if e.slice.lower is not None else ("0", "Int")
                hi = self.ex(e.slice.upper, env, binds) if e.slice.upper is not None else ("(pyLen %s)" % base, "Int")
                if lo[1] != "Int" or hi[1] != "Int":
                    raise TranslationError("%s: slice bounds must be ints" % self.name)
                return ("(pySlice %s %s %s)" % (base, lo[0], hi[0]), bt)
            if bt in ("Iv", "Frac"):
                if isinstance(e.slice, ast.Constant) and e.slice.value in (0, 1):
                    return ("%s.%d" % (base, e.slice.value + 1), "Int")
                raise TranslationError("%s: pair subscript must be the constant 0 or 1" % self.name)
            if bt in LELEM:
                idx, it = self.ex(e.slice, env, binds)
                if it != "Int":
                    raise TranslationError("%s: list index must be an int" % self.name)
                t = self.bind("pyIdx %s %s" % (base, idx), env, binds)
                return (t, LELEM[bt])
            raise TranslationError("%s: subscript on %s" % (self.name, bt))
        if isinstance(e, ast.Tuple):
            parts = [self.ex(x, env, binds) for x in e.elts]
            tys = [t for _, t in parts]
            if tys == ["Int", "Int"]:
                return ("(%s, %s)" % (parts[0][0], parts[1][0]), "Iv")
            if tys == ["ListIv", "ListIv", "ListIv"]:
                return ("(%s, %s, %s)" % tuple(p for p, _ in parts), "ListIv3")
            raise TranslationError("%s: unsupported tuple of %s" % (self.name, tys))
        if isinstance(e, ast.List):
            if not e.elts:
                return ("[]", "EmptyList")
            parts = [self.ex(x, env, binds) for x in e.elts]
            tys = set(t for _, t in parts)
            if tys == {"Iv"}:
                return ("[%s]" % ", ".join(p for p, _ in parts), "ListIv")
            if tys == {"Int"}:
                return ("[%s]" % ", ".join(p for p, _ in parts), "ListInt")
            raise TranslationError("%s: unsupported list literal of %s" % (self.name, sorted(tys)))
        if isinstance(e, ast.ListComp):
            if len(e.generators) != 1 or e.generators[0].ifs or not isinstance(e.generators[0].target, ast.Name):
                raise TranslationError("%s: unsupported comprehension" % self.name)
            g = e.generators[0]
            var = g.target.id
            if any(isinstance(n, ast.Name) and n.id == var for n in ast.walk(e.elt)):
                raise TranslationError("%s: comprehension element depends on the loop variable" % self.name)
            it = g.iter
            if not (isinstance(it, ast.Call) and isinstance(it.func, ast.Name) and it.func.id == "range" and len(it.args) == 1):
                raise TranslationError("%s: comprehension must range over range(n)" % self.name)
            n, nt = self.ex(it.args[0], env, binds)
            v, vt = self.ex(e.elt, env, binds)
            if nt != "Int" or vt not in ("Int", "Iv"):
                raise TranslationError("%s: unsupported comprehension types" % self.name)
            return ("(List.replicate (%s).toNat %s)" % (n, v), "ListInt" if vt == "Int" else "ListIv")
        if isinstance(e, ast.UnaryOp):
            if isinstance(e.op, ast.Not):
                return ("(!%s)" % self.cond(e.operand, env, binds), "Bool")
            a, ta = self.ex(e.operand, env, binds)
            if isinstance(e.op, ast.USub) and ta == "Int":
                return ("(-%s)" % a, "Int")
            raise TranslationError("%s: unsupported unary op" % self.name)
        if isinstance(e, ast.BinOp):
            if isinstance(e.op, ast.Div):
                l, r = e.left, e.right
                def is_float(x):
                    return isinstance(x, ast.Call) and isinstance(x.func, ast.Name) and x.func.id == "float" and len(x.args) == 1
                if is_float(l) and is_float(r):
                    a, ta = self.ex(l.args[0], env, binds)
                    b, tb = self.ex(r.args[0], env, binds)
                    if ta == "Int" and tb == "Int":
                        t = self.bind("pyDivF %s %s" % (a, b), env, binds)
                        return (t, "Frac")
                raise TranslationError("%s: `/` is supported only as float(int) / float(int)" % self.name)
            a, ta = self.ex(e.left, env, binds)
            b, tb = self.ex(e.right, env, binds)
            if isinstance(e.op, ast.Add) and ta in LELEM and tb in (ta, "EmptyList"):
                return ("(%s ++ %s)" % (a, b), ta)
            if isinstance(e.op, ast.Add) and ta == "EmptyList" and tb in LELEM:
                return (b, tb)
            if ta != "Int" or tb != "Int":
                raise TranslationError("%s: arithmetic on %s, %s (line %d)" % (self.name, ta, tb, e.lineno))
            if isinstance(e.op, ast.FloorDiv):
                if isinstance(e.right, ast.Constant) and isinstance(e.right.value, int) and e.right.value > 0:
                    return ("(%s / %s)" % (a, b), "Int")      # positive literal divisor: Int `/` (ediv) = floor
                t = self.bind("pyFloorDiv %s %s" % (a, b), env, binds)
                return (t, "Int")
            for k, v in {ast.Add: "+", ast.Sub: "-", ast.Mult: "*"}.items():
                if isinstance(e.op, k):
                    return ("(%s %s %s)" % (a, v, b), "Int")
            raise TranslationError("%s: unsupported binary op %s" % (self.name, type(e.op).__name__))
        if isinstance(e, ast.BoolOp):
            is_and = isinstance(e.op, ast.And)
            parts = [("pure", self.cond(e.values[0], env, binds))]
            for v in e.values[1:]:
                parts.append(self.operand_sc(v, env))
            return (self.short_circuit(parts, is_and, env, binds), "Bool")
        if isinstance(e, ast.Compare):
            return (self.compare(e, env, binds), "Bool")
        if isinstance(e, ast.Call) and isinstance(e.func, ast.Name):
            fn = e.func.id
            if e.keywords:
                raise TranslationError("%s: keyword arguments in call of %s" % (self.name, fn))
            args = [self.ex(a, env, binds) for a in e.args]
            tys = [t for _, t in args]
            if fn in ("max", "min") and tys == ["Int", "Int"]:
                return ("(%s %s %s)" % (fn, args[0][0], args[1][0]), "Int")
            if fn == "abs" and tys == ["Int"]:
                return ("(iabs %s)" % args[0][0], "Int")
            if fn == "CigarEvent" and tys == ["Int"] and self.sig.get("cigar_members"):
                return (self.bind("pyCigarEvent %s" % args[0][0], env, binds), "CigarEvent")
            if fn == "len" and len(args) == 1 and tys[0] in LELEM:
                return ("(pyLen %s)" % args[0][0], "Int")
            if fn in PRIM_SIGS:
                ptys = [t for _, t in PRIM_SIGS[fn][0]]
                if tys != ptys:
                    raise TranslationError("%s: call %s%s, expected %s" % (self.name, fn, tys, ptys))
                return ("(%s %s)" % (fn, " ".join(a for a, _ in args)), PRIM_SIGS[fn][1])
            if fn in self.known:
                ptys, rty, part = self.known[fn]
                if ptys[:1] == ["Inf"]:
                    if not self.sig.get("inf"):
                        raise TranslationError("%s: calls %s, which depends on math.inf" % (self.name, fn))
                    ptys, args = ptys[1:], [("inf_", "Int")] + args
                    tys = tys
                    if tys != ptys:
                        raise TranslationError("%s: call %s%s, expected %s" % (self.name, fn, tys, ptys))
                elif tys != ptys:
                    raise TranslationError("%s: call %s%s, expected %s" % (self.name, fn, tys, ptys))
                call = "%s %s" % (fn, " ".join(a for a, _ in args))
                if part:
                    return (self.bind(call, env, binds), rty)
                return ("(%s)" % call, rty)
            raise TranslationError("%s: unsupported call %s (line %d)" % (self.name, fn, e.lineno))
        raise TranslationError("%s: unsupported expression %s" % (self.name, ast.dump(e)[:80]))

    def truth(self, txt, ty):
        if ty == "Bool":
            return txt
        raise TranslationError("%s: truth value of a %s" % (self.name, ty))

    def cond(self, e, env, binds):
        """an expression in a Boolean context (if / while / assert / and / or / not)"""
        if isinstance(e, ast.Name) and env.vars.get(e.id) == "OptInt":
            return "(pyTruthyOptInt %s)" % lean_ident(e.id)
        txt, t = self.ex(e, env, binds)
        return self.truth(txt, t)

    def operand_sc(self, v, env):
        """an operand that Python may skip: translated in its own scope"""
        lb = []
        sub = env.copy()
        txt = self.cond(v, sub, lb)
        if not lb:
            return ("pure", txt)
        return ("opt", self.wrap_inline(lb, txt))

    def short_circuit(self, parts, is_and, env, binds):
        if all(k == "pure" for k, _ in parts):
            return "(" + (" && " if is_and else " || ").join(p for _, p in parts) + ")"
        stop = "some false" if is_and else "some true"
        res = None
        for kind, txt in reversed(parts):
            if res is None:
                res = ("some %s" % txt) if kind == "pure" else txt
                continue
            go, halt = (res, stop) if is_and else (stop, res)
            if kind == "pure":
                res = "(if %s then %s else %s)" % (txt, go, halt)
            else:
                c = self.tmp("b")
                res = "(match %s with | none => none | some %s => if %s then %s else %s)" % (txt, c, c, go, halt)
        return self.bind(res, env, binds, stem="c", cache=False)

    CMP = {ast.Lt: "<", ast.LtE: "≤", ast.Gt: ">", ast.GtE: "≥", ast.Eq: "=", ast.NotEq: "≠"}

    def cmp1(self, op, a, b):
        (x, tx), (y, ty) = a, b
        for k, v in self.CMP.items():
            if isinstance(op, k):
                if tx == "Int" and ty == "Int":
                    return "decide (%s %s %s)" % (x, v, y)
                if tx == ty and tx in ("Iv", "ListIv", "ListInt", "Bool", "CigarEvent") and v in ("=", "≠"):
                    return "decide (%s %s %s)" % (x, v, y)
                raise TranslationError("%s: comparison %s of %s and %s" % (self.name, v, tx, ty))
        raise TranslationError("%s: unsupported comparison operator %s" % (self.name, type(op).__name__))

    EVENT_SETS = {"get_match_events": "in_cigar_match_events", "get_ins_del_match_events": "in_cigar_ins_del_match_events"}

    def compare(self, e, env, binds):
        if len(e.ops) == 1 and isinstance(e.ops[0], (ast.Is, ast.IsNot)):
            c = e.comparators[0]
            if isinstance(c, ast.Constant) and c.value is None and isinstance(e.left, ast.Name) \
                    and env.vars.get(e.left.id) in LOPT:
                return "%s.%s" % (lean_ident(e.left.id), "isNone" if isinstance(e.ops[0], ast.Is) else "isSome")
            raise TranslationError("%s: `is` is supported only as `<None-able local> is [not] None`" % self.name)
        if len(e.ops) == 1 and isinstance(e.ops[0], (ast.In, ast.NotIn)):
            c = e.comparators[0]
            if isinstance(c, ast.Call) and isinstance(c.func, ast.Attribute) and isinstance(c.func.value, ast.Name) \
                    and c.func.value.id == "CigarEvent" and c.func.attr in self.EVENT_SETS and not c.args \
                    and self.sig.get("cigar_members"):
                x, tx = self.ex(e.left, env, binds)
                if tx != "CigarEvent":
                    raise TranslationError("%s: membership of a %s in an event set" % (self.name, tx))
                txt = "%s.%s" % (x, self.EVENT_SETS[c.func.attr])
                return txt if isinstance(e.ops[0], ast.In) else "(!%s)" % txt
            raise TranslationError("%s: `in` is supported only for CigarEvent.get_*_events()" % self.name)
        left = self.ex(e.left, env, binds)
        mid = self.ex(e.comparators[0], env, binds)
        parts = [("pure", self.cmp1(e.ops[0], left, mid))]
        prev = mid
        for op, c in zip(e.ops[1:], e.comparators[1:]):
            lb = []
            sub = env.copy()
            cur = self.ex(c, sub, lb)
            txt = self.cmp1(op, prev, cur)
            if lb:
                parts.append(("opt", self.wrap_inline(lb, "(%s)" % txt)))
                if c is not e.comparators[-1]:
                    raise TranslationError("%s: failing operand in the middle of a comparison chain" % self.name)
            else:
                parts.append(("pure", txt))
            prev = cur
        if len(parts) == 1:
            return "(%s)" % parts[0][1]
        return self.short_circuit(parts, True, env, binds)

    # -- statements
    def call(self, fname, extra, state, env):
        args = [self.param_names()] + extra + [lean_ident(v) for v in state]
        return " ".join(a for a in args if a)

    def block(self, stmts, env, K):
        if not stmts:
            return K["fall"](env)
        s, rest = stmts[0], stmts[1:]
        nm = self.name
        if isinstance(s, ast.Expr) and isinstance(s.value, ast.Constant) and isinstance(s.value.value, str):
            return self.block(rest, env, K)
        if isinstance(s, ast.Pass):
            return self.block(rest, env, K)
        if isinstance(s, ast.Return):
            if s.value is None:
                raise TranslationError("%s: bare return" % nm)
            binds = []
            txt, t = self.ex(s.value, env, binds)
            if t == "EmptyList" and self.ret_ty in LELEM:
                t = self.ret_ty
            if t != self.ret_ty:
                raise TranslationError("%s: returns %s, expected %s (line %d)" % (nm, t, self.ret_ty, s.lineno))
            if binds and binds[-1][0] == txt:       # `return <failing expression>`: its Option value is the result
                return self.wrap(binds[:-1], [binds[-1][1]])
            return self.wrap(binds, [self.ret(txt)])
        if isinstance(s, ast.Break):
            if "brk" not in K:
                raise TranslationError("%s: break outside loop" % nm)
            return K["brk"](env)
        if isinstance(s, ast.Continue):
            if "cont" not in K:
                raise TranslationError("%s: continue outside loop" % nm)
            return K["cont"](env)
        if isinstance(s, ast.Assert):
            self.need_partial("assert")
            binds = []
            c = self.cond(s.test, env, binds)
            return self.wrap(binds, ["if %s then" % c] + _ind(self.block(rest, env, K)) + ["else", "  none"])
        if isinstance(s, (ast.Assign, ast.AugAssign)):
            if isinstance(s, ast.Assign):
                if len(s.targets) != 1:
                    raise TranslationError("%s: multiple assignment targets" % nm)
                target, value = s.targets[0], s.value
            else:
                if not isinstance(s.op, (ast.Add, ast.Sub)):
                    raise TranslationError("%s: unsupported augmented assignment" % nm)
                target = s.target
                load = ast.copy_location(ast.Name(id=target.id, ctx=ast.Load()), s) if isinstance(target, ast.Name) else None
                if load is None:
                    raise TranslationError("%s: augmented assignment to a non-name" % nm)
                value = ast.copy_location(ast.BinOp(left=load, op=s.op, right=s.value), s)
            binds = []
            if isinstance(target, ast.Name):
                name = target.id
                pty = [t for p, t in self.params if p == name]
                if pty and name not in env.vars:
                    env = env.copy()
                    env.vars[name] = pty[0]       # a re-assigned parameter becomes a local of the same type (shadowing)
                if "loopvars" in K and name in K["loopvars"]:
                    raise TranslationError("%s: assignment to the loop variable / iterated list %s" % (nm, name))
                txt, t = self.ex(value, env, binds)
                if t == "EmptyList":
                    t = self.hints.get(name) or env.vars.get(name)
                    if t is None:
                        raise TranslationError("%s: type of the empty list %s unknown (add a `locals` hint)" % (nm, name))
                    txt = "([] : %s)" % LTY[t]
                want = env.vars.get(name) or self.hints.get(name)
                if t == "None":
                    if want not in LOPT:
                        raise TranslationError("%s: `%s = None` needs a `locals` hint OptInt / OptIv" % (nm, name))
                    t, txt = want, "(none : %s)" % LTY[want]
                elif want in LOPT and t == LOPT[want]:
                    t, txt = want, "(some %s)" % txt
                env2 = env.copy()
                env2.assign(name, t)
                return self.wrap(binds, ["let %s := %s" % (lean_ident(name), txt)] + self.block(rest, env2, K))
            if isinstance(target, ast.Subscript) and isinstance(target.value, ast.Name) and not isinstance(target.slice, ast.Slice):
                name = target.value.id
                if name not in env.vars or env.vars[name] not in LELEM:
                    raise TranslationError("%s: item assignment to %s" % (nm, name))
                idx, it = self.ex(target.slice, env, binds)
                txt, t = self.ex(value, env, binds)
                if it != "Int" or t != LELEM[env.vars[name]]:
                    raise TranslationError("%s: item assignment types" % nm)
                tmpn = self.bind("pySet %s %s %s" % (lean_ident(name), idx, txt), env, binds, stem="s", cache=False)
                env2 = env.copy()
                env2.assign(name, env.vars[name])
                return self.wrap(binds, ["let %s := %s" % (lean_ident(name), tmpn)] + self.block(rest, env2, K))
            raise TranslationError("%s: unsupported assignment target (line %d)" % (nm, s.lineno))
        if isinstance(s, ast.Expr) and isinstance(s.value, ast.Call) and isinstance(s.value.func, ast.Attribute) \
                and s.value.func.attr == "append" and isinstance(s.value.func.value, ast.Name) and len(s.value.args) == 1:
            name = s.value.func.value.id
            if name not in env.vars or env.vars[name] not in LELEM:
                raise TranslationError("%s: append to %s" % (nm, name))
            binds = []
            txt, t = self.ex(s.value.args[0], env, binds)
            if t != LELEM[env.vars[name]]:
                raise TranslationError("%s: append of %s to %s" % (nm, t, env.vars[name]))
            env2 = env.copy()
            env2.assign(name, env.vars[name])
            return self.wrap(binds, ["let %s := %s ++ [%s]" % (lean_ident(name), lean_ident(name), txt)] + self.block(rest, env2, K))
        if isinstance(s, ast.If):
            binds = []
            c = self.cond(s.test, env, binds)
            K2 = dict(K)
            if rest and _has_loop(rest):
                K2["fall"] = self.make_after(rest, env, K)
            elif rest:
                K2["fall"] = lambda env2: self.block(rest, env2, K)
            then = self.block(s.body, env.copy(), K2)
            els = self.block(s.orelse, env.copy(), K2)
            return self.wrap(binds, ["if %s then" % c] + _ind(then) + ["else"] + _ind(els))
        if isinstance(s, (ast.While, ast.For)):
            if s.orelse:
                raise TranslationError("%s: loop with an else clause" % nm)
            if "cont" in K:
                raise TranslationError("%s: nested loops are outside the subset (line %d)" % (nm, s.lineno))
            return self.loop(s, rest, env, K)
        raise TranslationError("%s: unsupported statement %s (line %d)" % (nm, type(s).__name__, s.lineno))

    def state_binders(self, state, env):
        return " ".join("(%s : %s)" % (lean_ident(v), LTY[env.vars[v]]) for v in state)

    def make_after(self, rest, env, K, n=None):
        """code after a loop (or after an `if` that is followed by a loop) as its own definition"""
        if n is None:
            self.nloop += 1
            n = self.nloop
        aname = "%s.after%d" % (self.name, n)
        state = list(env.vars)
        body = self.block(rest, env.fresh_scope(), K)
        hdr = "def %s %s : %s :=" % (aname, " ".join(x for x in [self.param_binders(), self.state_binders(state, env)] if x), self.R())
        self.defs.append("\n".join([hdr] + _ind(body)))
        return lambda env2: ["%s %s" % (aname, self.call(aname, [], state, env2))]

    def loop(self, s, rest, env, K):
        nm = self.name
        self.nloop += 1
        n = self.nloop            # the loop shares the number of its continuation
        after = self.make_after(rest, env, K, n)
        lname = "%s.loop%d" % (nm, n)
        state = list(env.vars)
        inner = env.fresh_scope()
        if isinstance(s, ast.While):
            self.need_partial("while")
            fuel = self.fuel_for(s, n)
            rec = lambda env2: ["%s %s" % (lname, self.call(lname, ["fuel_"], state, env2))]
            KL = {"fall": rec, "cont": rec, "brk": after}
            binds = []
            c = self.cond(s.test, inner, binds)
            body = self.block(s.body, inner.copy(), KL)
            core = self.wrap(binds, ["if %s then" % c] + _ind(body) + ["else"] + _ind(after(inner)))
            hdr = "def %s %s (fuel_ : Nat) %s : %s :=" % (lname, self.param_binders(), self.state_binders(state, env), self.R())
            lines = [hdr, "  match fuel_ with", "  | 0 => none", "  | fuel_ + 1 =>"] + _ind(core, 2)
            self.defs.append("\n".join(lines))
            return ["%s %s" % (lname, self.call(lname, ["(%s %s)" % (fuel, self.param_names())], state, env))]
        # for
        if not isinstance(s.target, ast.Name):
            raise TranslationError("%s: for-loop target must be a name" % nm)
        var = s.target.id
        if var in env.vars or any(p == var for p, _ in self.params):
            raise TranslationError("%s: loop variable %s shadows a variable" % (nm, var))
        binds = []
        it = s.iter
        loopvars = {var}
        if isinstance(it, ast.Call) and isinstance(it.func, ast.Name) and it.func.id == "range" and 1 <= len(it.args) <= 2:
            args = [self.ex(a, env, binds) for a in it.args]
            if any(t != "Int" for _, t in args):
                raise TranslationError("%s: range bounds must be ints" % nm)
            lo, hi = ("0", args[0][0]) if len(args) == 1 else (args[0][0], args[1][0])
            it_txt, et = "(pyRange %s %s)" % (lo, hi), "Int"
        else:
            it_txt, ity = self.ex(it, env, binds)
            if ity not in LELEM:
                raise TranslationError("%s: iteration over %s" % (nm, ity))
            et = LELEM[ity]
            if isinstance(it, ast.Name):
                loopvars.add(it.id)
        rec = lambda env2: ["%s %s" % (lname, self.call(lname, ["it_"], state, env2))]
        KL = {"fall": rec, "cont": rec, "brk": after, "loopvars": loopvars}
        benv = inner.copy()
        benv.vars[var] = et
        body = self.block(s.body, benv, KL)
        hdr = "def %s %s (it_ : List %s) %s : %s :=" % (lname, self.param_binders(), LTY[et], self.state_binders(state, env), self.R())
        lines = [hdr, "  match it_ with", "  | [] =>"] + _ind(after(inner), 2) + ["  | %s :: it_ =>" % lean_ident(var)] + _ind(body, 2)
        self.defs.append("\n".join(lines))
        return self.wrap(binds, ["%s %s" % (lname, self.call(lname, [it_txt], state, env))])

    def fuel_for(self, s, n):
        """bound on the number of evaluations of the loop head, as a function of the parameters"""
        fname = "%s.fuel%d" % (self.name, n)
        self.nwhile = getattr(self, "nwhile", 0) + 1
        override = self.sig.get("fuel", {}).get(self.nwhile)       # keyed by the ordinal of the while loop in the source
        lists = [p for p, t in self.params if t in LELEM]
        if override is not None:
            body, how = override, "given in LOOP_SIGS"
        else:
            used = []
            for x in ast.walk(s.test):
                if isinstance(x, ast.Call) and isinstance(x.func, ast.Name) and x.func.id == "len" and len(x.args) == 1 \
                        and isinstance(x.args[0], ast.Name) and x.args[0].id in lists and x.args[0].id not in used:
                    used.append(x.args[0].id)
            how = "lengths compared in the loop condition" if used else "no length in the loop condition: all list parameters"
            used = used or lists
            if not used:
                raise TranslationError("%s: cannot derive a bound for the while loop (line %d)" % (self.name, s.lineno))
            body = " + ".join("%s.length" % lean_ident(u) for u in used) + " + 1"
        self.defs.append("/-- fuel of `%s.loop%d` (%s) -/\ndef %s %s : Nat := %s" % (self.name, n, how, fname, self.param_binders(), body))
        self.fuels.append({"loop": n, "bound": body, "how": how})
        return fname

    def translate(self):
        argnames = (["inf_"] if self.sig.get("inf") else []) + [a.arg for a in self.fn.args.args]
        if argnames != [p for p, _ in self.params]:
            raise TranslationError("%s: parameters %s, expected %s" % (self.name, argnames, [p for p, _ in self.params]))
        if self.fn.args.defaults or self.fn.args.vararg or self.fn.args.kwarg or self.fn.args.kwonlyargs:
            raise TranslationError("%s: unsupported parameter kinds" % self.name)
        def no_return(env):
            raise TranslationError("%s: a path ends without return" % self.name)
        body = self.block(self.fn.body, LEnv(), {"fall": no_return})
        hdr = "def %s %s : %s :=" % (self.name, self.param_binders(), self.R())
        self.defs.append("\n".join([hdr] + _ind(body)))
        text = "\n\n".join(self.defs)
        if text.count("\n") > 600:
            raise TranslationError("%s: translation too large (%d lines): too many paths" % (self.name, text.count("\n")))
        return text


LOOP_SIGS = collections.OrderedDict([
    ("intervals_total_length", {"params": [("sorted_range_list", "ListIv")], "ret": "Int"}),
    ("sum_intervals_to_point", {"params": [("sorted_range_list", "ListIv"), ("pos", "Int")], "ret": "Int"}),
    ("sum_intervals_from_point", {"params": [("sorted_range_list", "ListIv"), ("pos", "Int")], "ret": "Int"}),
    ("junctions_from_blocks", {"params": [("sorted_blocks", "ListIv")], "ret": "ListIv", "locals": {"junctions": "ListIv"}}),
    ("read_coverage_fraction", {"params": [("read_range_list", "ListIv"), ("isoform_range_list", "ListIv")], "ret": "Frac"}),
    ("jaccard_similarity", {"params": [("sorted_range_list1", "ListIv"), ("sorted_range_list2", "ListIv")], "ret": "Frac"}),
    ("merge_ranges", {"params": [("sorted_range_list1", "ListIv"), ("sorted_range_list2", "ListIv")], "ret": "ListIv",
                      "locals": {"union": "ListIv"}}),
    ("extra_exon_percentage", {"params": [("isoform_region", "Iv"), ("read_exons", "ListIv")], "ret": "Frac"}),
    # `math.inf` (the two sentinels of get_exons) is translated as an ARBITRARY integer parameter `inf_`: the refinement
    # theorem quantifies over it, i.e. proves that the result does not depend on the sentinel values
    ("get_exons", {"params": [("read_region", "Iv"), ("read_introns", "ListIv")], "ret": "ListIv", "inf": True}),
    ("get_following_exon_from_junctions", {"params": [("region", "Iv"), ("introns", "ListIv"), ("intron_position", "Int")], "ret": "Iv"}),
    ("get_preceding_exon_from_junctions", {"params": [("region", "Iv"), ("introns", "ListIv"), ("intron_position", "Int")], "ret": "Iv"}),
    ("get_exon", {"params": [("read_region", "Iv"), ("read_junctions", "ListIv"), ("exon_position", "Int")], "ret": "Iv"}),
    ("interval_bin_search", {"params": [("ordered_intervals", "ListIv"), ("pos", "Int")], "ret": "Int",
                             "fuel": {1: "2 * ordered_intervals.length + 2"}}),
    ("interval_bin_search_rev", {"params": [("ordered_intervals", "ListIv"), ("pos", "Int")], "ret": "Int",
                                 "fuel": {1: "2 * ordered_intervals.length + 2"}}),
    ("truncate_read_to_polya", {"params": [("read_exons", "ListIv"), ("polya_pos", "Int"), ("polyt_pos", "Int")], "ret": "ListIv"}),
    # C16: the CIGAR walk (cigar tuples are (code, length) pairs; CigarEvent(code) raises on an unknown code)
    ("concat_gapless_blocks", {"params": [("blocks", "ListIv"), ("cigar_tuples", "ListIv")], "ret": "ListIv", "cigar": True,
                               "locals": {"resulting_blocks": "ListIv", "current_block": "OptIv"}}),
    ("get_read_blocks", {"params": [("ref_start", "Int"), ("cigar_tuples", "ListIv")], "ret": "ListIv3", "cigar": True,
                         "locals": {"ref_blocks": "ListIv", "cigar_blocks": "ListIv", "read_blocks": "ListIv",
                                    "current_ref_block_start": "OptInt", "current_read_block_start": "OptInt",
                                    "current_cigar_block_start": "OptInt"}}),
])


def translate_loop_function(tree, name, sig, known):
    fn = find_def(tree, name)
    try:
        text, part, fuels = None, False, []
        tr = LoopFn(name, fn, sig, False, known)
        text = tr.translate()
        fuels = tr.fuels
    except NeedPartial:
        tr = LoopFn(name, fn, sig, True, known)
        text = tr.translate()
        part, fuels = True, tr.fuels
    return text, part, fuels


_OPS_IN = {"Int": "jInt", "ListIv": "jIvList", "Iv": "jIv", "ListInt": "jList jInt"}
_OPS_OUT = {"Int": "ofInt", "ListIv": "ofIvList", "Iv": "ofIv", "ListInt": "ofIntList", "Bool": "ofBool", "Frac": "ofIv",
            "ListIv3": "(fun (r : List (Int × Int) × List (Int × Int) × List (Int × Int)) => Json.arr #[ofIvList r.1, ofIvList r.2.1, ofIvList r.2.2])"}


def gen_loops_rt():
    """run-time helpers of the translated loop functions (constant text; its own file so that the C19 and the C16
    translations do not depend on each other)"""
    out = ["-- GENERATED by harness/translate.py (run-time helpers of Gen/Loops.lean, Gen/LoopsCigar.lean) -- do not edit",
           "import IsoVerif.Gen.Prims", "namespace IsoVerif.Gen", "", LOOPS_PRELUDE, "end IsoVerif.Gen\n"]
    return "\n".join(out), {}


def gen_loops_all(group):
    """group 'c19': the interval functions -> Gen/Loops.lean, Gen/LoopsOps.lean;
       group 'c16': the CIGAR walkers -> Gen/LoopsCigar.lean, Gen/LoopsCigarOps.lean"""
    tree = parse("src/common.py")
    cig = group == "c16"
    mod = "LoopsCigar" if cig else "Loops"
    out = ["-- GENERATED by harness/translate.py from /repo/src/common.py -- do not edit",
           "import IsoVerif.Gen.LoopsRt"] + (["import IsoVerif.Gen.Enums", "import IsoVerif.Gen.CigarClasses"] if cig else []) + \
          ["set_option linter.unusedVariables false", "namespace IsoVerif.Gen", ""] + ([LOOPS_CIGAR_PRELUDE] if cig else [])
    cigar_members = [m for m, _ in enum_members(find_def(tree, "CigarEvent"))]
    for nm_ in ("get_match_events", "get_ins_del_match_events"):
        find_def(tree, nm_, "CigarEvent")       # the membership tables themselves are Gen/CigarClasses.lean
    ops = ["-- GENERATED by harness/translate.py (driver handlers of Gen/%s.lean) -- do not edit" % mod,
           "import IsoVerif.Driver.Core", "import IsoVerif.Gen.%s" % mod, "namespace IsoVerif.Driver.Gen%sOps" % mod,
           "open Lean IsoVerif.Driver IsoVerif.Gen", "", "def ops : List (String × Handler) := ["]
    known = {}
    info = {"functions": {}}
    rows = []
    for name, sig in LOOP_SIGS.items():
        if bool(sig.get("cigar")) != cig:
            continue
        if sig.get("cigar"):
            sig = dict(sig, cigar_members=cigar_members)
        text, part, fuels = translate_loop_function(tree, name, sig, known)
        known[name] = ((["Inf"] if sig.get("inf") else []) + [t for _, t in sig["params"]], sig["ret"], part)
        out.append("/-! ### `%s` (%s) -/\n" % (name, "Option: none = the Python function raises" if part else "total"))
        out.append(text + "\n")
        info["functions"][name] = {"partial": part, "params": sig["params"], "ret": sig["ret"], "fuel": fuels,
                                   "inf": bool(sig.get("inf"))}
        allp = ([("inf_", "Int")] if sig.get("inf") else []) + list(sig["params"])
        reads = "".join("    let %s ← arg j \"%s\" >>= %s\n" % (lean_ident(p), p, _OPS_IN[t]) for p, t in allp)
        callx = "%s %s" % (name, " ".join(lean_ident(p) for p, _ in allp))
        if part:
            res = "    pure (match %s with | none => jErr \"error\" | some r => %s r)" % (callx, _OPS_OUT[sig["ret"]])
        else:
            res = "    pure (%s (%s))" % (_OPS_OUT[sig["ret"]], callx)
        rows.append("  (\"%s\", fun j => do\n%s%s)" % (name, reads, res))
    out.append("end IsoVerif.Gen\n")
    ops.append(",\n".join(rows))
    ops.append("]\n\nend IsoVerif.Driver.Gen%sOps\n" % mod)
    return "\n".join(out), "\n".join(ops), info


_loops_cache = {}


def _loops_once(group):
    if group not in _loops_cache:
        try:
            _loops_cache[group] = gen_loops_all(group)
        except TranslationError as ex:
            _loops_cache[group] = ex
    if isinstance(_loops_cache[group], Exception):
        raise _loops_cache[group]
    return _loops_cache[group]


def gen_loops():
    text, _, info = _loops_once("c19")
    return text, info


def gen_loops_ops():
    _, ops, info = _loops_once("c19")
    return ops, {"ops": sorted(info["functions"])}


def gen_loops_cigar():
    text, _, info = _loops_once("c16")
    return text, info


def gen_loops_cigar_ops():
    _, ops, info = _loops_once("c16")
    return ops, {"ops": sorted(info["functions"])}


GENERATORS = [("Prims", gen_prims), ("Enums", gen_enums), ("EventClasses", gen_event_classes),
              ("Strategies", gen_strategies), ("Constants", gen_constants), ("SharedState", gen_shared_state),
              ("SetSites", gen_set_sites),            # C06
              ("Corrector", gen_corrector), ("Illumina", gen_illumina),   # C14
              ("CounterTables", gen_counter_tables), ("Weights", gen_weights),   # C02
              ("CombineTables", gen_combine_tables),   # C02 (combine_counts protocol)
              ("CacheProtocol", gen_cache_protocol),   # C20
              ("SampleState", gen_sample_state),       # C10
              ("SampleNames", gen_sample_names),       # C10 (experiment names)
              ("SampleNamePolicy", gen_sample_name_policy),   # C10 (experiment name = folder name; one BAM file per list line)
              ("ReadGroups", gen_read_groups),         # C09
              ("CigarClasses", gen_cigar_classes),    # C16
              ("Resolver", gen_resolver),             # C08
              ("ModelConstruction", gen_model_construction),   # C04
              ("LoopsRt", gen_loops_rt),                           # run-time helpers of the translated loop functions
              ("Loops", gen_loops), ("LoopsOps", gen_loops_ops),   # C19: loop functions of src/common.py translated from the source
              ("LoopsCigar", gen_loops_cigar), ("LoopsCigarOps", gen_loops_cigar_ops),   # C16: the CIGAR walkers, likewise
              ("ComparatorTables", gen_comparator_tables),     # C01 (compare_junctions)
              ("GtfFormat", gen_gtf_format),          # C03 (text of the GTF lines)
              ("PrinterTables", gen_printer_tables),           # C15 / C05 / C08 (read-level printers)
              ("GeneAttributes", gen_gene_attributes),         # C18 (attribute list of a printed transcript line)
              ("AnnotationTypes", gen_annotation_types),       # C12 (which record types are transcript records; id_spec)
              ]


def run(write=True):
    report = {"ok": True, "errors": {}, "changed": [], "info": {}}
    os.makedirs(GEN, exist_ok=True)
    for name, fn in GENERATORS:
        path = os.path.join(GEN, name + ".lean")
        try:
            text, info = fn()
        except TranslationError as ex:
            report["ok"] = False
            report["errors"][name] = str(ex)
            continue
        except SyntaxError as ex:
            report["ok"] = False
            report["errors"][name] = "syntax error in source: %s" % ex
            continue
        report["info"][name] = info
        old = None
        if os.path.exists(path):
            with open(path) as f:
                old = f.read()
        if old != text:
            report["changed"].append(name)
            if write:
                with open(path, "w") as f:
                    f.write(text)
    if write:
        with open(os.path.join(GEN, "gen_info.json"), "w") as f:
            json.dump(report, f, indent=1, sort_keys=True, default=str)
    return report


if __name__ == "__main__":
    rep = run()
    if "--json" in sys.argv:
        print(json.dumps(rep, indent=1, default=str))
    else:
        print("translate: ok=%s changed=%s errors=%s" % (rep["ok"], rep["changed"], rep["errors"]))
    sys.exit(0 if rep["ok"] else 3)
