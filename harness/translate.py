#!/venv/bin/python
"""Translator /repo -> lean/IsoVerif/Gen/*.lean.

Re-run on every check.  Parses the *current* /repo sources with `ast` and writes Lean definitions:
  Gen/Prims.lean        direct translation of the straight-line interval primitives of src/common.py
  Gen/Enums.lean        enum classes (members, values, names)
  Gen/EventClasses.lean membership lists of the is_* classifiers / nic / nnic / cost tables
  Gen/Strategies.lean   CountingStrategy flags, matching / correction / construction presets
  Gen/Constants.lean    numeric / string constants used by the models
  Gen/SharedState.lean  inventory of class-level / module-level mutable state

A construct outside the supported subset raises TranslationError (a broken tie, handled by vcheck).
Files are rewritten only when their content changes (so lake does not rebuild needlessly).
Exit status: 0 ok, 3 translation error (message on stderr, JSON report on stdout with --json).
"""
import ast
import json
import os
import sys

REPO = os.environ.get("VERIF_REPO", "/repo")
HERE = os.path.dirname(os.path.abspath(__file__))
GEN = os.path.join(os.path.dirname(HERE), "lean", "IsoVerif", "Gen")


class TranslationError(Exception):
    pass


def parse(rel):
    path = os.path.join(REPO, rel)
    with open(path) as f:
        import warnings
        with warnings.catch_warnings():
            warnings.simplefilter("ignore")
            return ast.parse(f.read(), filename=path)


def find_def(tree, name, cls=None):
    body = tree.body
    if cls is not None:
        for n in body:
            if isinstance(n, ast.ClassDef) and n.name == cls:
                body = n.body
                break
        else:
            raise TranslationError("class %s not found" % cls)
    for n in body:
        if isinstance(n, (ast.FunctionDef, ast.ClassDef)) and n.name == name:
            return n
    raise TranslationError("definition %s%s not found" % ((cls + ".") if cls else "", name))


def find_assign(tree_or_body, name):
    body = tree_or_body.body if hasattr(tree_or_body, "body") else tree_or_body
    for n in body:
        if isinstance(n, ast.Assign) and len(n.targets) == 1 and isinstance(n.targets[0], ast.Name) \
                and n.targets[0].id == name:
            return n.value
    raise TranslationError("assignment %s not found" % name)


# ----------------------------------------------------------------------------------------------
# expression translator for the primitive subset
# types: 'Int', 'Bool', 'Iv'

class ExprTr:
    def __init__(self, env):
        self.env = dict(env)   # name -> type

    def ty(self, e):
        return self.tr(e)[1]

    def tr(self, e):
        """returns (lean_text, type)"""
        if isinstance(e, ast.Constant):
            if isinstance(e.value, bool):
                return ("true" if e.value else "false", "Bool")
            if isinstance(e.value, int):
                return ("(%d : Int)" % e.value if e.value >= 0 else "(-%d : Int)" % -e.value, "Int")
            raise TranslationError("unsupported constant %r" % (e.value,))
        if isinstance(e, ast.Name):
            if e.id not in self.env:
                raise TranslationError("unknown name %s" % e.id)
            return (e.id, self.env[e.id])
        if isinstance(e, ast.Subscript):
            base, bt = self.tr(e.value)
            if bt != "Iv":
                raise TranslationError("subscript on non-interval")
            idx = e.slice
            if isinstance(idx, ast.Constant) and idx.value in (0, 1):
                return ("%s.%d" % (base, idx.value + 1), "Int")
            raise TranslationError("unsupported subscript")
        if isinstance(e, ast.Tuple) and len(e.elts) == 2:
            a, ta = self.tr(e.elts[0])
            b, tb = self.tr(e.elts[1])
            if ta != "Int" or tb != "Int":
                raise TranslationError("tuple of non-ints")
            return ("(%s, %s)" % (a, b), "Iv")
        if isinstance(e, ast.UnaryOp):
            a, ta = self.tr(e.operand)
            if isinstance(e.op, ast.Not):
                if ta != "Bool":
                    raise TranslationError("not on non-bool")
                return ("(!%s)" % a, "Bool")
            if isinstance(e.op, ast.USub) and ta == "Int":
                return ("(-%s)" % a, "Int")
            raise TranslationError("unsupported unary op")
        if isinstance(e, ast.BinOp):
            a, ta = self.tr(e.left)
            b, tb = self.tr(e.right)
            if ta != "Int" or tb != "Int":
                raise TranslationError("arithmetic on non-ints")
            ops = {ast.Add: "+", ast.Sub: "-", ast.Mult: "*"}
            for k, v in ops.items():
                if isinstance(e.op, k):
                    return ("(%s %s %s)" % (a, v, b), "Int")
            raise TranslationError("unsupported binary op %s" % type(e.op).__name__)
        if isinstance(e, ast.BoolOp):
            parts = [self.tr(v) for v in e.values]
            if any(t != "Bool" for _, t in parts):
                raise TranslationError("bool op on non-bool")
            op = " && " if isinstance(e.op, ast.And) else " || "
            return ("(" + op.join(p for p, _ in parts) + ")", "Bool")
        if isinstance(e, ast.Compare):
            items = [self.tr(e.left)] + [self.tr(c) for c in e.comparators]
            if any(t != "Int" for _, t in items):
                raise TranslationError("comparison of non-ints")
            cm = {ast.Lt: "<", ast.LtE: "≤", ast.Gt: ">", ast.GtE: "≥", ast.Eq: "=", ast.NotEq: "≠"}
            parts = []
            for i, op in enumerate(e.ops):
                for k, v in cm.items():
                    if isinstance(op, k):
                        parts.append("decide (%s %s %s)" % (items[i][0], v, items[i + 1][0]))
                        break
                else:
                    raise TranslationError("unsupported comparison")
            return ("(" + " && ".join(parts) + ")", "Bool")
        if isinstance(e, ast.Call) and isinstance(e.func, ast.Name):
            fn = e.func.id
            args = [self.tr(a) for a in e.args]
            if fn in ("max", "min") and len(args) == 2 and all(t == "Int" for _, t in args):
                return ("(%s %s %s)" % (fn, args[0][0], args[1][0]), "Int")
            if fn == "abs" and len(args) == 1 and args[0][1] == "Int":
                return ("(iabs %s)" % args[0][0], "Int")
            if fn in PRIM_SIGS and not e.keywords:
                sig = PRIM_SIGS[fn]
                if len(args) != len(sig[0]):
                    raise TranslationError("arity mismatch calling %s" % fn)
                return ("(%s %s)" % (fn, " ".join(a for a, _ in args)), sig[1])
            raise TranslationError("unsupported call %s" % fn)
        raise TranslationError("unsupported expression %s" % ast.dump(e)[:80])


# name -> ([(param, type)], return type)
PRIM_SIGS = {
    "cmp": ([("x", "Int"), ("y", "Int")], "Int"),
    "overlaps": ([("range1", "Iv"), ("range2", "Iv")], "Bool"),
    "overlap_intervals": ([("range1", "Iv"), ("range2", "Iv")], "Iv"),
    "overlaps_at_least": ([("range1", "Iv"), ("range2", "Iv"), ("delta", "Int")], "Bool"),
    "overlaps_at_least_when_overlap": ([("range1", "Iv"), ("range2", "Iv"), ("delta", "Int")], "Bool"),
    "intersection_len": ([("range1", "Iv"), ("range2", "Iv")], "Int"),
    "left_of": ([("range1", "Iv"), ("range2", "Iv")], "Bool"),
    "equal_ranges": ([("range1", "Iv"), ("range2", "Iv"), ("delta", "Int")], "Bool"),
    "covers_end": ([("bigger_range", "Iv"), ("smaller_range", "Iv")], "Bool"),
    "covers_start": ([("bigger_range", "Iv"), ("smaller_range", "Iv")], "Bool"),
    "contains": ([("bigger_range", "Iv"), ("smaller_range", "Iv")], "Bool"),
    "contains_well_inside": ([("bigger_range", "Iv"), ("smaller_range", "Iv"), ("delta", "Int")], "Bool"),
    "contains_approx": ([("bigger_range", "Iv"), ("smaller_range", "Iv"), ("delta", "Int")], "Bool"),
    "max_range": ([("range1", "Iv"), ("range2", "Iv")], "Iv"),
    "interval_len": ([("interval", "Iv")], "Int"),
}
PRIM_ORDER = ["cmp", "overlaps", "overlap_intervals", "overlaps_at_least", "overlaps_at_least_when_overlap",
              "intersection_len", "left_of", "equal_ranges", "covers_end", "covers_start", "contains",
              "contains_well_inside", "contains_approx", "max_range", "interval_len"]


def tr_block(stmts, tr, ret_ty, indent):
    """statements ending in a return on every path -> Lean term"""
    pad = "  " * indent
    if not stmts:
        raise TranslationError("path without return")
    s = stmts[0]
    rest = stmts[1:]
    if isinstance(s, ast.Expr) and isinstance(s.value, ast.Constant) and isinstance(s.value.value, str):
        return tr_block(rest, tr, ret_ty, indent)   # docstring
    if isinstance(s, ast.Return):
        txt, t = tr.tr(s.value)
        if t != ret_ty:
            raise TranslationError("return type %s, expected %s" % (t, ret_ty))
        return pad + txt
    if isinstance(s, ast.Assign) and len(s.targets) == 1 and isinstance(s.targets[0], ast.Name):
        txt, t = tr.tr(s.value)
        name = s.targets[0].id
        tr2 = ExprTr(tr.env)
        tr2.env[name] = t
        return pad + "let %s := %s\n" % (name, txt) + tr_block(rest, tr2, ret_ty, indent)
    if isinstance(s, ast.If):
        c, ct = tr.tr(s.test)
        if ct != "Bool":
            raise TranslationError("non-bool condition")
        then = tr_block(s.body + ([] if _returns(s.body) else rest), tr, ret_ty, indent + 1)
        els_stmts = s.orelse if s.orelse else []
        els = tr_block(els_stmts + ([] if (els_stmts and _returns(els_stmts)) else rest), tr, ret_ty, indent + 1)
        return pad + "if %s then\n%s\n%selse\n%s" % (c, then, pad, els)
    raise TranslationError("unsupported statement %s" % type(s).__name__)


def _returns(stmts):
    if not stmts:
        return False
    last = stmts[-1]
    if isinstance(last, ast.Return):
        return True
    if isinstance(last, ast.If):
        return _returns(last.body) and bool(last.orelse) and _returns(last.orelse)
    return False


def gen_prims():
    tree = parse("src/common.py")
    out = ["-- GENERATED by harness/translate.py from /repo/src/common.py -- do not edit",
           "namespace IsoVerif.Gen", "",
           "abbrev Iv := Int × Int", "",
           "def iabs (x : Int) : Int := if x < 0 then -x else x", ""]
    defaults = {}
    for name in PRIM_ORDER:
        fn = find_def(tree, name)
        params, ret = PRIM_SIGS[name]
        argnames = [a.arg for a in fn.args.args]
        if argnames != [p for p, _ in params]:
            raise TranslationError("%s: parameters %s, expected %s" % (name, argnames, [p for p, _ in params]))
        # defaults (recorded for the harness; Lean side takes all arguments explicitly)
        ds = fn.args.defaults
        for a, d in zip(argnames[len(argnames) - len(ds):], ds):
            if not (isinstance(d, ast.Constant) and isinstance(d.value, int)):
                raise TranslationError("%s: unsupported default" % name)
            defaults["%s.%s" % (name, a)] = d.value
        tr = ExprTr(dict(params))
        body = tr_block(fn.body, tr, ret, 1)
        sig = " ".join("(%s : %s)" % (p, t) for p, t in params)
        out.append("def %s %s : %s :=\n%s\n" % (name, sig, ret, body))
    out.append("end IsoVerif.Gen\n")
    return "\n".join(out), {"prim_defaults": defaults}


# ----------------------------------------------------------------------------------------------
# enums and tables

def lean_ident(s):
    kw = {"none", "all", "match", "end", "at", "from", "with", "do", "then", "else", "if", "fun", "let", "in",
          "unique", "private", "open", "default"}
    return "«%s»" % s if s in kw else s


def enum_members(cls):
    mem = []
    for n in cls.body:
        if isinstance(n, ast.Assign) and len(n.targets) == 1 and isinstance(n.targets[0], ast.Name):
            v = n.value
            if isinstance(v, ast.Constant) and isinstance(v.value, int):
                mem.append((n.targets[0].id, v.value))
            else:
                raise TranslationError("enum %s: non-int member %s" % (cls.name, n.targets[0].id))
    if not mem:
        raise TranslationError("enum %s has no members" % cls.name)
    return mem


ENUMS = [("src/isoform_assignment.py", "ReadAssignmentType"),
         ("src/isoform_assignment.py", "MatchClassification"),
         ("src/isoform_assignment.py", "MatchEventSubtype"),
         ("src/long_read_counter.py", "CountingStrategy"),
         ("src/long_read_counter.py", "GroupedOutputFormat"),
         ("src/common.py", "CigarEvent"),
         ("src/alignment_processor.py", "AlignmentType"),
         ("src/gene_info.py", "TranscriptModelType"),
         ("src/polya_verification.py", "PolyACorrectionStrategy") if False else None,
         ]
ENUMS = [e for e in ENUMS if e]


def gen_enums():
    out = ["-- GENERATED by harness/translate.py -- do not edit", "namespace IsoVerif.Gen", ""]
    info = {}
    for rel, cname in ENUMS:
        cls = find_def(parse(rel), cname)
        mem = enum_members(cls)
        info[cname] = mem
        out.append("inductive %s where" % cname)
        for m, _ in mem:
            out.append("  | %s" % lean_ident(m))
        out.append("  deriving DecidableEq, Repr, Inhabited\n")
        out.append("namespace %s" % cname)
        out.append("def allMembers : List %s := [%s]" % (cname, ", ".join("." + lean_ident(m) for m, _ in mem)))
        if not any(m == "all" for m, _ in mem):
            out.append("def all : List %s := allMembers" % cname)
        out.append("def value : %s → Nat" % cname)
        for m, v in mem:
            out.append("  | .%s => %d" % (lean_ident(m), v))
        out.append("def name : %s → String" % cname)
        for m, _ in mem:
            out.append("  | .%s => \"%s\"" % (lean_ident(m), m))
        out.append("def ofValue? (n : Nat) : Option %s := allMembers.find? (fun x => x.value == n)" % cname)
        out.append("def ofName? (s : String) : Option %s := allMembers.find? (fun x => x.name == s)" % cname)
        out.append("end %s\n" % cname)
    out.append("end IsoVerif.Gen\n")
    return "\n".join(out), {"enums": info}


def attr_members(node, cname):
    """a set/list display of `cname.member` attributes -> [member]"""
    if isinstance(node, (ast.Set, ast.List, ast.Tuple)):
        res = []
        for e in node.elts:
            if isinstance(e, ast.Attribute) and isinstance(e.value, ast.Name) and e.value.id == cname:
                res.append(e.attr)
            else:
                raise TranslationError("unexpected element in %s table" % cname)
        return res
    raise TranslationError("expected a set/list display")


def method_return_members(tree, cls, meth, cname):
    fn = find_def(tree, meth, cls)
    rets = [n for n in ast.walk(fn) if isinstance(n, ast.Return)]
    if len(rets) != 1:
        raise TranslationError("%s.%s: expected one return" % (cls, meth))
    r = rets[0].value
    if not (isinstance(r, ast.Compare) and len(r.ops) == 1 and isinstance(r.ops[0], ast.In)):
        raise TranslationError("%s.%s: expected `x in {...}`" % (cls, meth))
    return attr_members(r.comparators[0], cname)


def lean_list(cname, members):
    return "[" + ", ".join("%s.%s" % (cname, lean_ident(m)) for m in members) + "]"


def gen_event_classes():
    tree = parse("src/isoform_assignment.py")
    out = ["-- GENERATED by harness/translate.py from /repo/src/isoform_assignment.py -- do not edit",
           "import IsoVerif.Gen.Enums", "namespace IsoVerif.Gen", ""]
    info = {}
    for meth in ["is_inconsistent", "is_consistent", "is_unassigned", "is_unique", "is_ambiguous"]:
        ms = method_return_members(tree, "ReadAssignmentType", meth, "ReadAssignmentType")
        info["rat_" + meth] = ms
        out.append("def rat_%s_list : List ReadAssignmentType := %s" % (meth, lean_list("ReadAssignmentType", ms)))
        out.append("def ReadAssignmentType.%s (t : ReadAssignmentType) : Bool := rat_%s_list.contains t\n" % (meth, meth))
    for meth in ["is_alignment_artifact", "is_minor_error", "is_consistent", "is_major_elongation",
                 "is_minor_elongation"]:
        ms = method_return_members(tree, "MatchEventSubtype", meth, "MatchEventSubtype")
        info["mes_" + meth] = ms
        out.append("def mes_%s_list : List MatchEventSubtype := %s" % (meth, lean_list("MatchEventSubtype", ms)))
        out.append("def MatchEventSubtype.%s (t : MatchEventSubtype) : Bool := mes_%s_list.contains t\n" % (meth, meth))
    for name in ["nnic_event_types", "nic_event_types", "nonintronic_events"]:
        ms = attr_members(find_assign(tree, name), "MatchEventSubtype")
        info[name] = ms
        out.append("def %s : List MatchEventSubtype := %s\n" % (name, lean_list("MatchEventSubtype", ms)))
    # all_major_events = nic.union(nnic); intronic_major_events = all_major.difference(nonintronic)
    ame = find_assign(tree, "all_major_events")
    ime = find_assign(tree, "intronic_major_events")
    if ast.unparse(ame) != "nic_event_types.union(nnic_event_types)" or \
            ast.unparse(ime) != "all_major_events.difference(nonintronic_events)":
        raise TranslationError("all_major_events / intronic_major_events defined differently")
    out.append("def all_major_events : List MatchEventSubtype := nic_event_types ++ nnic_event_types")
    out.append("def intronic_major_events : List MatchEventSubtype := "
               "all_major_events.filter (fun e => !nonintronic_events.contains e)")
    out.append("def MatchEventSubtype.is_major_inconsistency (t : MatchEventSubtype) : Bool := all_major_events.contains t")
    out.append("def MatchEventSubtype.is_intronic_inconsistency (t : MatchEventSubtype) : Bool := intronic_major_events.contains t\n")
    # event costs in hundredths
    cost = find_assign(tree, "event_subtype_cost")
    if not isinstance(cost, ast.Dict):
        raise TranslationError("event_subtype_cost is not a dict display")
    rows = []
    for k, v in zip(cost.keys, cost.values):
        if not (isinstance(k, ast.Attribute) and isinstance(v, ast.Constant)):
            raise TranslationError("event_subtype_cost: unexpected entry")
        h = round(float(v.value) * 100)
        if abs(h - float(v.value) * 100) > 1e-9:
            raise TranslationError("event cost not a multiple of 0.01")
        rows.append((k.attr, h))
    info["event_cost_hundredths"] = rows
    out.append("/-- cost in hundredths; `none` = KeyError in the code -/")
    out.append("def event_cost_table : List (MatchEventSubtype × Nat) := [" +
               ", ".join("(.%s, %d)" % (lean_ident(m), h) for m, h in rows) + "]")
    out.append("def event_cost_hundredths (t : MatchEventSubtype) : Option Nat := "
               "(event_cost_table.find? (fun p => p.1 == t)).map (·.2)\n")
    # SupplementaryMatchConstants
    smc = find_def(tree, "SupplementaryMatchConstants")
    consts = {}
    for n in smc.body:
        if isinstance(n, ast.Assign):
            nm = n.targets[0].id
            try:
                val = eval(compile(ast.Expression(n.value), "<smc>", "eval"), {}, dict(consts))
            except Exception as ex:
                raise TranslationError("SupplementaryMatchConstants.%s: %s" % (nm, ex))
            consts[nm] = val
    info["SupplementaryMatchConstants"] = {k: list(v) if isinstance(v, tuple) else v for k, v in consts.items()}
    for k, v in consts.items():
        if isinstance(v, int):
            out.append("def smc_%s : Nat := %d" % (k, v))
        else:
            out.append("def smc_%s : Nat × Nat := (%d, %d)" % (k, v[0], v[1]))
    out.append("\nend IsoVerif.Gen\n")
    return "\n".join(out), info


def namedtuple_table(fn, table_name="strategies"):
    """dict display name -> Call(args...) inside function fn; plus the namedtuple field names"""
    fields = None
    table = None
    for n in ast.walk(fn):
        if isinstance(n, ast.Assign) and isinstance(n.value, ast.Call) and \
                isinstance(n.value.func, ast.Name) and n.value.func.id == "namedtuple":
            fl = n.value.args[1]
            fields = [e.value for e in fl.elts]
        if isinstance(n, ast.Assign) and isinstance(n.targets[0], ast.Name) and n.targets[0].id == table_name \
                and isinstance(n.value, ast.Dict):
            table = n.value
    if fields is None or table is None:
        raise TranslationError("%s: preset table not found" % fn.name)
    rows = {}
    for k, v in zip(table.keys, table.values):
        if not (isinstance(k, ast.Constant) and isinstance(v, ast.Call)):
            raise TranslationError("%s: unexpected preset row" % fn.name)
        vals = []
        for a in v.args:
            vals.append(ast.unparse(a))
        if len(vals) != len(fields):
            raise TranslationError("%s: preset row arity" % fn.name)
        rows[k.value] = vals
    return fields, rows


def lean_val(txt):
    """python literal text -> lean literal; strings/enum-attrs become strings"""
    if txt in ("True", "False"):
        return txt.lower(), "Bool"
    try:
        i = int(txt)
        return str(i), "Int"
    except ValueError:
        pass
    try:
        f = float(txt)
        # as rational thousandths
        th = round(f * 1000)
        if abs(th - f * 1000) > 1e-9:
            raise TranslationError("float %s not a multiple of 0.001" % txt)
        return str(th), "Milli"
    except ValueError:
        pass
    if txt.startswith("'") or txt.startswith('"'):
        return '"%s"' % txt[1:-1], "String"
    return '"%s"' % txt, "String"


def gen_strategies():
    out = ["-- GENERATED by harness/translate.py -- do not edit",
           "import IsoVerif.Gen.Enums", "namespace IsoVerif.Gen", ""]
    info = {}
    tree = parse("src/long_read_counter.py")
    for meth in ["no_inconsistent", "ambiguous", "inconsistent_minor", "inconsistent"]:
        ms = method_return_members(tree, "CountingStrategy", meth, "CountingStrategy")
        info["cs_" + meth] = ms
        out.append("def cs_%s_list : List CountingStrategy := %s" % (meth, lean_list("CountingStrategy", ms)))
        out.append("def CountingStrategy.%s (s : CountingStrategy) : Bool := cs_%s_list.contains s\n" % (meth, meth))
    for meth in ["output_matrix", "output_linear"]:
        ms = method_return_members(tree, "GroupedOutputFormat", meth, "GroupedOutputFormat")
        info["gof_" + meth] = ms
        out.append("def GroupedOutputFormat.%s (s : GroupedOutputFormat) : Bool := (%s).contains s\n"
                   % (meth, lean_list("GroupedOutputFormat", ms)))
    # CountingStrategyFlags wiring
    csf = find_def(tree, "__init__", "CountingStrategyFlags")
    wiring = {}
    for n in csf.body:
        if isinstance(n, ast.Assign) and isinstance(n.targets[0], ast.Attribute):
            wiring[n.targets[0].attr] = ast.unparse(n.value)
    expect = {"use_ambiguous": "counting_strategy.ambiguous()",
              "use_inconsistent_minor": "counting_strategy.inconsistent_minor()",
              "use_inconsistent": "counting_strategy.inconsistent()"}
    if wiring != expect:
        raise TranslationError("CountingStrategyFlags wiring changed: %s" % wiring)
    info["CountingStrategyFlags"] = wiring
    iq = parse("isoquant.py")
    for fname, prefix in [("set_matching_options", "matching"), ("set_splice_correction_options", "correction"),
                          ("set_model_construction_options", "construction")]:
        fn = find_def(iq, fname)
        fields, rows = namedtuple_table(fn)
        info[prefix + "_fields"] = fields
        info[prefix + "_rows"] = rows
        # one structure per table
        typed = None
        for r in rows.values():
            tys = [lean_val(v)[1] for v in r]
            if typed is None:
                typed = tys
            else:
                typed = [a if a == b else ("Milli" if {a, b} == {"Int", "Milli"} else "String") for a, b in zip(typed, tys)]
        sname = prefix.capitalize() + "Preset"
        out.append("structure %s where" % sname)
        for f, t in zip(fields, typed):
            out.append("  %s : %s" % (lean_ident(f), {"Milli": "Int"}.get(t, t)))
        out.append("  deriving Repr, DecidableEq\n")
        out.append("def %s_presets : List (String × %s) := [" % (prefix, sname))
        lines = []
        for k, r in rows.items():
            vals = []
            for v, t in zip(r, typed):
                lv, lt = lean_val(v)
                if t == "Milli" and lt == "Int":
                    lv = str(int(lv) * 1000)
                if t == "String" and lt != "String":
                    lv = '"%s"' % v
                if lv.startswith("-"):
                    lv = "(%s)" % lv
                vals.append(lv)
            lines.append('  ("%s", ⟨%s⟩)' % (k, ", ".join(vals)))
        out.append(",\n".join(lines) + "]\n")
        info[prefix + "_types"] = typed
    out.append("end IsoVerif.Gen\n")
    return "\n".join(out), info


def module_int_consts(tree, names):
    res = {}
    env = {}
    for n in tree.body:
        if isinstance(n, ast.Assign) and len(n.targets) == 1 and isinstance(n.targets[0], ast.Name):
            nm = n.targets[0].id
            try:
                val = eval(compile(ast.Expression(n.value), "<const>", "eval"), {"__builtins__": {}}, dict(env))
            except Exception:
                continue
            env[nm] = val
            if nm in names:
                res[nm] = val
    missing = [n for n in names if n not in res]
    if missing:
        raise TranslationError("constants not found: %s" % missing)
    return res


def class_consts(tree, cname):
    cls = find_def(tree, cname)
    env = {}
    for n in cls.body:
        if isinstance(n, ast.Assign) and len(n.targets) == 1 and isinstance(n.targets[0], ast.Name):
            try:
                env[n.targets[0].id] = eval(compile(ast.Expression(n.value), "<const>", "eval"),
                                            {"__builtins__": {}}, dict(env))
            except Exception:
                pass
    return env


def gen_constants():
    out = ["-- GENERATED by harness/translate.py -- do not edit", "namespace IsoVerif.Gen", ""]
    info = {}
    ser = parse("src/serialization.py")
    ser_names = [n.targets[0].id for n in ser.body
                 if isinstance(n, ast.Assign) and isinstance(n.targets[0], ast.Name) and n.targets[0].id.isupper()]
    sc = module_int_consts(ser, ser_names)
    info["serialization"] = {k: (v if not isinstance(v, float) else v) for k, v in sc.items()}
    for k, v in sc.items():
        if isinstance(v, bool) or not isinstance(v, (int, str)):
            if isinstance(v, float) and v == int(v):
                out.append("def ser_%s : Nat := %d" % (k, int(v)))
                continue
            raise TranslationError("serialization constant %s has unsupported value %r" % (k, v))
        if isinstance(v, int):
            if v < 0:
                raise TranslationError("negative serialization constant")
            out.append("def ser_%s : Nat := %d" % (k, v))
        else:
            out.append('def ser_%s : String := "%s"' % (k, v))
    out.append("")
    ap = parse("src/alignment_processor.py")
    apc = {}
    ac = class_consts(ap, "AlignmentCollector")
    ac.update(class_consts(ap, "AbstractAlignmentStorage"))
    mc = {}
    for n in ap.body:
        if isinstance(n, ast.Assign) and isinstance(n.targets[0], ast.Name) and n.targets[0].id.isupper():
            try:
                mc[n.targets[0].id] = eval(compile(ast.Expression(n.value), "<c>", "eval"), {"__builtins__": {}}, dict(mc))
            except Exception:
                pass
    apc.update(mc)
    apc.update({k: v for k, v in ac.items() if k.isupper()})
    info["alignment_processor"] = apc
    for k, v in apc.items():
        if isinstance(v, bool):
            continue
        if isinstance(v, int):
            out.append("def ap_%s : Int := %d" % (k, v))
        elif isinstance(v, float):
            th = round(v * 10000)
            if abs(th - v * 10000) > 1e-9:
                raise TranslationError("float constant %s" % k)
            out.append("def ap_%s_e4 : Int := %d" % (k, th))
    out.append("")
    aio = parse("src/assignment_io.py")
    tp = class_consts(aio, "TmpFileAssignmentPrinter")
    for k in ("GENE_INFO", "READ_ASSIGNMENT"):
        if k not in tp:
            raise TranslationError("TmpFileAssignmentPrinter.%s missing" % k)
        out.append("def tmp_%s : Nat := %d" % (k, tp[k]))
    info["tmp_printer"] = {k: tp[k] for k in ("GENE_INFO", "READ_ASSIGNMENT")}
    out.append("")
    cm = parse("src/common.py")
    for nm in ("CANONICAL_FWD_SITES", "CANONICAL_REV_SITES"):
        v = find_assign(cm, nm)
        pairs = sorted(ast.literal_eval(v))
        info[nm] = [list(p) for p in pairs]
        out.append("def %s : List (String × String) := [%s]" % (nm, ", ".join('("%s", "%s")' % p for p in pairs)))
    tn = class_consts(cm, "TranscriptNaming")
    info["TranscriptNaming"] = tn
    for k, v in tn.items():
        out.append('def tn_%s : String := "%s"' % (k, v))
    out.append("\nend IsoVerif.Gen\n")
    return "\n".join(out), info


MUTABLE_CTORS = {"set", "dict", "list", "defaultdict", "Counter", "OrderedDict", "deque"}


def is_mutable_init(v):
    if isinstance(v, (ast.Set, ast.Dict, ast.List, ast.ListComp, ast.DictComp, ast.SetComp)):
        return True
    if isinstance(v, ast.Call):
        f = v.func
        nm = f.id if isinstance(f, ast.Name) else (f.attr if isinstance(f, ast.Attribute) else "")
        if nm in MUTABLE_CTORS or nm.endswith("Distributor") or nm.endswith("Storage") or nm.endswith("Counter"):
            return True
    return False


def gen_shared_state():
    """class-level and module-level state with at least one mutation site in the code base"""
    files = ["isoquant.py"] + sorted("src/" + f for f in os.listdir(os.path.join(REPO, "src")) if f.endswith(".py"))
    cands = []   # (kind, file, owner, name, mutable_container)
    trees = {}
    for rel in files:
        try:
            tree = parse(rel)
        except SyntaxError as ex:
            raise TranslationError("cannot parse %s: %s" % (rel, ex))
        trees[rel] = tree
        for n in tree.body:
            if isinstance(n, ast.Assign) and len(n.targets) == 1 and isinstance(n.targets[0], ast.Name):
                if is_mutable_init(n.value):
                    cands.append(("module", rel, "", n.targets[0].id, True))
            if isinstance(n, ast.ClassDef):
                is_enum = any((isinstance(b, ast.Name) and b.id == "Enum") for b in n.bases)
                if is_enum:
                    continue
                for m in n.body:
                    if isinstance(m, ast.Assign) and len(m.targets) == 1 and isinstance(m.targets[0], ast.Name):
                        if is_mutable_init(m.value):
                            cands.append(("class", rel, n.name, m.targets[0].id, True))
                        elif isinstance(m.value, ast.Constant) and isinstance(m.value.value, (int, float)) \
                                and not isinstance(m.value.value, bool):
                            cands.append(("class", rel, n.name, m.targets[0].id, False))
    # mutation sites: X.name.<mutator>(...), X.name[...] = , X.name += , X.name = (outside the class body/__init__ of self)
    mutators = {"add", "append", "update", "extend", "insert", "pop", "remove", "clear", "discard", "increment",
                "setdefault", "popitem", "inc", "get_id"}
    inventory = []
    for kind, rel, owner, name, container in cands:
        sites = []
        for rel2, tree in trees.items():
            for n in ast.walk(tree):
                tgt = None
                if isinstance(n, ast.Call) and isinstance(n.func, ast.Attribute) and n.func.attr in mutators:
                    tgt = n.func.value
                elif isinstance(n, (ast.Assign, ast.AugAssign)):
                    ts = n.targets if isinstance(n, ast.Assign) else [n.target]
                    for t in ts:
                        if isinstance(t, ast.Subscript):
                            t = t.value
                            if _refers(t, kind, owner, name, rel == rel2):
                                sites.append("%s:%d" % (rel2, n.lineno))
                        elif isinstance(n, ast.AugAssign) and _refers(t, kind, owner, name, rel == rel2):
                            sites.append("%s:%d" % (rel2, n.lineno))
                        elif isinstance(n, ast.Assign) and isinstance(t, ast.Attribute) and kind == "class" \
                                and isinstance(t.value, ast.Name) and t.value.id == owner and t.attr == name:
                            sites.append("%s:%d" % (rel2, n.lineno))
                    continue
                if tgt is not None and _refers(tgt, kind, owner, name, rel == rel2):
                    sites.append("%s:%d" % (rel2, n.lineno))
        if sites:
            inventory.append({"kind": kind, "file": rel, "owner": owner, "name": name, "sites": sorted(set(sites))})
    # args fields assigned outside isoquant.py
    args_fields = set()
    for rel2, tree in trees.items():
        if rel2 == "isoquant.py":
            continue
        for n in ast.walk(tree):
            if isinstance(n, ast.Assign):
                for t in n.targets:
                    if isinstance(t, ast.Attribute) and t.attr not in ("__dict__",):
                        v = t.value
                        if (isinstance(v, ast.Name) and v.id == "args") or \
                                (isinstance(v, ast.Attribute) and v.attr in ("args", "params") and isinstance(v.value, ast.Name) and v.value.id == "self"):
                            args_fields.add(t.attr)
    out = ["-- GENERATED by harness/translate.py -- do not edit", "namespace IsoVerif.Gen", "",
           "/-- class-level / module-level state with at least one mutation site: \"Owner.name\" -/",
           "def shared_state_inventory : List String := [" +
           ", ".join('"%s"' % ((i["owner"] + "." if i["owner"] else i["file"] + ":") + i["name"]) for i in inventory) + "]",
           "", "/-- fields of the long-lived args/params namespace assigned outside isoquant.py -/",
           "def args_fields_mutated : List String := [" + ", ".join('"%s"' % a for a in sorted(args_fields)) + "]",
           "", "end IsoVerif.Gen\n"]
    return "\n".join(out), {"shared_state": inventory, "args_fields": sorted(args_fields)}


def _refers(node, kind, owner, name, same_file):
    if kind == "class":
        # Owner.name  |  self.name / cls.name (only inside the same file: treat as class attr access)
        if isinstance(node, ast.Attribute) and node.attr == name and isinstance(node.value, ast.Name):
            if node.value.id == owner:
                return True
            if node.value.id == "cls" and same_file:
                return True
        return False
    else:
        return isinstance(node, ast.Name) and node.id == name and same_file


GENERATORS = [("Prims", gen_prims), ("Enums", gen_enums), ("EventClasses", gen_event_classes),
              ("Strategies", gen_strategies), ("Constants", gen_constants), ("SharedState", gen_shared_state)]


def run(write=True):
    report = {"ok": True, "errors": {}, "changed": [], "info": {}}
    os.makedirs(GEN, exist_ok=True)
    for name, fn in GENERATORS:
        path = os.path.join(GEN, name + ".lean")
        try:
            text, info = fn()
        except TranslationError as ex:
            report["ok"] = False
            report["errors"][name] = str(ex)
            continue
        except SyntaxError as ex:
            report["ok"] = False
            report["errors"][name] = "syntax error in source: %s" % ex
            continue
        report["info"][name] = info
        old = None
        if os.path.exists(path):
            with open(path) as f:
                old = f.read()
        if old != text:
            report["changed"].append(name)
            if write:
                with open(path, "w") as f:
                    f.write(text)
    if write:
        with open(os.path.join(GEN, "gen_info.json"), "w") as f:
            json.dump(report, f, indent=1, sort_keys=True, default=str)
    return report


if __name__ == "__main__":
    rep = run()
    if "--json" in sys.argv:
        print(json.dumps(rep, indent=1, default=str))
    else:
        print("translate: ok=%s changed=%s errors=%s" % (rep["ok"], rep["changed"], rep["errors"]))
    sys.exit(0 if rep["ok"] else 3)
